//! C05 — the graph stays structurally consistent under any operations and threads.
//!
//! All parts drive the real `graph_engine::GraphEngine` through its public API only.
//!
//!  seq     : random single-threaded programs (create/update/delete of nodes and directed/undirected
//!            edges, self-loops, parallel edges, hub bursts above PARALLEL_THRESHOLD followed by
//!            delete_node) against a reference multigraph model; the invariant walker compares every
//!            structural read (all_nodes, all_edges, get_edge, edges_of x3, out/in/degree, neighbors,
//!            traverse) with the model after every operation.
//!  stress  : 2-8 threads hammer 1-3 hub nodes with create_edge / delete_edge / delete_node /
//!            create_node / update_* while a seeded jitter handler perturbs timing inside the adjacency
//!            read-modify-write window (hook `graph:adj_rmw`). At quiescence (all threads joined) the
//!            walker checks the structural invariants on what the engine itself reports, plus the
//!            conservation rule "an edge created successfully, never deleted, endpoints never deleted,
//!            exists and is listed".
//!  det     : deterministic two-thread schedules: thread A is parked inside the adjacency
//!            read-modify-write (between the read and the write-back) while thread B runs a conflicting
//!            operation to completion (or blocks on a lock, which is fine); then A resumes. Same oracle.
//!
//!  batch   : 2-8 threads in tight loops of many short creations on mostly DISJOINT node sets (a private
//!            ring per thread, a few shared nodes): batch_create_edges (1-3 edges) mixed with single
//!            create_edge, batch_create_nodes / create_node, and - depending on the round's flavour -
//!            batch_delete_edges, batch_update_nodes, delete_node / batch_delete_nodes on a victim pool.
//!            Oracle at quiescence: every id a successful create returned is unique across all threads,
//!            the record stored under it is the one that call created (from, to, type, direction and a
//!            per-call unique payload), plus the structural walker.
//!
//!  bulk    : random single-threaded programs made of the bulk calls, on CLUSTERS: 1-3 hubs get a fan of edges
//!            to a pool of leaves, to each other and to themselves (below, at and above PARALLEL_THRESHOLD;
//!            built by batch_create_edges in one piece, in chunks or edge by edge), then 4-13 calls follow:
//!            batch_delete_nodes on a node together with some or all of its neighbours (the node first, last
//!            or anywhere; unrelated, repeated, already deleted and never created ids mixed in),
//!            batch_delete_edges on some or all edges of one node, batch_create_edges that regrow a hub (or are
//!            refused because of one missing endpoint), batch_create_nodes (also >= 100 at once),
//!            batch_update_nodes, single delete_node / delete_edge / create_edge in between. After every call
//!            the walker judges the structure on what the engine itself reports, then the engine's node and
//!            edge sets (records included) are compared with the reference multigraph, in which every listed
//!            node / edge that existed is gone after a bulk deletion ("deleting a node removes all of its
//!            edges"), and the ids the call reports as deleted are compared with the listed ones that existed.
//!
//! `--part seq|bulk|concurrent|stress|det|batch|all` selects parts (`concurrent` = stress + det + batch, used by the TSan leg).

use common::sched::{self, Gate};
use common::*;
use graph_engine::{Direction, EdgeInput, GraphEngine, GraphError, NodeInput, PropertyValue};
use parking_lot::Mutex;
use serde_json::{json, Value};
use std::collections::{BTreeMap, BTreeSet, HashMap, VecDeque};
use std::sync::atomic::{AtomicBool, AtomicU64, Ordering};
use std::sync::{Arc, Barrier};
use std::time::{Duration, Instant};

const TYPES: [&str; 3] = ["A", "B", "C"];

// ------------------------------------------------------------------------------------------------
// truth: the set of nodes and edges the structural reads are compared with
// ------------------------------------------------------------------------------------------------

#[derive(Clone, Debug, PartialEq)]
struct TEdge {
    from: u64,
    to: u64,
    directed: bool,
    ty: String,
    w: Option<i64>,
}

#[derive(Clone, Debug, Default)]
struct Truth {
    nodes: BTreeSet<u64>,
    edges: BTreeMap<u64, TEdge>,
    /// node -> ids of the edges touching it; only a lookup accelerator built by `indexed()` for one
    /// walk over a frozen copy (None = scan all edges)
    inc: Option<HashMap<u64, Vec<u64>>>,
}

impl Truth {
    fn indexed(&self) -> Truth {
        let mut inc: HashMap<u64, Vec<u64>> = HashMap::new();
        for (&id, e) in &self.edges {
            inc.entry(e.from).or_default().push(id);
            if e.to != e.from {
                inc.entry(e.to).or_default().push(id);
            }
        }
        Truth { nodes: self.nodes.clone(), edges: self.edges.clone(), inc: Some(inc) }
    }
    /// the edges that can touch n (all edges when no index was built)
    fn touching(&self, n: u64) -> Vec<(u64, &TEdge)> {
        match &self.inc {
            Some(inc) => inc.get(&n).map(|v| v.iter().filter_map(|id| self.edges.get(id).map(|e| (*id, e))).collect()).unwrap_or_default(),
            None => self.edges.iter().map(|(&id, e)| (id, e)).collect(),
        }
    }
    fn out_set(&self, n: u64) -> BTreeSet<u64> {
        self.touching(n).into_iter().filter(|(_, e)| e.from == n || (!e.directed && e.to == n)).map(|(id, _)| id).collect()
    }
    fn in_set(&self, n: u64) -> BTreeSet<u64> {
        self.touching(n).into_iter().filter(|(_, e)| e.to == n || (!e.directed && e.from == n)).map(|(id, _)| id).collect()
    }
    /// neighbours of n other than n itself
    fn neighbors(&self, n: u64, ty: Option<&str>, dir: Direction) -> BTreeSet<u64> {
        let mut s = BTreeSet::new();
        for (_, e) in self.touching(n) {
            if let Some(t) = ty {
                if e.ty != t {
                    continue;
                }
            }
            let fwd = dir == Direction::Outgoing || dir == Direction::Both;
            let bwd = dir == Direction::Incoming || dir == Direction::Both;
            if e.from == n && (fwd || !e.directed) {
                s.insert(e.to);
            }
            if e.to == n && (bwd || !e.directed) {
                s.insert(e.from);
            }
        }
        s.remove(&n);
        s
    }
    fn traverse(&self, start: u64, dir: Direction, depth: usize, ty: Option<&str>) -> BTreeSet<u64> {
        let mut seen = BTreeSet::new();
        seen.insert(start);
        let mut q = VecDeque::new();
        q.push_back((start, 0usize));
        while let Some((c, d)) = q.pop_front() {
            if d >= depth {
                continue;
            }
            for nb in self.neighbors(c, ty, dir) {
                if seen.insert(nb) {
                    q.push_back((nb, d + 1));
                }
            }
        }
        seen
    }
}

fn w_of(e: &graph_engine::Edge) -> Option<i64> {
    match e.properties.get("w") {
        Some(PropertyValue::Int(i)) => Some(*i),
        _ => None,
    }
}

fn truth_from_engine(g: &GraphEngine) -> Truth {
    let mut t = Truth::default();
    for n in g.all_nodes() {
        t.nodes.insert(n.id);
    }
    for e in g.all_edges() {
        t.edges.insert(e.id, TEdge { from: e.from, to: e.to, directed: e.directed, ty: e.edge_type.clone(), w: w_of(&e) });
    }
    t
}

fn dname(d: Direction) -> &'static str {
    match d {
        Direction::Outgoing => "Outgoing",
        Direction::Incoming => "Incoming",
        Direction::Both => "Both",
    }
}

#[derive(Clone, Debug)]
struct Finding {
    kind: &'static str,
    /// the edge (if any) the finding is about — used to classify the cause in concurrent rounds
    edge: Option<u64>,
    node: Option<u64>,
    detail: String,
}

fn raw_list(g: &GraphEngine, key: &str) -> Vec<u64> {
    // classification aid only (which id is the orphan); verdicts never depend on it
    match g.store().get(key) {
        Ok(t) => match t.get("_edges") {
            Some(tensor_store::TensorValue::Pointers(p)) => p.iter().filter_map(|s| s.parse().ok()).collect(),
            _ => Vec::new(),
        },
        Err(_) => Vec::new(),
    }
}

/// The invariant walker. Phase 1 = structure (statement sentences 1-2), phase 2 = derived reads
/// (neighbor / degree / traversal "exactly what the set of existing edges implies"); phase 2 runs only
/// when phase 1 is clean so that one root cause is not reported under five names.
fn walk(g: &GraphEngine, t: &Truth, rng: &mut Rng, counters: &mut BTreeMap<&'static str, u64>) -> Vec<Finding> {
    let t = &t.indexed();
    let mut f: Vec<Finding> = Vec::new();
    let mut bump = |k: &'static str, n: u64| *counters.entry(k).or_insert(0) += n;
    // --- phase 1
    for (&id, e) in &t.edges {
        for (role, n) in [("from", e.from), ("to", e.to)] {
            if !t.nodes.contains(&n) || !g.node_exists(n) {
                f.push(Finding {
                    kind: "edge-endpoint-missing",
                    edge: Some(id),
                    node: Some(n),
                    detail: format!("edge {} ({}->{} directed={}) exists but its `{}` node {} does not", id, e.from, e.to, e.directed, role, n),
                });
            }
        }
        match g.get_edge(id) {
            Ok(x) => {
                if x.from != e.from || x.to != e.to || x.directed != e.directed || x.edge_type != e.ty || w_of(&x) != e.w {
                    f.push(Finding {
                        kind: "edge-record-differs",
                        edge: Some(id),
                        node: None,
                        detail: format!("get_edge({}) = {}->{} directed={} type={} w={:?}, expected {:?}", id, x.from, x.to, x.directed, x.edge_type, w_of(&x), e),
                    });
                }
            }
            Err(err) => f.push(Finding { kind: "edge-record-unreadable", edge: Some(id), node: None, detail: format!("get_edge({}) = Err({}) for an edge listed by all_edges/model", id, err) }),
        }
        bump("reads_get_edge", 1);
    }
    for &n in &t.nodes {
        if !g.node_exists(n) {
            f.push(Finding { kind: "node-missing", edge: None, node: Some(n), detail: format!("node {} expected to exist, node_exists = false", n) });
            continue;
        }
        let exp_out = t.out_set(n);
        let exp_in = t.in_set(n);
        let exp_both: BTreeSet<u64> = exp_out.union(&exp_in).copied().collect();
        for (dir, exp) in [(Direction::Outgoing, &exp_out), (Direction::Incoming, &exp_in), (Direction::Both, &exp_both)] {
            bump("reads_edges_of", 1);
            let got = match g.edges_of(n, dir) {
                Ok(v) => v,
                Err(err) => {
                    f.push(Finding { kind: "edges_of-error", edge: None, node: Some(n), detail: format!("edges_of({}, {}) = Err({})", n, dname(dir), err) });
                    continue;
                }
            };
            let got_ids: BTreeSet<u64> = got.iter().map(|e| e.id).collect();
            if got_ids.len() != got.len() {
                f.push(Finding { kind: "edges_of-duplicates", edge: None, node: Some(n), detail: format!("edges_of({}, {}) lists an edge twice: {:?}", n, dname(dir), got.iter().map(|e| e.id).collect::<Vec<_>>()) });
            }
            for id in exp.difference(&got_ids) {
                f.push(Finding {
                    kind: "edge-not-listed",
                    edge: Some(*id),
                    node: Some(n),
                    detail: format!("edge {} {:?} exists but edges_of({}, {}) does not list it (lists {:?})", id, t.edges.get(id), n, dname(dir), got_ids),
                });
            }
            for id in got_ids.difference(exp) {
                let kind = if t.edges.contains_key(id) { "listed-edge-does-not-touch-node" } else { "listed-edge-does-not-exist" };
                f.push(Finding { kind, edge: Some(*id), node: Some(n), detail: format!("edges_of({}, {}) lists edge {} ({:?}) which should not be there", n, dname(dir), id, t.edges.get(id)) });
            }
        }
        // orphan ids are hidden by edges_of (it skips unreadable ids) but counted by the degree reads
        for (what, key, exp, got) in [
            ("out_degree", format!("node:{}:out", n), exp_out.len(), g.out_degree(n)),
            ("in_degree", format!("node:{}:in", n), exp_in.len(), g.in_degree(n)),
        ] {
            bump("reads_degree", 1);
            match got {
                Ok(d) if d == exp => {}
                Ok(d) => {
                    let raw = raw_list(g, &key);
                    let orphan = raw.iter().copied().find(|id| !t.edges.contains_key(id));
                    if d > exp && orphan.is_some() {
                        f.push(Finding {
                            kind: "listed-edge-does-not-exist",
                            edge: orphan,
                            node: Some(n),
                            detail: format!("{}({}) = {} but only {} existing edges qualify; the stored list {:?} names edge {:?} which does not exist", what, n, d, exp, raw, orphan),
                        });
                    } else if f.iter().all(|x| x.node != Some(n)) {
                        f.push(Finding { kind: "degree-mismatch", edge: None, node: Some(n), detail: format!("{}({}) = {}, existing edges imply {}", what, n, d, exp) });
                    }
                }
                Err(err) => f.push(Finding { kind: "degree-error", edge: None, node: Some(n), detail: format!("{}({}) = Err({})", what, n, err) }),
            }
        }
    }
    if !f.is_empty() {
        return f;
    }
    // --- phase 2
    let nodes: Vec<u64> = t.nodes.iter().copied().collect();
    for &n in &nodes {
        match g.degree(n) {
            Ok(d) if d == t.out_set(n).len() + t.in_set(n).len() => {}
            other => f.push(Finding { kind: "degree-mismatch", edge: None, node: Some(n), detail: format!("degree({}) = {:?}, existing edges imply {}", n, other, t.out_set(n).len() + t.in_set(n).len()) }),
        }
        for dir in [Direction::Outgoing, Direction::Incoming, Direction::Both] {
            let ty = if rng.chance(1, 3) { Some(TYPES[rng.below(3)]) } else { None };
            bump("reads_neighbors", 1);
            match g.neighbors(n, ty, dir, None) {
                Ok(v) => {
                    let mut got: BTreeSet<u64> = v.iter().map(|x| x.id).collect();
                    got.remove(&n);
                    let exp = t.neighbors(n, ty, dir);
                    if got != exp {
                        f.push(Finding { kind: "neighbors-mismatch", edge: None, node: Some(n), detail: format!("neighbors({}, {:?}, {}) = {:?}, existing edges imply {:?}", n, ty, dname(dir), got, exp) });
                    }
                }
                Err(err) => f.push(Finding { kind: "neighbors-error", edge: None, node: Some(n), detail: format!("neighbors({}, {:?}, {}) = Err({})", n, ty, dname(dir), err) }),
            }
        }
    }
    for _ in 0..nodes.len().min(3) {
        let n = nodes[rng.below(nodes.len())];
        let dir = [Direction::Outgoing, Direction::Incoming, Direction::Both][rng.below(3)];
        let depth = rng.below(5);
        let ty = if rng.chance(1, 4) { Some(TYPES[rng.below(3)]) } else { None };
        bump("reads_traverse", 1);
        match g.traverse(n, dir, depth, ty, None) {
            Ok(v) => {
                let got: BTreeSet<u64> = v.iter().map(|x| x.id).collect();
                let exp = t.traverse(n, dir, depth, ty);
                if got != exp || got.len() != v.len() {
                    f.push(Finding { kind: "traverse-mismatch", edge: None, node: Some(n), detail: format!("traverse({}, {}, depth {}, {:?}) = {:?}, existing edges imply {:?}", n, dname(dir), depth, ty, v.iter().map(|x| x.id).collect::<Vec<_>>(), exp) });
                }
            }
            Err(err) => f.push(Finding { kind: "traverse-error", edge: None, node: Some(n), detail: format!("traverse({}, ..) = Err({})", n, err) }),
        }
    }
    f
}

fn props_w(w: i64) -> HashMap<String, PropertyValue> {
    let mut m = HashMap::new();
    m.insert("w".to_string(), PropertyValue::Int(w));
    m
}
fn props_v(v: i64) -> HashMap<String, PropertyValue> {
    let mut m = HashMap::new();
    m.insert("v".to_string(), PropertyValue::Int(v));
    m
}

// ------------------------------------------------------------------------------------------------
// part seq: model-based sequential programs
// ------------------------------------------------------------------------------------------------

fn seq_case(case_seed: u64, r: &mut Report) {
    let mut rng = Rng::new(case_seed);
    let g = GraphEngine::new();
    let mut m = Truth::default();
    let mut dead_nodes: Vec<u64> = Vec::new();
    let mut dead_edges: Vec<u64> = Vec::new();
    let mut trace: Vec<String> = Vec::new();
    let mut counters: BTreeMap<&'static str, u64> = BTreeMap::new();
    let n_ops = 20 + rng.below(60);
    let with_burst = rng.chance(1, 4);
    let burst_at = rng.below(n_ops);
    let mut force_delete: Option<u64> = None;
    let mut ops_done = 0u64;
    let mut max_degree = 0usize;

    macro_rules! fail {
        ($op:expr, $kind:expr, $detail:expr) => {{
            r.violation(
                format!("seq:{}:{}", $op, $kind),
                format!("{} — after program (case_seed {}): {}", $detail, case_seed, trace.join("; ")),
                json!({"part": "seq", "case_seed": case_seed}),
            );
            return;
        }};
    }

    for step in 0..n_ops {
        // ---- choose and run one operation; `opname` classifies it for the signature
        let opname: &'static str;
        if with_burst && step == burst_at && m.nodes.len() >= 2 {
            // hub burst: > PARALLEL_THRESHOLD (100) edges on one node, few distinct other endpoints
            opname = "create_edge_burst";
            let nodes: Vec<u64> = m.nodes.iter().copied().collect();
            let hub = nodes[rng.below(nodes.len())];
            let k = 2 + rng.below(5).min(nodes.len() - 1);
            let others: Vec<u64> = (0..k).map(|_| nodes[rng.below(nodes.len())]).collect();
            let count = 100 + rng.below(40);
            for _ in 0..count {
                let o = others[rng.below(others.len())];
                let (a, b) = if rng.bool() { (hub, o) } else { (o, hub) };
                let directed = rng.chance(2, 3);
                let ty = TYPES[rng.below(3)];
                let w = rng.range(0, 9);
                match g.create_edge(a, b, ty, props_w(w), directed) {
                    Ok(id) => {
                        if m.edges.contains_key(&id) {
                            fail!(opname, "edge-id-reused", format!("create_edge returned id {} which is already in use", id));
                        }
                        m.edges.insert(id, TEdge { from: a, to: b, directed, ty: ty.to_string(), w: Some(w) });
                    }
                    Err(e) => fail!(opname, "op-result-unexpected", format!("create_edge({},{}) between existing nodes failed: {}", a, b, e)),
                }
            }
            trace.push(format!("burst {} edges between hub {} and {:?}", count, hub, others));
            if rng.chance(3, 4) {
                force_delete = Some(hub);
            }
        } else {
            let choice = if force_delete.is_some() && rng.chance(1, 2) { 3 } else { rng.weighted(&[18, 40, 14, 8, 6, 6, 8]) };
            match choice {
                0 => {
                    opname = "create_node";
                    let v = rng.range(0, 5);
                    match g.create_node("N", props_v(v)) {
                        Ok(id) => {
                            if m.nodes.contains(&id) || dead_nodes.contains(&id) {
                                fail!(opname, "node-id-reused", format!("create_node returned id {} already used", id));
                            }
                            m.nodes.insert(id);
                            trace.push(format!("create_node={}", id));
                        }
                        Err(e) => fail!(opname, "op-result-unexpected", format!("create_node failed: {}", e)),
                    }
                }
                1 => {
                    opname = "create_edge";
                    let nodes: Vec<u64> = m.nodes.iter().copied().collect();
                    let pick = |rng: &mut Rng| -> u64 {
                        if !dead_nodes.is_empty() && rng.chance(1, 12) {
                            dead_nodes[rng.below(dead_nodes.len())]
                        } else if nodes.is_empty() || rng.chance(1, 40) {
                            9_000 + rng.below(10) as u64
                        } else {
                            nodes[rng.below(nodes.len())]
                        }
                    };
                    let a = pick(&mut rng);
                    let b = if rng.chance(1, 8) { a } else { pick(&mut rng) };
                    let directed = rng.chance(3, 5);
                    let ty = TYPES[rng.below(3)];
                    let w = rng.range(0, 9);
                    let res = g.create_edge(a, b, ty, props_w(w), directed);
                    trace.push(format!("create_edge({},{},{},directed={})={:?}", a, b, ty, directed, res.as_ref().map_err(|e| e.to_string())));
                    let should_ok = m.nodes.contains(&a) && m.nodes.contains(&b);
                    match res {
                        Ok(id) => {
                            if !should_ok {
                                fail!(opname, "op-result-unexpected", format!("create_edge({},{}) succeeded although an endpoint does not exist", a, b));
                            }
                            if m.edges.contains_key(&id) || dead_edges.contains(&id) {
                                fail!(opname, "edge-id-reused", format!("create_edge returned id {} already used", id));
                            }
                            m.edges.insert(id, TEdge { from: a, to: b, directed, ty: ty.to_string(), w: Some(w) });
                        }
                        Err(GraphError::NodeNotFound(_)) if !should_ok => {}
                        Err(e) => fail!(opname, "op-result-unexpected", format!("create_edge({},{}) = Err({}) (endpoints exist: {})", a, b, e, should_ok)),
                    }
                }
                2 => {
                    opname = "delete_edge";
                    let ids: Vec<u64> = m.edges.keys().copied().collect();
                    let id = if !dead_edges.is_empty() && rng.chance(1, 8) {
                        dead_edges[rng.below(dead_edges.len())]
                    } else if ids.is_empty() {
                        77_000
                    } else {
                        ids[rng.below(ids.len())]
                    };
                    let res = g.delete_edge(id);
                    trace.push(format!("delete_edge({})={:?}", id, res.as_ref().map_err(|e| e.to_string())));
                    match (res, m.edges.contains_key(&id)) {
                        (Ok(()), true) => {
                            m.edges.remove(&id);
                            dead_edges.push(id);
                        }
                        (Err(GraphError::EdgeNotFound(_)), false) => {}
                        (other, exists) => fail!(opname, "op-result-unexpected", format!("delete_edge({}) = {:?} (edge exists: {})", id, other.map_err(|e| e.to_string()), exists)),
                    }
                }
                3 => {
                    let nodes: Vec<u64> = m.nodes.iter().copied().collect();
                    let id = if let Some(h) = force_delete.take() {
                        h
                    } else if !dead_nodes.is_empty() && rng.chance(1, 8) {
                        dead_nodes[rng.below(dead_nodes.len())]
                    } else if nodes.is_empty() {
                        88_000
                    } else {
                        nodes[rng.below(nodes.len())]
                    };
                    let incident: BTreeSet<u64> = m.out_set(id).union(&m.in_set(id)).copied().collect();
                    opname = if incident.len() >= 100 { "delete_node_highdegree" } else { "delete_node" };
                    let res = g.delete_node(id);
                    trace.push(format!("delete_node({}) [{} incident edges]={:?}", id, incident.len(), res.as_ref().map_err(|e| e.to_string())));
                    match (res, m.nodes.contains(&id)) {
                        (Ok(()), true) => {
                            m.nodes.remove(&id);
                            dead_nodes.push(id);
                            for e in incident {
                                m.edges.remove(&e);
                                dead_edges.push(e);
                            }
                        }
                        (Err(GraphError::NodeNotFound(_)), false) => {}
                        (other, exists) => fail!(opname, "op-result-unexpected", format!("delete_node({}) = {:?} (node exists: {})", id, other.map_err(|e| e.to_string()), exists)),
                    }
                }
                4 => {
                    opname = "update_edge";
                    let ids: Vec<u64> = m.edges.keys().copied().collect();
                    if ids.is_empty() {
                        continue;
                    }
                    let id = ids[rng.below(ids.len())];
                    let w = rng.range(10, 99);
                    match g.update_edge(id, props_w(w)) {
                        Ok(()) => {
                            m.edges.get_mut(&id).unwrap().w = Some(w);
                            trace.push(format!("update_edge({},w={})", id, w));
                        }
                        Err(e) => fail!(opname, "op-result-unexpected", format!("update_edge({}) of an existing edge failed: {}", id, e)),
                    }
                }
                5 => {
                    opname = "update_node";
                    let nodes: Vec<u64> = m.nodes.iter().copied().collect();
                    if nodes.is_empty() {
                        continue;
                    }
                    let id = nodes[rng.below(nodes.len())];
                    let labels = if rng.bool() { Some(vec!["M".to_string()]) } else { None };
                    match g.update_node(id, labels, props_v(rng.range(10, 99))) {
                        Ok(()) => trace.push(format!("update_node({})", id)),
                        Err(e) => fail!(opname, "op-result-unexpected", format!("update_node({}) of an existing node failed: {}", id, e)),
                    }
                }
                _ => {
                    // reads of things that must not exist
                    opname = "read_deleted";
                    if let Some(&id) = dead_nodes.last() {
                        if g.node_exists(id) || g.edges_of(id, Direction::Both).is_ok() || g.out_degree(id).is_ok() {
                            fail!(opname, "deleted-node-still-answers", format!("node {} was deleted but node_exists/edges_of/out_degree still answer", id));
                        }
                    }
                    if let Some(&id) = dead_edges.last() {
                        if g.get_edge(id).is_ok() {
                            fail!(opname, "deleted-edge-still-readable", format!("edge {} was deleted (directly or with its node) but get_edge succeeds", id));
                        }
                    }
                }
            }
        }
        ops_done += 1;
        // ---- compare every structural read with the model
        let engine_nodes: BTreeSet<u64> = g.all_nodes().iter().map(|n| n.id).collect();
        if engine_nodes != m.nodes {
            fail!(opname, "node-set-differs", format!("all_nodes() = {:?}, model {:?}", engine_nodes, m.nodes));
        }
        let engine_edges: BTreeSet<u64> = g.all_edges().iter().map(|e| e.id).collect();
        let model_edges: BTreeSet<u64> = m.edges.keys().copied().collect();
        if engine_edges != model_edges {
            let lost: Vec<_> = model_edges.difference(&engine_edges).collect();
            let extra: Vec<_> = engine_edges.difference(&model_edges).collect();
            let kind = if !lost.is_empty() { "edge-lost" } else { "edge-not-removed" };
            fail!(opname, kind, format!("all_edges() misses {:?} and has unexpected {:?}", lost, extra));
        }
        let findings = walk(&g, &m, &mut rng, &mut counters);
        if let Some(f0) = findings.first() {
            fail!(opname, f0.kind, format!("{} (+{} more findings)", f0.detail, findings.len() - 1));
        }
        for &n in &m.nodes {
            max_degree = max_degree.max(m.out_set(n).len() + m.in_set(n).len());
        }
    }
    for (k, v) in &counters {
        r.count(k, *v);
    }
    r.count("seq_ops_checked", ops_done);
    r.count("seq_programs", 1);
    r.count_max("max:seq_degree", max_degree as u64);
    if with_burst && max_degree >= 100 {
        r.count("seq_programs_with_highdegree_hub", 1);
    }
    let self_loops = m.edges.values().filter(|e| e.from == e.to).count();
    r.eval(hash_str(&trace.join(";")), ops_done >= 10 && !dead_edges.is_empty());
    if r.want_sample() && trace.len() > 10 {
        r.sample(json!({"part": "seq", "case_seed": case_seed, "ops": ops_done, "final_nodes": m.nodes.len(), "final_edges": m.edges.len(),
            "self_loops": self_loops, "max_degree": max_degree, "trace_head": trace.iter().take(10).collect::<Vec<_>>() }));
    }
}

// ------------------------------------------------------------------------------------------------
// concurrent parts: shared history + quiescent oracle
// ------------------------------------------------------------------------------------------------

#[derive(Clone, Debug)]
#[allow(dead_code)] // every field is shown in the recorded history
enum OpKind {
    CreateNode,
    CreateEdge { from: u64, to: u64, directed: bool },
    DeleteEdge { id: u64 },
    DeleteNode { id: u64 },
    UpdateEdge { id: u64 },
    UpdateNode { id: u64 },
}

#[derive(Clone, Debug)]
struct Ev {
    thread: usize,
    kind: OpKind,
    inv: u64,
    res: u64,
    /// Ok(Some(id)) for creations, Ok(None) otherwise
    result: Result<Option<u64>, String>,
}

fn overlaps(a: &Ev, b: &Ev) -> bool {
    a.inv < b.res && b.inv < a.res
}

/// Quiescent-state oracle for the concurrent parts. Returns (signature-suffix, detail) list.
fn judge_quiescent(g: &GraphEngine, prefill: &Truth, hist: &[Ev], rng: &mut Rng, counters: &mut BTreeMap<&'static str, u64>) -> Vec<(String, String)> {
    let t = truth_from_engine(g);
    let mut out: Vec<(String, String)> = Vec::new();
    // who did what to which id
    let mut created: BTreeMap<u64, (u64, u64, bool, Option<usize>)> = BTreeMap::new(); // id -> from,to,directed, hist index
    for (id, e) in &prefill.edges {
        created.insert(*id, (e.from, e.to, e.directed, None));
    }
    for (i, ev) in hist.iter().enumerate() {
        if let (OpKind::CreateEdge { from, to, directed }, Ok(Some(id))) = (&ev.kind, &ev.result) {
            created.insert(*id, (*from, *to, *directed, Some(i)));
        }
    }
    let node_deletes = |n: u64| hist.iter().filter(move |e| matches!(e.kind, OpKind::DeleteNode { id } if id == n));
    let edge_deletes = |x: u64| hist.iter().filter(move |e| matches!(e.kind, OpKind::DeleteEdge { id } if id == x));
    let edge_updates = |x: u64| hist.iter().filter(move |e| matches!(e.kind, OpKind::UpdateEdge { id } if id == x));
    // cause classification for a finding about edge `id`
    // Root-cause class of a structural finding about edge `id`, derived from which recorded operations
    // overlapped in time (the verdict does not depend on it):
    //  delete_node-vs-create_edge : the edge was being created while delete_node ran on one of its endpoints
    //  update_edge-vs-delete      : update_edge(id) overlapped a delete_edge(id) / delete_node(endpoint)
    //  adjacency-lost-update      : none of the above — an adjacency list write was lost or stale although
    //                               only list read-modify-writes were in flight
    let cause = |id: u64| -> &'static str {
        let Some(&(from, to, _d, hi)) = created.get(&id) else { return "adjacency-lost-update" };
        let removers: Vec<&Ev> = edge_deletes(id).chain(node_deletes(from)).chain(node_deletes(to)).collect();
        if edge_updates(id).any(|u| removers.iter().any(|d| overlaps(u, d))) {
            return "update_edge-vs-delete";
        }
        if let Some(hi) = hi {
            let c = &hist[hi];
            if node_deletes(from).chain(node_deletes(to)).any(|d| overlaps(c, d)) {
                return "delete_node-vs-create_edge";
            }
        }
        "adjacency-lost-update"
    };
    // conservation
    for (&id, &(from, to, directed, _)) in &created {
        let touched = edge_deletes(id).next().is_some() || node_deletes(from).next().is_some() || node_deletes(to).next().is_some();
        *counters.entry("conservation_edges_checked").or_insert(0) += 1;
        match t.edges.get(&id) {
            None if !touched => out.push((
                "edge-record-lost".into(),
                format!("edge {} ({}->{} directed={}) was created successfully, no delete_edge/delete_node ever targeted it or its endpoints, yet it does not exist", id, from, to, directed),
            )),
            Some(e) if e.from != from || e.to != to || e.directed != directed => {
                out.push(("edge-record-differs".into(), format!("edge {} created as {}->{} directed={} now reads {:?}", id, from, to, directed, e)))
            }
            Some(_) => {
                // a successfully deleted edge must be gone
                let deleted_ok = edge_deletes(id).any(|d| d.result.is_ok());
                if deleted_ok {
                    let c = cause(id);
                    let sig = if c == "update_edge-vs-delete" { c.to_string() } else { "deleted-edge-exists".to_string() };
                    out.push((sig, format!("[deleted-edge-exists] delete_edge({}) returned Ok but the edge still exists at quiescence", id)));
                }
            }
            None => {}
        }
    }
    for f in walk(g, &t, rng, counters) {
        let sig = match f.kind {
            "edge-endpoint-missing" | "edge-not-listed" | "listed-edge-does-not-exist" | "listed-edge-does-not-touch-node" => {
                f.edge.map(cause).unwrap_or("adjacency-lost-update").to_string()
            }
            k => k.to_string(),
        };
        let f = Finding { detail: format!("[{}] {}", f.kind, f.detail), ..f };
        out.push((sig, f.detail));
    }
    // informational only (the statement is silent about node records): deleted nodes that exist again
    let resurrected = hist
        .iter()
        .filter(|e| e.result.is_ok())
        .filter_map(|e| if let OpKind::DeleteNode { id } = e.kind { Some(id) } else { None })
        .filter(|id| t.nodes.contains(id))
        .count();
    *counters.entry("info_deleted_nodes_existing_at_quiescence").or_insert(0) += resurrected as u64;
    out
}

fn hist_json(hist: &[Ev], limit: usize) -> Vec<Value> {
    let mut h: Vec<&Ev> = hist.iter().collect();
    h.sort_by_key(|e| e.inv);
    h.iter().take(limit).map(|e| json!({"t": e.thread, "op": format!("{:?}", e.kind), "inv": e.inv, "res": e.res, "result": format!("{:?}", e.result)})).collect()
}

fn report_round(r: &mut Report, part: &str, findings: Vec<(String, String)>, hist: &[Ev], replay: Value, ctx: &str) -> bool {
    if findings.is_empty() {
        return false;
    }
    let mut seen = BTreeSet::new();
    for (sig, detail) in findings {
        if seen.insert(sig.clone()) {
            let full = format!("{}:{}", part, sig);
            r.violation(full, format!("{} — {}; history (by invocation): {}", detail, ctx, serde_json::to_string(&hist_json(hist, 60)).unwrap_or_default()), replay.clone());
        }
    }
    true
}

// ------------------------------------------------------------------------------------------------
// part stress
// ------------------------------------------------------------------------------------------------

struct Shared {
    clock: AtomicU64,
    edges: Mutex<Vec<u64>>,
    leaves: Mutex<Vec<u64>>,
    hook_hits: AtomicU64,
}

fn stress_case(case_seed: u64, r: &mut Report) {
    let mut rng = Rng::new(case_seed);
    let threads = 2 + rng.below(7); // 2..=8
    let hubs_n = 1 + rng.below(3);
    let leaves_n = 3 + rng.below(12);
    let ops_per_thread = 15 + rng.below(45);
    // 0: create only, 1: + delete_edge, 2: + delete_node/create_node, 3: + updates
    let mix = rng.below(4);
    let jitter_on = rng.chance(3, 4);
    let g = Arc::new(GraphEngine::new());
    let mut hubs = Vec::new();
    let mut leaves = Vec::new();
    for _ in 0..hubs_n {
        match g.create_node("Hub", props_v(0)) {
            Ok(id) => hubs.push(id),
            Err(_) => {
                r.inconclusive("stress: setup create_node failed");
                return;
            }
        }
    }
    for _ in 0..leaves_n {
        match g.create_node("Leaf", props_v(1)) {
            Ok(id) => leaves.push(id),
            Err(_) => {
                r.inconclusive("stress: setup create_node failed");
                return;
            }
        }
    }
    // prefill (single-threaded, so these edges are certainly there)
    let mut prefill = Truth::default();
    let pre = rng.below(12);
    for _ in 0..pre {
        let h = hubs[rng.below(hubs.len())];
        let l = leaves[rng.below(leaves.len())];
        let (a, b) = if rng.bool() { (h, l) } else { (l, h) };
        let directed = rng.bool();
        if let Ok(id) = g.create_edge(a, b, "A", props_w(1), directed) {
            prefill.edges.insert(id, TEdge { from: a, to: b, directed, ty: "A".into(), w: Some(1) });
        }
    }
    let shared = Arc::new(Shared {
        clock: AtomicU64::new(1),
        edges: Mutex::new(prefill.edges.keys().copied().collect()),
        leaves: Mutex::new(leaves.clone()),
        hook_hits: AtomicU64::new(0),
    });
    let barrier = Arc::new(Barrier::new(threads));
    let seeds: Vec<u64> = (0..threads).map(|_| rng.next_u64()).collect();
    let hubs = Arc::new(hubs);
    let hist: Vec<Ev> = std::thread::scope(|s| {
        let hs: Vec<_> = (0..threads)
            .map(|ti| {
                let g = g.clone();
                let shared = shared.clone();
                let barrier = barrier.clone();
                let hubs = hubs.clone();
                let seed = seeds[ti];
                s.spawn(move || {
                    let mut rng = Rng::new(seed);
                    let jit = sched::jitter(seed ^ 0x5eed);
                    let sh2 = shared.clone();
                    sched::set_thread_handler(Some(Arc::new(move |name: &'static str| {
                        if name == "graph:adj_rmw" {
                            sh2.hook_hits.fetch_add(1, Ordering::Relaxed);
                            if jitter_on {
                                jit(name);
                            }
                        }
                    })));
                    let mut log: Vec<Ev> = Vec::with_capacity(ops_per_thread);
                    barrier.wait();
                    for _ in 0..ops_per_thread {
                        let w: [u32; 6] = match mix {
                            0 => [100, 0, 0, 0, 0, 0],
                            1 => [60, 40, 0, 0, 0, 0],
                            2 => [50, 25, 10, 15, 0, 0],
                            _ => [40, 20, 8, 10, 14, 8],
                        };
                        let choice = rng.weighted(&w);
                        let pick_node = |rng: &mut Rng| -> u64 {
                            if rng.chance(3, 5) {
                                hubs[rng.below(hubs.len())]
                            } else {
                                let l = shared.leaves.lock();
                                if l.is_empty() {
                                    hubs[0]
                                } else {
                                    l[rng.below(l.len())]
                                }
                            }
                        };
                        let pick_edge = |rng: &mut Rng| -> Option<u64> {
                            let e = shared.edges.lock();
                            if e.is_empty() {
                                None
                            } else {
                                Some(e[rng.below(e.len())])
                            }
                        };
                        let (kind, result): (OpKind, Box<dyn FnOnce() -> Result<Option<u64>, String>>) = match choice {
                            0 => {
                                let a = hubs[rng.below(hubs.len())];
                                let b = if rng.chance(1, 10) { a } else { pick_node(&mut rng) };
                                let (a, b) = if rng.bool() { (a, b) } else { (b, a) };
                                let directed = rng.chance(3, 5);
                                let ty = TYPES[rng.below(3)];
                                let g = g.clone();
                                (OpKind::CreateEdge { from: a, to: b, directed }, Box::new(move || g.create_edge(a, b, ty, props_w(2), directed).map(Some).map_err(|e| e.to_string())))
                            }
                            1 => match pick_edge(&mut rng) {
                                Some(id) => {
                                    let g = g.clone();
                                    (OpKind::DeleteEdge { id }, Box::new(move || g.delete_edge(id).map(|_| None).map_err(|e| e.to_string())))
                                }
                                None => continue,
                            },
                            2 => {
                                let id = if rng.chance(1, 6) { hubs[rng.below(hubs.len())] } else { pick_node(&mut rng) };
                                let g = g.clone();
                                (OpKind::DeleteNode { id }, Box::new(move || g.delete_node(id).map(|_| None).map_err(|e| e.to_string())))
                            }
                            3 => {
                                let g = g.clone();
                                (OpKind::CreateNode, Box::new(move || g.create_node("Leaf", props_v(2)).map(Some).map_err(|e| e.to_string())))
                            }
                            4 => match pick_edge(&mut rng) {
                                Some(id) => {
                                    let g = g.clone();
                                    let w = rng.range(10, 99);
                                    (OpKind::UpdateEdge { id }, Box::new(move || g.update_edge(id, props_w(w)).map(|_| None).map_err(|e| e.to_string())))
                                }
                                None => continue,
                            },
                            _ => {
                                let id = pick_node(&mut rng);
                                let g = g.clone();
                                let v = rng.range(10, 99);
                                (OpKind::UpdateNode { id }, Box::new(move || g.update_node(id, None, props_v(v)).map(|_| None).map_err(|e| e.to_string())))
                            }
                        };
                        let inv = shared.clock.fetch_add(1, Ordering::SeqCst);
                        let result = result();
                        let res = shared.clock.fetch_add(1, Ordering::SeqCst);
                        if let Ok(Some(id)) = &result {
                            match kind {
                                OpKind::CreateEdge { .. } => shared.edges.lock().push(*id),
                                OpKind::CreateNode => shared.leaves.lock().push(*id),
                                _ => {}
                            }
                        }
                        log.push(Ev { thread: ti, kind, inv, res, result });
                    }
                    sched::set_thread_handler(None);
                    log
                })
            })
            .collect();
        let mut all = Vec::new();
        for h in hs {
            match h.join() {
                Ok(l) => all.extend(l),
                Err(e) => all.push(Ev { thread: 99, kind: OpKind::CreateNode, inv: 0, res: 0, result: Err(format!("PANIC {}", panic_msg(&e))) }),
            }
        }
        all
    });
    if let Some(p) = hist.iter().find(|e| e.thread == 99) {
        r.violation(
            format!("panic:{}", first_line(p.result.as_ref().err().map(|s| s.as_str()).unwrap_or(""))),
            format!("a worker thread panicked inside the engine: {:?}", p.result),
            json!({"part": "stress", "case_seed": case_seed}),
        );
        return;
    }
    // ---- quiescent: everybody joined
    let mut counters: BTreeMap<&'static str, u64> = BTreeMap::new();
    let findings = judge_quiescent(&g, &prefill, &hist, &mut rng, &mut counters);
    for (k, v) in &counters {
        r.count(k, *v);
    }
    let hits = shared.hook_hits.load(Ordering::Relaxed);
    r.count("hook_hits_adj_rmw", hits);
    r.count("stress_rounds", 1);
    r.count("stress_ops", hist.len() as u64);
    for e in &hist {
        let k = match e.kind {
            OpKind::CreateNode => "ev_create_node",
            OpKind::CreateEdge { .. } => "ev_create_edge",
            OpKind::DeleteEdge { .. } => "ev_delete_edge",
            OpKind::DeleteNode { .. } => "ev_delete_node",
            OpKind::UpdateEdge { .. } => "ev_update_edge",
            OpKind::UpdateNode { .. } => "ev_update_node",
        };
        r.count(k, 1);
    }
    // overlapping operations of different threads (non-triviality) and the interleaving fingerprint
    let mut sorted: Vec<&Ev> = hist.iter().collect();
    sorted.sort_by_key(|e| e.inv);
    let mut overlapping = 0u64;
    for w in sorted.windows(2) {
        if w[0].thread != w[1].thread && w[1].inv < w[0].res {
            overlapping += 1;
        }
    }
    r.count("stress_overlapping_op_pairs", overlapping);
    let mut fp = case_seed;
    for e in &sorted {
        fp = hash_combine(fp, e.thread as u64);
    }
    let ctx = format!("stress round case_seed {} threads {} hubs {} leaves {} ops/thread {} mix {} jitter {}", case_seed, threads, hubs_n, leaves_n, ops_per_thread, mix, jitter_on);
    let bad = report_round(r, "conc", findings, &hist, json!({"part": "stress", "case_seed": case_seed}), &ctx);
    r.eval(fp, overlapping > 0);
    if !bad && r.want_sample() {
        r.sample(json!({"part": "stress", "case_seed": case_seed, "threads": threads, "hubs": hubs_n, "mix": mix, "ops": hist.len(), "overlapping_pairs": overlapping,
            "hook_hits": hits, "final_edges": g.all_edges().len(), "history_head": hist_json(&hist, 8)}));
    }
}

// ------------------------------------------------------------------------------------------------
// part det: parked schedules
// ------------------------------------------------------------------------------------------------

const SCENARIOS: [&str; 9] = [
    "create_edge(hub->l1)@out(hub) || create_edge(hub->l2)",
    "create_edge(l1->hub)@in(hub) || create_edge(l2->hub)",
    "delete_edge(hub->l1)@out(hub) || create_edge(hub->l2)",
    "create_edge(hub->l1)@out(hub) || delete_edge(hub->l0)",
    "create_edge(l1--hub)@out(hub) || create_edge(hub->l2)",
    "create_edge(hub->l1)@out(hub) || delete_node(l1)",
    "create_edge(hub->l1)@in(l1) || delete_node(hub)",
    "delete_node(l1)@out(hub) || create_edge(hub->l2)",
    "delete_edge(hub--l1)@in(hub) || delete_edge(l0->hub)",
];

#[derive(Clone, Copy, Debug)]
enum DOp {
    Create { from: u64, to: u64, directed: bool },
    DelEdge(u64),
    DelNode(u64),
}

fn run_dop(g: &GraphEngine, op: DOp) -> (OpKind, Result<Option<u64>, String>) {
    match op {
        DOp::Create { from, to, directed } => (OpKind::CreateEdge { from, to, directed }, g.create_edge(from, to, "A", props_w(3), directed).map(Some).map_err(|e| e.to_string())),
        DOp::DelEdge(id) => (OpKind::DeleteEdge { id }, g.delete_edge(id).map(|_| None).map_err(|e| e.to_string())),
        DOp::DelNode(id) => (OpKind::DeleteNode { id }, g.delete_node(id).map(|_| None).map_err(|e| e.to_string())),
    }
}

fn det_case(case_seed: u64, scenario: Option<usize>, r: &mut Report) {
    let mut rng = Rng::new(case_seed);
    let sc = scenario.unwrap_or_else(|| rng.below(SCENARIOS.len()));
    let g = Arc::new(GraphEngine::new());
    let mk = |label: &str| g.create_node(label, props_v(0));
    let (hub, l0, l1, l2) = match (mk("Hub"), mk("Leaf"), mk("Leaf"), mk("Leaf")) {
        (Ok(a), Ok(b), Ok(c), Ok(d)) => (a, b, c, d),
        _ => {
            r.inconclusive("det: setup failed");
            return;
        }
    };
    let mut prefill = Truth::default();
    let pre = |from: u64, to: u64, directed: bool, prefill: &mut Truth| -> Option<u64> {
        match g.create_edge(from, to, "A", props_w(1), directed) {
            Ok(id) => {
                prefill.edges.insert(id, TEdge { from, to, directed, ty: "A".into(), w: Some(1) });
                Some(id)
            }
            Err(_) => None,
        }
    };
    // some unrelated existing adjacency so that lists are not empty
    for _ in 0..rng.below(4) {
        let (a, b) = if rng.bool() { (hub, l0) } else { (l0, hub) };
        pre(a, b, rng.bool(), &mut prefill);
    }
    let e_hub_l0 = pre(hub, l0, true, &mut prefill);
    // scenario table: (A op, nth adj_rmw point at which A parks, B op)
    let (a_op, nth, b_op): (DOp, u64, DOp) = match sc {
        0 => (DOp::Create { from: hub, to: l1, directed: true }, 0, DOp::Create { from: hub, to: l2, directed: rng.bool() }),
        1 => (DOp::Create { from: l1, to: hub, directed: true }, 1, DOp::Create { from: l2, to: hub, directed: rng.bool() }),
        2 => {
            let e = pre(hub, l1, true, &mut prefill);
            (DOp::DelEdge(e.unwrap_or(0)), 0, DOp::Create { from: hub, to: l2, directed: true })
        }
        3 => (DOp::Create { from: hub, to: l1, directed: true }, 0, DOp::DelEdge(e_hub_l0.unwrap_or(0))),
        4 => (DOp::Create { from: l1, to: hub, directed: false }, 2, DOp::Create { from: hub, to: l2, directed: true }),
        5 => (DOp::Create { from: hub, to: l1, directed: true }, 0, DOp::DelNode(l1)),
        6 => (DOp::Create { from: hub, to: l1, directed: true }, 1, DOp::DelNode(hub)),
        7 => {
            pre(hub, l1, true, &mut prefill);
            (DOp::DelNode(l1), 0, DOp::Create { from: hub, to: l2, directed: true })
        }
        _ => {
            let e = pre(hub, l1, false, &mut prefill);
            let e2 = pre(l0, hub, true, &mut prefill);
            (DOp::DelEdge(e.unwrap_or(0)), 3, DOp::DelEdge(e2.unwrap_or(0)))
        }
    };
    let clock = Arc::new(AtomicU64::new(1));
    let gate = Gate::new();
    let b_done = Arc::new(AtomicBool::new(false));
    let hits = Arc::new(AtomicU64::new(0));
    let mut forced = false;
    let mut a_parked = false;
    let hist: Vec<Ev> = std::thread::scope(|s| {
        let ha = {
            let g = g.clone();
            let gate = gate.clone();
            let clock = clock.clone();
            let hits = hits.clone();
            s.spawn(move || {
                let park = sched::park_at("graph:adj_rmw", nth, gate);
                sched::set_thread_handler(Some(Arc::new(move |name: &'static str| {
                    hits.fetch_add(1, Ordering::Relaxed);
                    park(name)
                })));
                let inv = clock.fetch_add(1, Ordering::SeqCst);
                let (kind, result) = run_dop(&g, a_op);
                let res = clock.fetch_add(1, Ordering::SeqCst);
                sched::set_thread_handler(None);
                Ev { thread: 0, kind, inv, res, result }
            })
        };
        a_parked = gate.wait_parked(Duration::from_secs(10));
        let hb = {
            let g = g.clone();
            let clock = clock.clone();
            let b_done = b_done.clone();
            s.spawn(move || {
                let inv = clock.fetch_add(1, Ordering::SeqCst);
                let (kind, result) = run_dop(&g, b_op);
                let res = clock.fetch_add(1, Ordering::SeqCst);
                b_done.store(true, Ordering::SeqCst);
                Ev { thread: 1, kind, inv, res, result }
            })
        };
        // B either completes while A is parked (interleaving forced) or blocks on a lock A holds
        // (mutual exclusion at work). Either is fine; the wait only decides which one we observed.
        let t0 = Instant::now();
        while !b_done.load(Ordering::SeqCst) && t0.elapsed() < Duration::from_millis(250) {
            std::thread::sleep(Duration::from_micros(200));
        }
        forced = b_done.load(Ordering::SeqCst);
        gate.release();
        let mut v = Vec::new();
        for h in [ha, hb] {
            match h.join() {
                Ok(e) => v.push(e),
                Err(e) => v.push(Ev { thread: 99, kind: OpKind::CreateNode, inv: 0, res: 0, result: Err(format!("PANIC {}", panic_msg(&e))) }),
            }
        }
        v
    });
    let replay = json!({"part": "det", "case_seed": case_seed, "scenario": sc});
    if let Some(p) = hist.iter().find(|e| e.thread == 99) {
        r.violation(format!("panic:{}", first_line(p.result.as_ref().err().map(|s| s.as_str()).unwrap_or(""))), format!("det scenario {}: worker panicked: {:?}", SCENARIOS[sc], p.result), replay);
        return;
    }
    if gate.timed_out() {
        r.inconclusive("det: gate timed out");
        return;
    }
    if !a_parked {
        r.inconclusive("det: thread A never reached the schedule point");
        return;
    }
    r.count("hook_hits_adj_rmw", hits.load(Ordering::Relaxed));
    r.count("det_rounds", 1);
    r.count(if forced { "det_interleaving_forced" } else { "det_b_blocked_until_a_resumed" }, 1);
    let mut counters: BTreeMap<&'static str, u64> = BTreeMap::new();
    let findings = judge_quiescent(&g, &prefill, &hist, &mut rng, &mut counters);
    for (k, v) in &counters {
        r.count(k, *v);
    }
    let ctx = format!("deterministic schedule [{}]: A parked at its adj_rmw point #{} (between list read and write-back), B ran {}", SCENARIOS[sc], nth, if forced { "to completion meanwhile" } else { "but blocked until A resumed" });
    // the signature names the defect class the scenario aims at (never the seed): scenarios 5/6 let a
    // delete_node run inside a create_edge on the same node, the others only collide on one list key
    let class = if sc == 5 || sc == 6 { "delete_node-vs-create_edge" } else { "adjacency-lost-update" };
    let findings: Vec<(String, String)> = findings
        .into_iter()
        .map(|(s, d)| {
            let structural = ["adjacency-lost-update", "delete_node-vs-create_edge", "update_edge-vs-delete"].contains(&s.as_str());
            (if structural { class.to_string() } else { s }, d)
        })
        .collect();
    let bad = report_round(r, "det", findings, &hist, replay, &ctx);
    r.eval(hash_combine(sc as u64, hash_combine(forced as u64, prefill.edges.len() as u64)), true);
    if !bad && r.want_sample() && rng.chance(1, 4) {
        r.sample(json!({"part": "det", "scenario": SCENARIOS[sc], "forced": forced, "history": hist_json(&hist, 4), "final_edges": g.all_edges().len()}));
    }
}


// ------------------------------------------------------------------------------------------------
// part batch: many short creations (batch_* mixed with single calls) on mostly disjoint node sets
// ------------------------------------------------------------------------------------------------

#[derive(Clone, Debug)]
struct ESpec {
    from: u64,
    to: u64,
    directed: bool,
    ty: &'static str,
    w: i64,
}

#[derive(Clone, Debug)]
#[allow(dead_code)] // every field is shown in the recorded history
enum BKind {
    /// batch_create_edges (batch = true) or create_edge; ids as returned
    Edges { batch: bool, specs: Vec<ESpec>, ids: Result<Vec<u64>, String> },
    /// batch_create_nodes or create_node
    Nodes { batch: bool, ids: Result<Vec<u64>, String> },
    /// batch_delete_edges or delete_edge: ids asked for
    DelEdges { batch: bool, ids: Vec<u64> },
    /// batch_delete_nodes or delete_node
    DelNodes { batch: bool, ids: Vec<u64> },
    UpdNodes { ids: Vec<u64> },
}

#[derive(Clone, Debug)]
struct BEv {
    thread: usize,
    /// nanoseconds since the start of the round (thread-local clock reads: nothing shared is touched)
    inv: u64,
    res: u64,
    kind: BKind,
}

fn bev_json(e: &BEv) -> Value {
    json!({"t": e.thread, "inv_ns": e.inv, "res_ns": e.res, "op": format!("{:?}", e.kind)})
}

fn batch_case(case_seed: u64, r: &mut Report) {
    let mut rng = Rng::new(case_seed);
    let threads = 2 + rng.below(7);
    let private_n = 8 + rng.below(25);
    let shared_n = 2 + rng.below(3);
    let rounds = 150 + rng.below(500);
    // 0 creations only; 1 + batch_delete_edges/delete_edge, batch_update_nodes; 2 + node deletions on a victim pool
    let flavour = rng.weighted(&[50, 25, 25]);
    let victims_n = if flavour == 2 { 6 + rng.below(10) } else { 0 };
    let g = Arc::new(GraphEngine::new());
    let replay = json!({"part": "batch", "case_seed": case_seed});
    let mk_nodes = |n: usize, label: &str| -> Option<Vec<u64>> {
        match g.batch_create_nodes((0..n).map(|_| NodeInput::new(vec![label.to_string()], props_v(0))).collect()) {
            Ok(b) if b.created_ids.len() == n => Some(b.created_ids),
            _ => None,
        }
    };
    let (Some(shared), Some(victims)) = (mk_nodes(shared_n, "Shared"), mk_nodes(victims_n, "Victim")) else {
        r.inconclusive("batch: setup failed");
        return;
    };
    let mut privs: Vec<Vec<u64>> = Vec::new();
    for _ in 0..threads {
        match mk_nodes(private_n, "Private") {
            Some(v) => privs.push(v),
            None => {
                r.inconclusive("batch: setup failed");
                return;
            }
        }
    }
    let mut setup_nodes: Vec<u64> = shared.iter().chain(victims.iter()).copied().collect();
    for p in &privs {
        setup_nodes.extend(p);
    }
    let barrier = Arc::new(Barrier::new(threads));
    let t0 = Instant::now();
    let seeds: Vec<u64> = (0..threads).map(|_| rng.next_u64()).collect();
    let (shared, victims) = (Arc::new(shared), Arc::new(victims));
    let joined: Vec<Result<Vec<BEv>, String>> = std::thread::scope(|s| {
        let hs: Vec<_> = (0..threads)
            .map(|ti| {
                let g = g.clone();
                let barrier = barrier.clone();
                let (shared, victims) = (shared.clone(), victims.clone());
                let mut ring = privs[ti].clone();
                let seed = seeds[ti];
                s.spawn(move || {
                    let mut rng = Rng::new(seed);
                    let mut log: Vec<BEv> = Vec::with_capacity(rounds);
                    let mut my_edges: Vec<u64> = Vec::new();
                    let mut seq = 0i64;
                    barrier.wait();
                    for rd in 0..rounds {
                        let w: [u32; 7] = match flavour {
                            0 => [58, 27, 8, 4, 0, 0, 3],
                            1 => [50, 24, 6, 3, 10, 0, 7],
                            _ => [50, 24, 6, 3, 4, 8, 5],
                        };
                        let choice = rng.weighted(&w);
                        let edge_spec = |rng: &mut Rng, seq: &mut i64| -> ESpec {
                            let from = ring[rng.below(ring.len())];
                            let to = if !victims.is_empty() && rng.chance(1, 5) {
                                victims[rng.below(victims.len())]
                            } else if rng.chance(1, 16) {
                                shared[rng.below(shared.len())]
                            } else if rng.chance(1, 37) {
                                from
                            } else {
                                ring[rng.below(ring.len())]
                            };
                            let (from, to) = if rng.chance(1, 6) { (to, from) } else { (from, to) };
                            *seq += 1;
                            ESpec { from, to, directed: rng.chance(4, 5), ty: TYPES[rng.below(3)], w: ((ti as i64) << 32) | *seq }
                        };
                        let inv;
                        let kind = match choice {
                            0 => {
                                let n = 1 + rng.below(3);
                                let specs: Vec<ESpec> = (0..n).map(|_| edge_spec(&mut rng, &mut seq)).collect();
                                let input: Vec<EdgeInput> = specs.iter().map(|e| EdgeInput::new(e.from, e.to, e.ty, props_w(e.w), e.directed)).collect();
                                inv = t0.elapsed().as_nanos() as u64;
                                let ids = g.batch_create_edges(input).map(|b| b.created_ids).map_err(|e| e.to_string());
                                BKind::Edges { batch: true, specs, ids }
                            }
                            1 => {
                                let e = edge_spec(&mut rng, &mut seq);
                                let p = props_w(e.w);
                                inv = t0.elapsed().as_nanos() as u64;
                                let ids = g.create_edge(e.from, e.to, e.ty, p, e.directed).map(|id| vec![id]).map_err(|e| e.to_string());
                                BKind::Edges { batch: false, specs: vec![e], ids }
                            }
                            2 => {
                                // a rare large batch takes the engine's parallel creation path (>= 100 items)
                                let n = if rd == rounds / 2 && rng.chance(1, 4) { 100 + rng.below(30) } else { 1 + rng.below(3) };
                                let input: Vec<NodeInput> = (0..n).map(|_| NodeInput::new(vec!["Private".to_string()], props_v(1))).collect();
                                inv = t0.elapsed().as_nanos() as u64;
                                let ids = g.batch_create_nodes(input).map(|b| b.created_ids).map_err(|e| e.to_string());
                                BKind::Nodes { batch: true, ids }
                            }
                            3 => {
                                inv = t0.elapsed().as_nanos() as u64;
                                let ids = g.create_node("Private", props_v(1)).map(|id| vec![id]).map_err(|e| e.to_string());
                                BKind::Nodes { batch: false, ids }
                            }
                            4 => {
                                // delete some of this thread's own older edges
                                if my_edges.len() < 4 {
                                    continue;
                                }
                                let n = 1 + rng.below(3);
                                let ids: Vec<u64> = (0..n).map(|_| my_edges.swap_remove(rng.below(my_edges.len()))).collect();
                                let batch = rng.bool();
                                inv = t0.elapsed().as_nanos() as u64;
                                if batch {
                                    let _ = g.batch_delete_edges(ids.clone());
                                } else {
                                    for &id in &ids {
                                        let _ = g.delete_edge(id);
                                    }
                                }
                                BKind::DelEdges { batch, ids }
                            }
                            5 => {
                                let n = 1 + rng.below(2);
                                let ids: Vec<u64> = (0..n).map(|_| victims[rng.below(victims.len())]).collect();
                                let batch = rng.bool();
                                inv = t0.elapsed().as_nanos() as u64;
                                if batch {
                                    let _ = g.batch_delete_nodes(ids.clone());
                                } else {
                                    for &id in &ids {
                                        let _ = g.delete_node(id);
                                    }
                                }
                                BKind::DelNodes { batch, ids }
                            }
                            _ => {
                                let n = 1 + rng.below(3);
                                let ids: Vec<u64> = (0..n).map(|_| ring[rng.below(ring.len())]).collect();
                                let input = ids.iter().map(|&id| (id, None, props_v(rng.range(10, 99)))).collect();
                                inv = t0.elapsed().as_nanos() as u64;
                                let _ = g.batch_update_nodes(input);
                                BKind::UpdNodes { ids }
                            }
                        };
                        let res = t0.elapsed().as_nanos() as u64;
                        match &kind {
                            BKind::Edges { ids: Ok(ids), .. } => my_edges.extend(ids),
                            BKind::Nodes { ids: Ok(ids), .. } => ring.extend(ids.iter().take(4)),
                            _ => {}
                        }
                        log.push(BEv { thread: ti, inv, res, kind });
                    }
                    log
                })
            })
            .collect();
        hs.into_iter().map(|h| h.join().map_err(|e| panic_msg(&e))).collect()
    });
    let mut hist: Vec<BEv> = Vec::new();
    for j in joined {
        match j {
            Ok(l) => hist.extend(l),
            Err(msg) => {
                r.violation(format!("panic:{}", first_line(&msg)), format!("batch round: a worker thread panicked inside the engine: {}", msg), replay);
                return;
            }
        }
    }
    hist.sort_by_key(|e| e.inv);
    // ---------------- quiescent: everybody joined
    let ctx = format!("batch round case_seed {} threads {} private nodes/thread {} shared {} victims {} rounds/thread {} flavour {}", case_seed, threads, private_n, shared_n, victims_n, rounds, flavour);
    let mut seen_sigs: BTreeSet<String> = BTreeSet::new();
    let mut violate = |r: &mut Report, sig: &str, detail: String, evs: Vec<&BEv>| {
        if seen_sigs.insert(sig.to_string()) {
            r.violation(format!("batch:{}", sig), format!("{} — {}; calls involved: {}", detail, ctx, serde_json::to_string(&evs.iter().take(6).map(|e| bev_json(e)).collect::<Vec<_>>()).unwrap_or_default()), replay.clone());
        }
    };
    // ids handed out by successful creations
    let mut edge_owner: BTreeMap<u64, (usize, usize)> = BTreeMap::new(); // id -> (event index, position in call)
    let mut node_owner: BTreeMap<u64, usize> = setup_nodes.iter().map(|&n| (n, usize::MAX)).collect();
    let mut dup_edge_ids: BTreeSet<u64> = BTreeSet::new();
    let (mut ids_out, mut batch_calls, mut failed_creates) = (0u64, 0u64, 0u64);
    if node_owner.len() != setup_nodes.len() {
        violate(r, "node-id-handed-out-twice", format!("the single-threaded setup batches returned a node id twice: {:?}", setup_nodes), vec![]);
    }
    for (i, ev) in hist.iter().enumerate() {
        match &ev.kind {
            BKind::Edges { batch, specs, ids } => {
                batch_calls += *batch as u64;
                match ids {
                    Ok(ids) => {
                        if ids.len() != specs.len() {
                            violate(r, "create-returned-wrong-number-of-ids", format!("{} edges requested, {} ids returned", specs.len(), ids.len()), vec![ev]);
                            continue;
                        }
                        for (pos, &id) in ids.iter().enumerate() {
                            ids_out += 1;
                            if let Some(&(j, _)) = edge_owner.get(&id) {
                                dup_edge_ids.insert(id);
                                violate(r, "edge-id-handed-out-twice", format!("edge id {} was returned by two successful creations (threads {} and {})", id, hist[j].thread, ev.thread), vec![&hist[j], ev]);
                            } else {
                                edge_owner.insert(id, (i, pos));
                            }
                        }
                    }
                    Err(_) => failed_creates += 1,
                }
            }
            BKind::Nodes { batch, ids } => {
                batch_calls += *batch as u64;
                match ids {
                    Ok(ids) => {
                        for &id in ids {
                            ids_out += 1;
                            if let Some(&j) = node_owner.get(&id) {
                                let other: Vec<&BEv> = if j == usize::MAX { vec![ev] } else { vec![&hist[j], ev] };
                                violate(r, "node-id-handed-out-twice", format!("node id {} was returned by two successful creations", id), other);
                            } else {
                                node_owner.insert(id, i);
                            }
                        }
                    }
                    Err(_) => failed_creates += 1,
                }
            }
            _ => {}
        }
    }
    // which ids were targeted by a deletion (their absence / their edges' absence is then legitimate)
    let mut deleted_edges: BTreeSet<u64> = BTreeSet::new();
    let mut node_deletes: BTreeMap<u64, Vec<usize>> = BTreeMap::new();
    for (i, ev) in hist.iter().enumerate() {
        match &ev.kind {
            BKind::DelEdges { ids, .. } => deleted_edges.extend(ids),
            BKind::DelNodes { ids, .. } => ids.iter().for_each(|&n| node_deletes.entry(n).or_default().push(i)),
            _ => {}
        }
    }
    // the record stored under every id is the one that call created
    let mut records_checked = 0u64;
    for (&id, &(i, pos)) in &edge_owner {
        let BKind::Edges { specs, .. } = &hist[i].kind else { continue };
        let sp = &specs[pos];
        if deleted_edges.contains(&id) || node_deletes.contains_key(&sp.from) || node_deletes.contains_key(&sp.to) || dup_edge_ids.contains(&id) {
            continue;
        }
        records_checked += 1;
        match g.get_edge(id) {
            Ok(e) => {
                if e.from != sp.from || e.to != sp.to || e.directed != sp.directed || e.edge_type != sp.ty || w_of(&e) != Some(sp.w) {
                    violate(r, "edge-record-is-not-the-one-created", format!("edge {} was created as {:?} but get_edge returns {}->{} directed={} type={} w={:?}", id, sp, e.from, e.to, e.directed, e.edge_type, w_of(&e)), vec![&hist[i]]);
                }
            }
            Err(err) => violate(r, "edge-record-lost", format!("edge {} ({:?}) was created successfully and nothing deleted it or its endpoints, yet get_edge = Err({})", id, sp, err), vec![&hist[i]]),
        }
    }
    for (&id, &i) in &node_owner {
        if !node_deletes.contains_key(&id) && !g.node_exists(id) {
            violate(r, "node-record-lost", format!("node {} was created successfully and never deleted, yet node_exists = false", id), if i == usize::MAX { vec![] } else { vec![&hist[i]] });
        }
    }
    // structure at quiescence
    let truth = truth_from_engine(&g);
    let mut counters: BTreeMap<&'static str, u64> = BTreeMap::new();
    for f in walk(&g, &truth, &mut rng, &mut counters) {
        // consequences of a duplicated id are reported under the duplicate, once
        if !dup_edge_ids.is_empty() {
            break;
        }
        let creator = f.edge.and_then(|id| edge_owner.get(&id)).map(|&(i, _)| &hist[i]);
        // an edge whose creation overlapped a deletion of one of its endpoints
        let racing_delete: Option<&BEv> = creator.and_then(|c| {
            let BKind::Edges { specs, .. } = &c.kind else { return None };
            specs.iter().flat_map(|sp| [sp.from, sp.to]).filter_map(|n| node_deletes.get(&n)).flatten().map(|&j| &hist[j]).find(|d| d.inv < c.res && c.inv < d.res)
        });
        let sig = match (racing_delete, creator.map(|c| matches!(c.kind, BKind::Edges { batch: true, .. }))) {
            (Some(_), Some(true)) => "delete_node-vs-batch_create_edges".to_string(),
            (Some(_), _) => "delete_node-vs-create_edge".to_string(),
            _ => f.kind.to_string(),
        };
        let mut evs: Vec<&BEv> = creator.into_iter().collect();
        evs.extend(racing_delete);
        violate(r, &sig, format!("[{}] {}", f.kind, f.detail), evs);
    }
    for (k, v) in &counters {
        r.count(k, *v);
    }
    // evidence: how much creation really overlapped
    let creates: Vec<&BEv> = hist.iter().filter(|e| matches!(e.kind, BKind::Edges { .. } | BKind::Nodes { .. })).collect();
    let mut overlapped = vec![false; creates.len()];
    for i in 0..creates.len() {
        let mut j = i + 1;
        while j < creates.len() && creates[j].inv < creates[i].res {
            if creates[j].thread != creates[i].thread {
                overlapped[i] = true;
                overlapped[j] = true;
            }
            j += 1;
        }
    }
    let batch_overlapping = creates.iter().zip(&overlapped).filter(|(e, &o)| o && matches!(e.kind, BKind::Edges { batch: true, .. } | BKind::Nodes { batch: true, .. })).count() as u64;
    r.count("batch_rounds", 1);
    r.count("batch_create_calls", batch_calls);
    r.count("batch_calls_overlapping_another_create", batch_overlapping);
    r.count("batch_ids_handed_out", ids_out);
    r.count("batch_edge_records_checked", records_checked);
    r.count("batch_failed_creates", failed_creates);
    r.count("batch_ops", hist.len() as u64);
    let mut fp = case_seed;
    for e in hist.iter().take(4000) {
        fp = hash_combine(fp, e.thread as u64);
    }
    r.eval(fp, batch_overlapping > 0);
    if seen_sigs.is_empty() && r.want_sample() && rng.chance(1, 6) {
        r.sample(json!({"part": "batch", "case_seed": case_seed, "threads": threads, "flavour": flavour, "ops": hist.len(), "ids_handed_out": ids_out, "batch_calls": batch_calls,
            "batch_calls_overlapping_another_create": batch_overlapping, "final_nodes": truth.nodes.len(), "final_edges": truth.edges.len(), "history_head": hist.iter().take(4).map(bev_json).collect::<Vec<_>>()}));
    }
}

// ------------------------------------------------------------------------------------------------
// part bulk: single-threaded programs made of the bulk calls, on clusters of adjacent nodes
// ------------------------------------------------------------------------------------------------

/// a node counts as high-degree when delete_node takes its parallel branch (PARALLEL_THRESHOLD)
const HIGH_DEGREE: usize = 100;
const NO_SUCH_NODE: u64 = 88_000_000;
const NO_SUCH_EDGE: u64 = 77_000_000;

#[derive(Clone, Debug)]
enum BulkOp {
    CreateEdges(Vec<ESpec>),
    CreateEdge(ESpec),
    CreateNodes(usize),
    DeleteNodes(Vec<u64>),
    DeleteEdges(Vec<u64>),
    DeleteNode(u64),
    DeleteEdge(u64),
    UpdateNodes(Vec<u64>),
    ReadDeleted,
}

/// number of distinct edges touching each node
fn degrees(m: &Truth) -> HashMap<u64, usize> {
    let mut deg: HashMap<u64, usize> = HashMap::new();
    for e in m.edges.values() {
        *deg.entry(e.from).or_default() += 1;
        if e.to != e.from {
            *deg.entry(e.to).or_default() += 1;
        }
    }
    deg
}

/// the node a bulk call is built around: mostly the one with the most edges
fn bulk_focus(rng: &mut Rng, nodes: &[u64], deg: &HashMap<u64, usize>) -> u64 {
    if rng.chance(3, 5) {
        nodes.iter().copied().max_by_key(|n| deg.get(n).copied().unwrap_or(0)).unwrap_or(nodes[0])
    } else {
        nodes[rng.below(nodes.len())]
    }
}

fn bulk_edge_spec(rng: &mut Rng, focus: u64, nodes: &[u64], hubs: &[u64], wseq: &mut i64) -> ESpec {
    let other = if rng.chance(1, 30) {
        focus
    } else if !hubs.is_empty() && rng.chance(1, 5) {
        hubs[rng.below(hubs.len())]
    } else {
        nodes[rng.below(nodes.len())]
    };
    let (from, to) = if rng.bool() { (focus, other) } else { (other, focus) };
    *wseq += 1;
    ESpec { from, to, directed: rng.chance(2, 3), ty: TYPES[rng.below(3)], w: *wseq }
}

/// id list for batch_delete_nodes: a node, some (sometimes all) of its neighbours, a few unrelated nodes,
/// now and then a deleted / never created id or a repeated id; the focus first, last or anywhere
fn bulk_node_list(rng: &mut Rng, m: &Truth, dead_nodes: &[u64]) -> Vec<u64> {
    let nodes: Vec<u64> = m.nodes.iter().copied().collect();
    if nodes.is_empty() {
        return vec![if dead_nodes.is_empty() { NO_SUCH_NODE } else { dead_nodes[rng.below(dead_nodes.len())] }];
    }
    let deg = degrees(m);
    let focus = bulk_focus(rng, &nodes, &deg);
    let mut nb: Vec<u64> = m.neighbors(focus, None, Direction::Both).into_iter().collect();
    rng.shuffle(&mut nb);
    let k = if rng.chance(1, 8) { nb.len() } else { rng.below(nb.len().min(4) + 1) };
    let mut rest: Vec<u64> = nb.into_iter().take(k).collect();
    for _ in 0..rng.below(3) {
        rest.push(nodes[rng.below(nodes.len())]);
    }
    if !dead_nodes.is_empty() && rng.chance(1, 6) {
        rest.push(dead_nodes[rng.below(dead_nodes.len())]);
    }
    if rng.chance(1, 10) {
        rest.push(NO_SUCH_NODE + rng.below(10) as u64);
    }
    if !rest.is_empty() && rng.chance(1, 6) {
        let d = rest[rng.below(rest.len())];
        rest.push(d);
    }
    let with_focus = rest.is_empty() || rng.chance(9, 10);
    match rng.below(3) {
        0 => {
            let mut l = if with_focus { vec![focus] } else { vec![] };
            l.extend(rest);
            l
        }
        1 => {
            if with_focus {
                rest.push(focus);
            }
            rest
        }
        _ => {
            if with_focus {
                rest.push(focus);
            }
            rng.shuffle(&mut rest);
            rest
        }
    }
}

/// id list for batch_delete_edges: some (sometimes all) edges of one node, a few unrelated ones, now and
/// then a deleted / never created id or a repeated id
fn bulk_edge_list(rng: &mut Rng, m: &Truth, dead_edges: &[u64]) -> Vec<u64> {
    let ids: Vec<u64> = m.edges.keys().copied().collect();
    if ids.is_empty() {
        return vec![if dead_edges.is_empty() { NO_SUCH_EDGE } else { dead_edges[rng.below(dead_edges.len())] }];
    }
    let nodes: Vec<u64> = m.nodes.iter().copied().collect();
    let deg = degrees(m);
    let focus = if nodes.is_empty() { 0 } else { bulk_focus(rng, &nodes, &deg) };
    let mut inc: Vec<u64> = m.edges.iter().filter(|(_, e)| e.from == focus || e.to == focus).map(|(&id, _)| id).collect();
    rng.shuffle(&mut inc);
    let k = if rng.chance(1, 5) { inc.len() } else { (1 + rng.below(8)).min(inc.len()) };
    let mut list: Vec<u64> = inc.into_iter().take(k).collect();
    for _ in 0..rng.below(4) {
        list.push(ids[rng.below(ids.len())]);
    }
    if !dead_edges.is_empty() && rng.chance(1, 6) {
        list.push(dead_edges[rng.below(dead_edges.len())]);
    }
    if rng.chance(1, 10) {
        list.push(NO_SUCH_EDGE + rng.below(10) as u64);
    }
    if !list.is_empty() && rng.chance(1, 6) {
        let d = list[rng.below(list.len())];
        list.push(d);
    }
    if list.is_empty() {
        list.push(ids[rng.below(ids.len())]);
    }
    if rng.bool() {
        rng.shuffle(&mut list);
    }
    list
}

fn bulk_random_op(rng: &mut Rng, m: &Truth, dead_nodes: &[u64], dead_edges: &[u64], wseq: &mut i64) -> BulkOp {
    let nodes: Vec<u64> = m.nodes.iter().copied().collect();
    match rng.weighted(&[34, 22, 14, 6, 6, 4, 6, 4, 4]) {
        0 => BulkOp::DeleteNodes(bulk_node_list(rng, m, dead_nodes)),
        1 => BulkOp::DeleteEdges(bulk_edge_list(rng, m, dead_edges)),
        2 if !nodes.is_empty() => {
            // regrow: a batch around one node, sometimes large enough to make it high-degree again
            let deg = degrees(m);
            let focus = bulk_focus(rng, &nodes, &deg);
            let n = if rng.chance(1, 4) { HIGH_DEGREE + rng.below(30) } else { 1 + rng.below(30) };
            let mut specs: Vec<ESpec> = (0..n).map(|_| bulk_edge_spec(rng, focus, &nodes, &[], wseq)).collect();
            if rng.chance(1, 8) {
                // one endpoint that does not exist: the call has to refuse
                let at = rng.below(specs.len());
                specs[at].to = if dead_nodes.is_empty() || rng.bool() { NO_SUCH_NODE } else { dead_nodes[rng.below(dead_nodes.len())] };
            }
            BulkOp::CreateEdges(specs)
        }
        3 => BulkOp::CreateNodes(if rng.chance(1, 10) { HIGH_DEGREE + rng.below(20) } else { 1 + rng.below(4) }),
        4 => BulkOp::DeleteNode(if nodes.is_empty() || rng.chance(1, 8) { dead_nodes.last().copied().unwrap_or(NO_SUCH_NODE) } else { nodes[rng.below(nodes.len())] }),
        5 => {
            let ids: Vec<u64> = m.edges.keys().copied().collect();
            BulkOp::DeleteEdge(if ids.is_empty() || rng.chance(1, 8) { dead_edges.last().copied().unwrap_or(NO_SUCH_EDGE) } else { ids[rng.below(ids.len())] })
        }
        6 if !nodes.is_empty() => {
            let mut ids: Vec<u64> = (0..1 + rng.below(4)).map(|_| nodes[rng.below(nodes.len())]).collect();
            if rng.chance(1, 8) {
                ids.push(dead_nodes.last().copied().unwrap_or(NO_SUCH_NODE));
            }
            BulkOp::UpdateNodes(ids)
        }
        7 if !nodes.is_empty() => {
            let focus = nodes[rng.below(nodes.len())];
            BulkOp::CreateEdge(bulk_edge_spec(rng, focus, &nodes, &[], wseq))
        }
        _ => BulkOp::ReadDeleted,
    }
}

/// After one call: the structure is judged on what the engine itself reports (statement sentences 1-2 and
/// the derived reads), then the engine's node and edge sets are compared with the model. With `adopt_extra`
/// (a creation call that returned an error: the statement does not say whether part of it may have been
/// carried out) only losses are judged and whatever else the engine holds is taken over into the model.
fn bulk_compare(g: &GraphEngine, m: &mut Truth, adopt_extra: bool, rng: &mut Rng, counters: &mut BTreeMap<&'static str, u64>) -> Option<(&'static str, String)> {
    let t = truth_from_engine(g);
    let findings = walk(g, &t, rng, counters);
    if let Some(f0) = findings.first() {
        return Some((f0.kind, format!("{} (+{} more findings)", f0.detail, findings.len() - 1)));
    }
    let lost: Vec<u64> = m.nodes.difference(&t.nodes).copied().collect();
    if !lost.is_empty() {
        return Some(("node-lost", format!("nodes {:?} were never deleted but all_nodes() does not return them", lost)));
    }
    let lost: Vec<u64> = m.edges.keys().filter(|id| !t.edges.contains_key(id)).copied().collect();
    if !lost.is_empty() {
        return Some(("edge-lost", format!("edges {:?} were never deleted (nor their endpoints) but all_edges() does not return them", lost)));
    }
    for (id, e) in &m.edges {
        if t.edges.get(id) != Some(e) {
            return Some(("edge-record-differs", format!("edge {} was created as {:?}, all_edges() returns {:?}", id, e, t.edges.get(id))));
        }
    }
    if adopt_extra {
        m.nodes = t.nodes;
        m.edges = t.edges;
        return None;
    }
    let extra: Vec<u64> = t.nodes.difference(&m.nodes).copied().collect();
    if !extra.is_empty() {
        return Some(("node-not-removed", format!("nodes {:?} exist although they were deleted (or never created)", extra)));
    }
    let extra: Vec<u64> = t.edges.keys().filter(|id| !m.edges.contains_key(id)).copied().collect();
    if !extra.is_empty() {
        return Some(("edge-not-removed", format!("edges {:?} exist although they (or an endpoint) were deleted, or were never created: {:?}", extra, extra.iter().take(4).map(|id| t.edges.get(id)).collect::<Vec<_>>())));
    }
    None
}

fn bulk_case(case_seed: u64, deep: bool, r: &mut Report) {
    let mut rng = Rng::new(case_seed);
    let g = GraphEngine::new();
    let mut m = Truth::default();
    let mut dead_nodes: Vec<u64> = Vec::new();
    let mut dead_edges: Vec<u64> = Vec::new();
    let mut trace: Vec<String> = Vec::new();
    let mut counters: BTreeMap<&'static str, u64> = BTreeMap::new();
    let replay = json!({"part": "bulk", "case_seed": case_seed, "deep": deep});
    let mut wseq = 0i64;
    let (mut calls_checked, mut touching_deletions, mut max_degree) = (0u64, 0u64, 0usize);
    let mut stats: BTreeMap<&'static str, u64> = BTreeMap::new();

    macro_rules! fail {
        ($op:expr, $kind:expr, $detail:expr) => {{
            r.violation(
                format!("bulk:{}:{}", $op, $kind),
                format!("{} — after program (case_seed {}, {} tier sizes): {}", $detail, case_seed, if deep { "thorough" } else { "quick" }, trace.join("; ")),
                replay.clone(),
            );
            return;
        }};
    }

    // ---- script: the clusters. 1-3 hubs and a pool of leaves, every hub gets a fan of edges to leaves,
    // other hubs and itself (both directions, directed and undirected, parallel edges), below, at and above
    // the high-degree threshold; built through batch_create_edges in one piece, in chunks, or edge by edge
    let hubs_n = 1 + rng.below(3);
    let leaves_n = 3 + rng.below(if deep { 40 } else { 14 });
    let mut script: VecDeque<(BulkOp, bool)> = VecDeque::new();
    let setup = match g.batch_create_nodes((0..hubs_n + leaves_n).map(|i| NodeInput::new(vec![if i < hubs_n { "Hub".to_string() } else { "Leaf".to_string() }], props_v(0))).collect()) {
        Ok(b) if b.created_ids.len() == hubs_n + leaves_n && b.created_ids.iter().collect::<BTreeSet<_>>().len() == hubs_n + leaves_n => b.created_ids,
        other => {
            r.violation("bulk:batch_create_nodes:op-result-unexpected", format!("batch_create_nodes of {} nodes on an empty engine returned {:?}", hubs_n + leaves_n, other.map_err(|e| e.to_string())), replay);
            return;
        }
    };
    m.nodes.extend(&setup);
    let hubs: Vec<u64> = setup[..hubs_n].to_vec();
    trace.push(format!("batch_create_nodes({})={:?} (hubs {:?})", hubs_n + leaves_n, setup, hubs));
    let top = if deep { 400 } else { 170 };
    for &hub in &hubs {
        let fan = match rng.weighted(&[22, 10, 16, 52]) {
            0 => rng.below(40),
            1 => 88 + rng.below(12),
            2 => 99 + rng.below(3),
            _ => HIGH_DEGREE + rng.below(top - HIGH_DEGREE + 1),
        };
        let specs: Vec<ESpec> = (0..fan).map(|_| bulk_edge_spec(&mut rng, hub, &setup, &hubs, &mut wseq)).collect();
        let mode = rng.below(4);
        let mut i = 0;
        while i < specs.len() {
            let chunk = match mode {
                0 => specs.len(),
                1 => 1 + rng.below(40),
                2 => 1,
                _ => {
                    if rng.bool() {
                        1
                    } else {
                        1 + rng.below(120)
                    }
                }
            }
            .min(specs.len() - i);
            let last = i + chunk == specs.len();
            if chunk == 1 && rng.bool() {
                script.push_back((BulkOp::CreateEdge(specs[i].clone()), last));
            } else {
                script.push_back((BulkOp::CreateEdges(specs[i..i + chunk].to_vec()), last || chunk > 1 && rng.chance(1, 3)));
            }
            i += chunk;
        }
    }
    let mut random_left = 4 + rng.below(10);

    loop {
        let (op, check) = match script.pop_front() {
            Some(x) => x,
            None if random_left > 0 => {
                random_left -= 1;
                (bulk_random_op(&mut rng, &m, &dead_nodes, &dead_edges, &mut wseq), true)
            }
            None => break,
        };
        let opname: &'static str;
        let mut adopt_extra = false;
        // what the call reported, judged after the structure
        let mut result_complaint: Option<String> = None;
        match op {
            BulkOp::CreateEdges(specs) => {
                opname = if specs.len() >= HIGH_DEGREE { "batch_create_edges_large" } else { "batch_create_edges" };
                let should_ok = specs.iter().all(|s| m.nodes.contains(&s.from) && m.nodes.contains(&s.to));
                let input: Vec<EdgeInput> = specs.iter().map(|e| EdgeInput::new(e.from, e.to, e.ty, props_w(e.w), e.directed)).collect();
                let res = g.batch_create_edges(input);
                trace.push(format!(
                    "batch_create_edges({} edges: {}{})={:?}",
                    specs.len(),
                    specs.iter().take(3).map(|s| format!("{}{}{}", s.from, if s.directed { "->" } else { "--" }, s.to)).collect::<Vec<_>>().join(","),
                    if specs.len() > 3 { ",.." } else { "" },
                    res.as_ref().map(|b| (b.created_ids.first().copied(), b.created_ids.last().copied())).map_err(|e| e.to_string())
                ));
                *stats.entry("bulk_create_edges_calls").or_insert(0) += 1;
                match res {
                    Ok(b) => {
                        if !should_ok {
                            fail!(opname, "op-result-unexpected", format!("batch_create_edges succeeded although an endpoint does not exist: {:?}", specs.iter().find(|s| !m.nodes.contains(&s.from) || !m.nodes.contains(&s.to))));
                        }
                        if b.created_ids.len() != specs.len() {
                            fail!(opname, "create-returned-wrong-number-of-ids", format!("{} edges requested, {} ids returned", specs.len(), b.created_ids.len()));
                        }
                        for (sp, &id) in specs.iter().zip(&b.created_ids) {
                            if m.edges.contains_key(&id) || dead_edges.contains(&id) {
                                fail!(opname, "edge-id-reused", format!("batch_create_edges returned id {} which is already in use", id));
                            }
                            m.edges.insert(id, TEdge { from: sp.from, to: sp.to, directed: sp.directed, ty: sp.ty.to_string(), w: Some(sp.w) });
                        }
                        *stats.entry("bulk_edges_created_by_batches").or_insert(0) += specs.len() as u64;
                    }
                    Err(e) => {
                        if should_ok {
                            fail!(opname, "op-result-unexpected", format!("batch_create_edges between existing nodes failed: {}", e));
                        }
                        adopt_extra = true;
                        *stats.entry("bulk_create_edges_refused").or_insert(0) += 1;
                    }
                }
            }
            BulkOp::CreateEdge(sp) => {
                opname = "create_edge";
                let should_ok = m.nodes.contains(&sp.from) && m.nodes.contains(&sp.to);
                let res = g.create_edge(sp.from, sp.to, sp.ty, props_w(sp.w), sp.directed);
                trace.push(format!("create_edge({}{}{})={:?}", sp.from, if sp.directed { "->" } else { "--" }, sp.to, res.as_ref().map_err(|e| e.to_string())));
                match res {
                    Ok(id) if should_ok => {
                        if m.edges.contains_key(&id) || dead_edges.contains(&id) {
                            fail!(opname, "edge-id-reused", format!("create_edge returned id {} which is already in use", id));
                        }
                        m.edges.insert(id, TEdge { from: sp.from, to: sp.to, directed: sp.directed, ty: sp.ty.to_string(), w: Some(sp.w) });
                    }
                    Err(GraphError::NodeNotFound(_)) if !should_ok => {}
                    other => fail!(opname, "op-result-unexpected", format!("create_edge({:?}) = {:?} (endpoints exist: {})", sp, other.map_err(|e| e.to_string()), should_ok)),
                }
            }
            BulkOp::CreateNodes(n) => {
                opname = if n >= HIGH_DEGREE { "batch_create_nodes_large" } else { "batch_create_nodes" };
                let res = g.batch_create_nodes((0..n).map(|_| NodeInput::new(vec!["Leaf".to_string()], props_v(1))).collect());
                trace.push(format!("batch_create_nodes({})={:?}", n, res.as_ref().map(|b| (b.created_ids.first().copied(), b.created_ids.last().copied())).map_err(|e| e.to_string())));
                *stats.entry("bulk_create_nodes_calls").or_insert(0) += 1;
                match res {
                    Ok(b) => {
                        if b.created_ids.len() != n {
                            fail!(opname, "create-returned-wrong-number-of-ids", format!("{} nodes requested, {} ids returned", n, b.created_ids.len()));
                        }
                        for &id in &b.created_ids {
                            if !m.nodes.insert(id) || dead_nodes.contains(&id) {
                                fail!(opname, "node-id-reused", format!("batch_create_nodes returned id {} which is already in use", id));
                            }
                        }
                    }
                    Err(e) => fail!(opname, "op-result-unexpected", format!("batch_create_nodes({}) failed: {}", n, e)),
                }
            }
            BulkOp::DeleteNodes(ids) => {
                let deg = degrees(&m);
                let listed: BTreeSet<u64> = ids.iter().copied().filter(|id| m.nodes.contains(id)).collect();
                let high: Vec<u64> = listed.iter().copied().filter(|n| deg.get(n).copied().unwrap_or(0) >= HIGH_DEGREE).collect();
                opname = if high.is_empty() { "batch_delete_nodes" } else { "batch_delete_nodes_highdegree" };
                // evidence: which shapes of list were really executed
                let adjacent = m.edges.values().any(|e| e.from != e.to && listed.contains(&e.from) && listed.contains(&e.to));
                let pos = |n: u64| ids.iter().position(|&x| x == n).unwrap_or(usize::MAX);
                let (mut high_with_nb, mut nb_first, mut high_first) = (false, false, false);
                for &h in &high {
                    for nb in m.neighbors(h, None, Direction::Both) {
                        if listed.contains(&nb) {
                            high_with_nb = true;
                            if pos(nb) < pos(h) {
                                nb_first = true;
                            } else {
                                high_first = true;
                            }
                        }
                    }
                }
                *stats.entry("bulk_delete_nodes_calls").or_insert(0) += 1;
                *stats.entry("bulk_node_lists_with_adjacent_nodes").or_insert(0) += adjacent as u64;
                *stats.entry("bulk_node_lists_with_highdegree_node").or_insert(0) += !high.is_empty() as u64;
                *stats.entry("bulk_node_lists_highdegree_node_and_neighbour").or_insert(0) += high_with_nb as u64;
                *stats.entry("bulk_node_lists_neighbour_before_highdegree_node").or_insert(0) += nb_first as u64;
                *stats.entry("bulk_node_lists_highdegree_node_before_neighbour").or_insert(0) += high_first as u64;
                *stats.entry("bulk_node_lists_with_repeated_or_unknown_id").or_insert(0) += (listed.len() != ids.len()) as u64;
                touching_deletions += adjacent as u64;
                let shown: Vec<String> = ids.iter().map(|id| format!("{}[{}]", id, if m.nodes.contains(id) { format!("{} edges", deg.get(id).copied().unwrap_or(0)) } else { "absent".to_string() })).collect();
                let res = g.batch_delete_nodes(ids.clone());
                trace.push(format!("batch_delete_nodes({})={:?}", shown.join(","), res.as_ref().map(|b| (&b.deleted_ids, b.failed.iter().map(|f| format!("#{} id {:?}: {}", f.index, f.id, f.cause)).collect::<Vec<_>>())).map_err(|e| e.to_string())));
                // "deleting a node removes all of its edges": every listed node that existed is gone with its edges
                for &id in &ids {
                    if m.nodes.remove(&id) {
                        dead_nodes.push(id);
                        let inc: Vec<u64> = m.edges.iter().filter(|(_, e)| e.from == id || e.to == id).map(|(&i, _)| i).collect();
                        for e in inc {
                            m.edges.remove(&e);
                            dead_edges.push(e);
                        }
                    }
                }
                match res {
                    Ok(b) => {
                        let reported: BTreeSet<u64> = b.deleted_ids.iter().copied().collect();
                        if reported != listed {
                            result_complaint = Some(format!("batch_delete_nodes({:?}): the nodes {:?} of the list existed, the call reports {:?} as deleted (failed: {:?})", ids, listed, b.deleted_ids, b.failed));
                        }
                    }
                    Err(e) => result_complaint = Some(format!("batch_delete_nodes({:?}) = Err({}) although it reports failures per item", ids, e)),
                }
            }
            BulkOp::DeleteEdges(ids) => {
                let deg = degrees(&m);
                let listed: BTreeSet<u64> = ids.iter().copied().filter(|id| m.edges.contains_key(id)).collect();
                let mut ends: HashMap<u64, usize> = HashMap::new();
                for id in &listed {
                    let e = &m.edges[id];
                    *ends.entry(e.from).or_default() += 1;
                    if e.to != e.from {
                        *ends.entry(e.to).or_default() += 1;
                    }
                }
                let sharing = ends.values().any(|&c| c >= 2);
                let on_high = ends.keys().any(|n| deg.get(n).copied().unwrap_or(0) >= HIGH_DEGREE);
                opname = if on_high { "batch_delete_edges_highdegree" } else { "batch_delete_edges" };
                *stats.entry("bulk_delete_edges_calls").or_insert(0) += 1;
                *stats.entry("bulk_edge_lists_sharing_an_endpoint").or_insert(0) += sharing as u64;
                *stats.entry("bulk_edge_lists_on_highdegree_node").or_insert(0) += on_high as u64;
                touching_deletions += sharing as u64;
                let res = g.batch_delete_edges(ids.clone());
                trace.push(format!("batch_delete_edges({:?})={:?}", ids, res.as_ref().map(|b| (&b.deleted_ids, b.failed.iter().map(|f| format!("#{} id {:?}: {}", f.index, f.id, f.cause)).collect::<Vec<_>>())).map_err(|e| e.to_string())));
                for &id in &ids {
                    if m.edges.remove(&id).is_some() {
                        dead_edges.push(id);
                    }
                }
                match res {
                    Ok(b) => {
                        let reported: BTreeSet<u64> = b.deleted_ids.iter().copied().collect();
                        if reported != listed {
                            result_complaint = Some(format!("batch_delete_edges({:?}): the edges {:?} of the list existed, the call reports {:?} as deleted (failed: {:?})", ids, listed, b.deleted_ids, b.failed));
                        }
                    }
                    Err(e) => result_complaint = Some(format!("batch_delete_edges({:?}) = Err({}) although it reports failures per item", ids, e)),
                }
            }
            BulkOp::DeleteNode(id) => {
                let d = degrees(&m).get(&id).copied().unwrap_or(0);
                opname = if d >= HIGH_DEGREE { "delete_node_highdegree" } else { "delete_node" };
                let res = g.delete_node(id);
                trace.push(format!("delete_node({}) [{} edges]={:?}", id, d, res.as_ref().map_err(|e| e.to_string())));
                match (res, m.nodes.contains(&id)) {
                    (Ok(()), true) => {
                        m.nodes.remove(&id);
                        dead_nodes.push(id);
                        let inc: Vec<u64> = m.edges.iter().filter(|(_, e)| e.from == id || e.to == id).map(|(&i, _)| i).collect();
                        for e in inc {
                            m.edges.remove(&e);
                            dead_edges.push(e);
                        }
                    }
                    (Err(GraphError::NodeNotFound(_)), false) => {}
                    (other, exists) => fail!(opname, "op-result-unexpected", format!("delete_node({}) = {:?} (node exists: {})", id, other.map_err(|e| e.to_string()), exists)),
                }
            }
            BulkOp::DeleteEdge(id) => {
                opname = "delete_edge";
                let res = g.delete_edge(id);
                trace.push(format!("delete_edge({})={:?}", id, res.as_ref().map_err(|e| e.to_string())));
                match (res, m.edges.contains_key(&id)) {
                    (Ok(()), true) => {
                        m.edges.remove(&id);
                        dead_edges.push(id);
                    }
                    (Err(GraphError::EdgeNotFound(_)), false) => {}
                    (other, exists) => fail!(opname, "op-result-unexpected", format!("delete_edge({}) = {:?} (edge exists: {})", id, other.map_err(|e| e.to_string()), exists)),
                }
            }
            BulkOp::UpdateNodes(ids) => {
                opname = "batch_update_nodes";
                let all_exist = ids.iter().all(|id| m.nodes.contains(id));
                let input = ids.iter().map(|&id| (id, if rng.bool() { Some(vec!["M".to_string()]) } else { None }, props_v(rng.range(10, 99)))).collect();
                let res = g.batch_update_nodes(input);
                trace.push(format!("batch_update_nodes({:?})={:?}", ids, res.as_ref().map_err(|e| e.to_string())));
                *stats.entry("bulk_update_nodes_calls").or_insert(0) += 1;
                if let (Err(e), true) = (&res, all_exist) {
                    fail!(opname, "op-result-unexpected", format!("batch_update_nodes({:?}) of existing nodes failed: {}", ids, e));
                }
            }
            BulkOp::ReadDeleted => {
                opname = "read_deleted";
                if let Some(&id) = dead_nodes.last() {
                    if g.node_exists(id) || g.edges_of(id, Direction::Both).is_ok() || g.out_degree(id).is_ok() {
                        fail!(opname, "deleted-node-still-answers", format!("node {} was deleted but node_exists/edges_of/out_degree still answer", id));
                    }
                }
                if let Some(&id) = dead_edges.last() {
                    if g.get_edge(id).is_ok() {
                        fail!(opname, "deleted-edge-still-readable", format!("edge {} was deleted (directly or with its node) but get_edge succeeds", id));
                    }
                }
            }
        }
        if !check {
            continue;
        }
        calls_checked += 1;
        if let Some((kind, detail)) = bulk_compare(&g, &mut m, adopt_extra, &mut rng, &mut counters) {
            fail!(opname, kind, detail);
        }
        if let Some(c) = result_complaint {
            fail!(opname, "op-result-unexpected", c);
        }
        max_degree = max_degree.max(degrees(&m).values().copied().max().unwrap_or(0));
    }
    for (k, v) in counters.iter().chain(stats.iter()) {
        r.count(k, *v);
    }
    r.count("bulk_programs", 1);
    r.count("bulk_calls_checked", calls_checked);
    r.count_max("max:bulk_degree", max_degree as u64);
    r.eval(hash_str(&trace.join(";")), touching_deletions > 0);
    if r.want_sample() && rng.chance(1, 40) {
        r.sample(json!({"part": "bulk", "case_seed": case_seed, "calls_checked": calls_checked, "max_degree": max_degree, "final_nodes": m.nodes.len(), "final_edges": m.edges.len(),
            "trace_tail": trace.iter().rev().take(6).rev().collect::<Vec<_>>() }));
    }
}

// ------------------------------------------------------------------------------------------------

fn main() {
    let args = Args::parse();
    let started = Instant::now();
    quiet_panics();
    tensor_store::verif_hooks::set(sched::on_point);
    let part = args.extra.get("part").cloned().unwrap_or_else(|| "all".into());
    let run_seq = part == "all" || part == "seq";
    let run_stress = part == "all" || part == "concurrent" || part == "stress";
    let run_det = part == "all" || part == "concurrent" || part == "det";
    let run_batch = part == "all" || part == "concurrent" || part == "batch";
    let run_bulk = part == "all" || part == "bulk";
    let mut total = Report::new();
    total.max_samples = 9;

    if let Some(p) = &args.replay {
        let v: Value = serde_json::from_str(&std::fs::read_to_string(p).expect("replay file")).expect("json");
        let rp = if v.get("replay").is_some() { v["replay"].clone() } else { v.clone() };
        let seed = rp["case_seed"].as_u64().unwrap_or(1);
        match rp["part"].as_str().unwrap_or("") {
            "seq" => {
                // sequential programs are deterministic except for delete_node's internal rayon path
                for _ in 0..args.extra_u64("replay-tries", 300).min(50) {
                    let mut r = Report::new();
                    seq_case(seed, &mut r);
                    let hit = r.violations_total > 0;
                    total.merge(r);
                    total.count("replay_attempts", 1);
                    if hit {
                        break;
                    }
                }
            }
            "det" => det_case(seed, rp["scenario"].as_u64().map(|x| x as usize), &mut total),
            "bulk" => {
                // deterministic except for the order inside delete_node's internal rayon path
                for _ in 0..args.extra_u64("replay-tries", 300).min(50) {
                    let mut r = Report::new();
                    bulk_case(seed, rp["deep"].as_bool().unwrap_or(false), &mut r);
                    let hit = r.violations_total > 0;
                    total.merge(r);
                    total.count("replay_attempts", 1);
                    if hit {
                        break;
                    }
                }
            }
            "batch" => {
                // a workload, not a schedule: repeat it until it shows the violation again
                for i in 0..args.extra_u64("replay-tries", 300) {
                    let mut r = Report::new();
                    batch_case(seed, &mut r);
                    let hit = r.violations_total > 0;
                    total.merge(r);
                    total.count("replay_attempts", 1);
                    if hit {
                        eprintln!("batch replay reproduced after {} attempt(s)", i + 1);
                        break;
                    }
                }
            }
            _ => {
                // a stress round is a workload, not a schedule: repeat it until it shows the violation again
                let tries = args.extra_u64("replay-tries", 300);
                for i in 0..tries {
                    let mut r = Report::new();
                    stress_case(seed, &mut r);
                    let hit = r.violations_total > 0;
                    total.merge(r);
                    total.count("replay_attempts", 1);
                    if hit {
                        eprintln!("stress replay reproduced after {} attempt(s)", i + 1);
                        break;
                    }
                }
            }
        }
        let meta = Meta { property: "C05", rule: "replay", assumptions: vec![], floors: vec![], exhaustive: false };
        write_result(&args, &meta, &total, started);
        return;
    }

    let mut floors: Vec<(&'static str, u64)> = Vec::new();
    if run_seq {
        let n = args.by_tier(3_000u64, 60_000u64);
        let rep = par_cases(args.threads, args.seed ^ 0x5E0, n, args.budget(25, 300), |_i, s, r| seq_case(s, r));
        total.merge(rep);
        floors.push(("seq_programs", 100));
        floors.push(("seq_ops_checked", 3_000));
        floors.push(("seq_programs_with_highdegree_hub", 5));
    }
    if run_stress {
        // each round spawns 2-8 threads of its own: a quarter of the cores as round runners gives ~2x
        // oversubscription, which is what makes the interleavings diverse
        let workers = (args.threads / 3).max(2);
        let n = args.by_tier(2_500u64, 60_000u64);
        let rep = par_cases(workers, args.seed ^ 0x57E, n, args.budget(25, 300), |_i, s, r| stress_case(s, r));
        total.merge(rep);
        floors.push(("stress_rounds", 50));
        floors.push(("stress_overlapping_op_pairs", 200));
        floors.push(("hook_hits_adj_rmw", 2_000));
    }
    if run_det {
        let n = args.by_tier(180u64, 3_000u64);
        let rep = par_cases(args.threads.min(8), args.seed ^ 0xDE7, n, args.budget(20, 120), |i, s, r| det_case(s, Some((i % SCENARIOS.len() as u64) as usize), r));
        total.merge(rep);
        floors.push(("det_rounds", 18));
    }
    if run_batch {
        let workers = (args.threads / 3).max(2);
        let n = args.by_tier(1_500u64, 60_000u64);
        let rep = par_cases(workers, args.seed ^ 0xBA7C, n, args.budget(20, 240), |_i, s, r| batch_case(s, r));
        total.merge(rep);
        floors.push(("batch_rounds", 20));
        floors.push(("batch_create_calls", 10_000));
        floors.push(("batch_calls_overlapping_another_create", 2_000));
        floors.push(("batch_ids_handed_out", 30_000));
    }
    if run_bulk {
        let deep = !args.quick();
        let n = args.by_tier(2_500u64, 40_000u64);
        let rep = par_cases(args.threads, args.seed ^ 0xB01C, n, args.budget(12, 200), |_i, s, r| bulk_case(s, deep, r));
        total.max_samples = total.samples.len().max(total.max_samples) + 2;
        total.merge(rep);
        floors.push(("bulk_programs", 60));
        floors.push(("bulk_calls_checked", 600));
        floors.push(("bulk_node_lists_with_adjacent_nodes", 60));
        floors.push(("bulk_node_lists_neighbour_before_highdegree_node", 20));
        floors.push(("bulk_node_lists_highdegree_node_before_neighbour", 20));
        floors.push(("bulk_edge_lists_sharing_an_endpoint", 60));
        floors.push(("bulk_edge_lists_on_highdegree_node", 20));
    }

    let meta = Meta {
        property: "C05",
        rule: "seq: one random program of 20-80 operations (create/update/delete node and edge; directed, undirected, self-loop and parallel edges; nonexistent targets; a quarter of the programs add a 100-140 edge burst on one hub and delete the hub) with every structural read compared with a reference multigraph after every operation; distinct by the hash of the executed trace, non-trivial if >=10 operations ran and at least one edge was deleted. stress: one round = fresh engine, 1-3 hubs, 2-8 threads x 15-60 operations (four mixes: create only / +delete_edge / +delete_node,create_node / +update) with seeded jitter inside the adjacency read-modify-write; judged at quiescence by the walker on the engine's own all_nodes/all_edges plus edge conservation from the recorded history; distinct by the hash of the observed invocation order, non-trivial if operations of different threads overlapped in time. det: nine two-thread schedules with thread A parked inside the adjacency read-modify-write while B runs; same oracle. batch: one round = fresh engine, 2-8 threads x 150-650 short calls on a private ring of 8-32 nodes per thread plus 2-4 shared nodes (batch_create_edges of 1-3 edges, create_edge, batch_create_nodes, create_node; flavours add batch_delete_edges/delete_edge/batch_update_nodes or delete_node/batch_delete_nodes on a victim pool); at quiescence every id returned by a successful creation must be unique across threads and the record under it must be the one that call created (endpoints, type, direction, per-call payload), then the walker; non-trivial if a batch creation overlapped another thread's creation in time. bulk: one single-threaded program = fresh engine, 1-3 hubs with a fan of 0-170 (thorough: 0-400) edges each to 3-16 (thorough: 3-42) leaves, to the other hubs and to themselves (fans below, at and above the 100-edge threshold of delete_node's parallel branch; built by batch_create_edges in one piece, in chunks, or edge by edge), then 4-13 calls: batch_delete_nodes of a node with some or all of its neighbours in every order (plus unrelated, repeated, already deleted and never created ids), batch_delete_edges of some or all edges of one node, batch_create_edges (regrowing a hub; sometimes refused for a missing endpoint), batch_create_nodes (also >= 100), batch_update_nodes, single delete_node/delete_edge/create_edge; after every call the walker on the engine's own all_nodes/all_edges, then node set, edge set and edge records against the reference multigraph, then the ids reported as deleted against the listed ids that existed; distinct by the hash of the executed trace, non-trivial if at least one bulk deletion listed two adjacent nodes or two edges sharing an endpoint.",
        assumptions: vec![
            "a node is never judged to be (or not to be) its own neighbour: self is removed from both sides before neighbour/traverse sets are compared".into(),
            "out_degree/in_degree are compared with the number of distinct existing edges in the respective list (an undirected self-loop counts once per list), which is what edges_of returns".into(),
            "node records that reappear after a successful delete_node (update_node racing delete_node) are only counted (info_deleted_nodes_existing_at_quiescence): the statement speaks about edges and adjacency, not about node records".into(),
            "in concurrent rounds the signature of a structural finding (conc:adjacency-lost-update / conc:delete_node-vs-create_edge / conc:update_edge-vs-delete) is derived from which recorded operations overlapped in time with the creation/removal of the offending edge; the verdict itself does not depend on it".into(),
            "batch part: only ids returned by successful calls are judged; an edge is exempt from the record check if a deletion targeted it or one of its endpoints; call intervals are thread-local monotonic clock reads used for evidence (overlap counters) and for naming the cause in a signature, never for the verdict".into(),
            "the raw `node:N:out|in` list is read through engine.store() only to name the orphan id in a report, never to decide".into(),
            "bulk part: a bulk deletion is held to the same standard as the single call (seq part): every listed node / edge that existed before the call is gone afterwards, a listed node with all its edges, and is reported in deleted_ids; ids that did not exist (never created, deleted earlier, or repeated later in the same list) must not be reported as deleted; nothing is demanded about the order or the wording of the per-item failures. After a creation batch that returned an error (one endpoint missing) only losses are judged and whatever the engine holds in addition is taken over into the model, because the statement does not say whether such a call is all-or-nothing".into(),
            "bulk part: the counters bulk_node_lists_* / bulk_edge_lists_* describe the shape of the executed id lists (degrees taken from the model just before the call) and are evidence only".into(),
        ],
        floors,
        exhaustive: false,
    };
    write_result(&args, &meta, &total, started);
}
