//! C18 — path queries return real, optimal paths; graph algorithms agree with their textbook definitions.
//!
//! One case = one random multigraph (self-loops, parallel edges, directed / undirected / mixed, zero /
//! equal / large / missing weights, several edge types, disconnected parts) built in a fresh real
//! `GraphEngine`. The graph is read back through `all_nodes()` / `all_edges()`; every query answer of the
//! engine is then judged by small independent reference searches over that edge list:
//!   find_path, find_weighted_path, find_all_paths, find_all_weighted_paths, astar_path (default zero
//!   heuristic), traverse, find_variable_paths, neighbors, strongly_connected_components (+condensation),
//!   match_pattern / match_simple / count_pattern_matches / pattern_exists (fixed and variable-length edge
//!   patterns, 2- and 3-node paths, directions, type / property / label filters, sequential and parallel scan),
//!   connected_components, minimum_spanning_tree, kcore_decomposition, count_triangles(undirected),
//!   local_clustering_coefficient, biconnected_components / articulation_points / bridges.
//! Each algorithm is compared in the view its textbook definition uses: paths, traversals and SCC respect
//! direction (an undirected edge is usable both ways); k-core, triangles, articulation points, bridges and
//! MST on the underlying simple undirected graph.
//!
//! `find_all_weighted_paths` on graphs with zero-weight cycles is run in a child process with an address
//! space limit (its equal-cost parent lists can be cyclic; enumeration may not terminate).
//!
//! Second part ("history", counters hist.* / hist_*): the statement speaks of walks in the *current* graph,
//! so the same battery of queries is also run on graphs that a random operation history left in the engine:
//! on top of a generated graph 1-8 steps of delete_node / batch_delete_nodes (either endpoint role, directed
//! and undirected, self-loops, parallel edges; now and then a temporary hub with ~100-130 incident edges so
//! that delete_node's high-degree route runs), delete_edge / batch_delete_edges, update_edge (weight changed,
//! removed, k changed), update_node / add_label / remove_label (colour and label changed together),
//! create_node / batch_create_nodes, create_edge / batch_create_edges, and property indexes created midway.
//! A small model follows the operations; the engine's read-back must list exactly what the model holds
//! (otherwise the case is inconclusive: storing the graph is C05's subject), and every query is then judged
//! on that read-back graph exactly as in the first part. A query that fails with EdgeNotFound / NodeNotFound
//! for an id the current graph does not contain has its own signature.

use common::*;
use graph_engine::{
    AStarConfig, AllPathsConfig, BiconnectedConfig, CompareOp, Direction, EdgePattern, GraphEngine, GraphEngineConfig, GraphError, KCoreConfig, MstConfig,
    NodePattern, PathPattern, Pattern, PatternMatch, PropertyValue, SccConfig, TraversalFilter, TriangleConfig, VariableLengthConfig,
};
use serde_json::{json, Value};
use std::collections::{BTreeMap, BTreeSet, HashMap, HashSet, VecDeque};
use std::time::{Duration, Instant};

const TYPES: [&str; 3] = ["A", "B", "C"];

// ------------------------------------------------------------------------------------------------
// graph specification (what the case builds) — everything derives from the case seed
// ------------------------------------------------------------------------------------------------

#[derive(Clone, Debug, PartialEq)]
enum W {
    Missing,
    Int(i64),
    Float(f64),
}
impl W {
    fn eff(&self) -> f64 {
        match self {
            W::Missing => 1.0,
            W::Int(i) => *i as f64,
            W::Float(f) => *f,
        }
    }
}

#[derive(Clone, Debug)]
struct ES {
    a: usize,
    b: usize,
    directed: bool,
    ty: usize,
    w: W,
    k: i64,
}

#[derive(Clone, Debug)]
struct Spec {
    n: usize,
    color: Vec<i64>,
    edges: Vec<ES>,
}

fn gen_weight(rng: &mut Rng, regime: usize) -> W {
    match regime {
        0 => W::Missing, // unit weights through the default
        1 => W::Int(1),
        2 => {
            // zero-heavy
            if rng.chance(1, 2) {
                W::Int(0)
            } else if rng.bool() {
                W::Float(0.0)
            } else {
                W::Int(rng.range(1, 3))
            }
        }
        3 => W::Int(rng.range(0, 9)),
        4 => W::Float((rng.below(40) as f64) * 0.25),
        5 => {
            // large and mixed magnitudes
            match rng.below(4) {
                0 => W::Float(1e9 + rng.below(1000) as f64),
                1 => W::Int(1_000_000_000_000),
                2 => W::Float(rng.f64_in(0.0, 1.0)),
                _ => W::Int(rng.range(1, 5)),
            }
        }
        _ => match rng.below(5) {
            0 => W::Missing,
            1 => W::Int(rng.range(0, 6)),
            2 => W::Float(rng.f64_in(0.0, 10.0)),
            3 => W::Int(2),
            _ => W::Float(2.0),
        },
    }
}

fn gen_spec(rng: &mut Rng) -> Spec {
    let size_class = rng.weighted(&[60, 30, 10]);
    let n = match size_class {
        0 => 2 + rng.below(7),   // 2..=8
        1 => 9 + rng.below(8),   // 9..=16
        _ => 17 + rng.below(24), // 17..=40
    };
    let dir_regime = rng.below(4); // 0 all directed, 1 all undirected, 2/3 mixed
    let w_regime = rng.below(7);
    let density = rng.below(4);
    let m = match density {
        0 => rng.below(n + 1),
        1 => n + rng.below(n + 1),
        2 => 2 * n + rng.below(2 * n + 1),
        _ => (n * n / 3).max(3).min(120),
    };
    let clusters = if rng.chance(1, 3) { 2 + rng.below(2) } else { 1 };
    let types_used = 1 + rng.below(3);
    let color: Vec<i64> = (0..n).map(|_| rng.below(3) as i64).collect();
    let mut edges = Vec::new();
    for _ in 0..m {
        let a = rng.below(n);
        let b = if rng.chance(1, 12) {
            a
        } else if !edges.is_empty() && rng.chance(1, 8) {
            // parallel (possibly anti-parallel) to an existing edge
            let e: &ES = &edges[rng.below(edges.len())];
            if rng.bool() {
                edges.push(ES { a: e.a, b: e.b, directed: e.directed, ty: rng.below(types_used), w: gen_weight(rng, w_regime), k: rng.below(3) as i64 });
            } else {
                edges.push(ES { a: e.b, b: e.a, directed: rng.bool(), ty: e.ty, w: gen_weight(rng, w_regime), k: rng.below(3) as i64 });
            }
            continue;
        } else {
            // stay inside the cluster of a (disconnected parts) unless there is one cluster
            let mut b = rng.below(n);
            if clusters > 1 {
                let mut tries = 0;
                while b % clusters != a % clusters && tries < 8 {
                    b = rng.below(n);
                    tries += 1;
                }
                if b % clusters != a % clusters {
                    b = a;
                }
            }
            b
        };
        let directed = match dir_regime {
            0 => true,
            1 => false,
            _ => rng.bool(),
        };
        edges.push(ES { a, b, directed, ty: rng.below(types_used), w: gen_weight(rng, w_regime), k: rng.below(3) as i64 });
    }
    Spec { n, color, edges }
}

fn spec_json(s: &Spec) -> Value {
    json!({
        "nodes": s.n,
        "colors": s.color,
        "edges": s.edges.iter().enumerate().map(|(i, e)| format!("e{}:{}{}{}:{}:w={:?}:k={}", i + 1, e.a + 1, if e.directed { "->" } else { "--" }, e.b + 1, TYPES[e.ty], e.w, e.k)).collect::<Vec<_>>(),
    })
}

fn spec_hash(s: &Spec) -> u64 {
    let mut h = s.n as u64;
    for e in &s.edges {
        h = hash_combine(h, (e.a as u64) << 40 | (e.b as u64) << 20 | (e.directed as u64) << 8 | e.ty as u64);
        h = hash_combine(h, e.w.eff().to_bits() ^ e.k as u64);
    }
    h
}

/// every undirected edge a--b becomes the two directed edges a->b, b->a (same answers for Outgoing paths)
fn split_undirected(s: &Spec) -> Spec {
    let mut o = s.clone();
    o.edges.clear();
    for e in &s.edges {
        if e.directed || e.a == e.b {
            o.edges.push(ES { directed: true, ..e.clone() });
        } else {
            o.edges.push(ES { directed: true, ..e.clone() });
            o.edges.push(ES { a: e.b, b: e.a, directed: true, ..e.clone() });
        }
    }
    o
}
/// every edge becomes two opposite directed edges (same answers for Direction::Both paths)
fn both_ways(s: &Spec) -> Spec {
    let mut o = s.clone();
    o.edges.clear();
    for e in &s.edges {
        o.edges.push(ES { directed: true, ..e.clone() });
        if e.a != e.b {
            o.edges.push(ES { a: e.b, b: e.a, directed: true, ..e.clone() });
        }
    }
    o
}
/// parallel directed edges a->b merged into the lightest one (after dropping edges the query's
/// edge-type restriction excludes anyway)
fn merge_parallel_min(s: &Spec, ty: Option<&str>) -> Spec {
    let mut best: BTreeMap<(usize, usize), ES> = BTreeMap::new();
    for e in &s.edges {
        if ty.map_or(false, |t| TYPES[e.ty] != t) {
            continue;
        }
        let key = (e.a, e.b);
        match best.get(&key) {
            Some(x) if x.w.eff() <= e.w.eff() => {}
            _ => {
                best.insert(key, e.clone());
            }
        }
    }
    let mut o = s.clone();
    o.edges = best.into_values().collect();
    o
}

// ------------------------------------------------------------------------------------------------
// reference graph (read back from the engine) and reference searches
// ------------------------------------------------------------------------------------------------

#[derive(Clone, Debug)]
struct RE {
    id: u64,
    from: u64,
    to: u64,
    directed: bool,
    ty: String,
    w: f64,
    k: i64,
}

#[derive(Clone, Debug)]
struct RG {
    nodes: Vec<u64>,
    color: HashMap<u64, i64>,
    edges: Vec<RE>,
    by_id: HashMap<u64, usize>,
}

#[derive(Clone, Copy, Debug, PartialEq, Eq, PartialOrd, Ord)]
struct Arc {
    u: u64,
    v: u64,
    e: u64,
}

impl RG {
    /// the steps a traversal in direction `dir` may take, over edges accepted by `pred`
    fn arcs(&self, dir: Direction, pred: &dyn Fn(&RE) -> bool) -> Vec<(Arc, f64)> {
        let mut set: BTreeMap<Arc, f64> = BTreeMap::new();
        for e in &self.edges {
            if !pred(e) {
                continue;
            }
            let fwd = dir == Direction::Outgoing || dir == Direction::Both || !e.directed;
            let bwd = dir == Direction::Incoming || dir == Direction::Both || !e.directed;
            if fwd {
                set.insert(Arc { u: e.from, v: e.to, e: e.id }, e.w);
            }
            if bwd {
                set.insert(Arc { u: e.to, v: e.from, e: e.id }, e.w);
            }
        }
        set.into_iter().collect()
    }
    fn edge(&self, id: u64) -> Option<&RE> {
        self.by_id.get(&id).map(|&i| &self.edges[i])
    }
}

fn bfs_dist(arcs: &[(Arc, f64)], src: u64, node_ok: &dyn Fn(u64) -> bool) -> HashMap<u64, usize> {
    let mut d = HashMap::new();
    d.insert(src, 0usize);
    let mut q = VecDeque::new();
    q.push_back(src);
    while let Some(c) = q.pop_front() {
        let dc = d[&c];
        for (a, _) in arcs {
            if a.u == c && !d.contains_key(&a.v) && node_ok(a.v) {
                d.insert(a.v, dc + 1);
                q.push_back(a.v);
            }
        }
    }
    d
}

fn bellman_ford(arcs: &[(Arc, f64)], nodes: &[u64], src: u64) -> HashMap<u64, f64> {
    let mut d: HashMap<u64, f64> = HashMap::new();
    d.insert(src, 0.0);
    for _ in 0..nodes.len() {
        let mut changed = false;
        for (a, w) in arcs {
            if let Some(&du) = d.get(&a.u) {
                let nd = du + *w;
                let better = match d.get(&a.v) {
                    None => true,
                    Some(&dv) => nd < dv,
                };
                if better {
                    d.insert(a.v, nd);
                    changed = true;
                }
            }
        }
        if !changed {
            break;
        }
    }
    d
}

type PathKey = (Vec<u64>, Vec<u64>);

/// all walks src..dst with hop count in [min,max]; node-simple unless allow_cycles
fn ref_var_paths(arcs: &[(Arc, f64)], src: u64, dst: u64, min: usize, max: usize, allow_cycles: bool, node_ok: &dyn Fn(u64) -> bool, cap: usize) -> Option<BTreeSet<PathKey>> {
    let mut out = BTreeSet::new();
    let mut nodes = vec![src];
    let mut edges: Vec<u64> = Vec::new();
    fn rec(
        arcs: &[(Arc, f64)],
        dst: u64,
        min: usize,
        max: usize,
        allow_cycles: bool,
        node_ok: &dyn Fn(u64) -> bool,
        cap: usize,
        nodes: &mut Vec<u64>,
        edges: &mut Vec<u64>,
        out: &mut BTreeSet<PathKey>,
    ) -> bool {
        let cur = *nodes.last().unwrap();
        if cur == dst && edges.len() >= min {
            out.insert((nodes.clone(), edges.clone()));
            if out.len() > cap {
                return false;
            }
        }
        if edges.len() == max {
            return true;
        }
        for (a, _) in arcs {
            if a.u != cur {
                continue;
            }
            if !allow_cycles && nodes.contains(&a.v) {
                continue;
            }
            if a.v != dst && !node_ok(a.v) {
                continue;
            }
            nodes.push(a.v);
            edges.push(a.e);
            let ok = rec(arcs, dst, min, max, allow_cycles, node_ok, cap, nodes, edges, out);
            nodes.pop();
            edges.pop();
            if !ok {
                return false;
            }
        }
        true
    }
    if rec(arcs, dst, min, max, allow_cycles, node_ok, cap, &mut nodes, &mut edges, &mut out) {
        Some(out)
    } else {
        None
    }
}

/// partition of `nodes` into classes of the equivalence "mutually reachable over arcs"
fn mutual_reach_partition(arcs: &[(Arc, f64)], nodes: &[u64]) -> BTreeSet<BTreeSet<u64>> {
    let reach: HashMap<u64, HashSet<u64>> = nodes.iter().map(|&n| (n, bfs_dist(arcs, n, &|_| true).keys().copied().collect())).collect();
    let mut parts = BTreeSet::new();
    for &a in nodes {
        let cls: BTreeSet<u64> = nodes.iter().copied().filter(|b| reach[&a].contains(b) && reach[b].contains(&a)).collect();
        parts.insert(cls);
    }
    parts
}

/// simple undirected view: neighbour sets without self-loops, parallel edges merged
fn simple_adj(rg: &RG, pred: &dyn Fn(&RE) -> bool) -> BTreeMap<u64, BTreeSet<u64>> {
    let mut adj: BTreeMap<u64, BTreeSet<u64>> = rg.nodes.iter().map(|&n| (n, BTreeSet::new())).collect();
    for e in &rg.edges {
        if pred(e) && e.from != e.to {
            adj.get_mut(&e.from).unwrap().insert(e.to);
            adj.get_mut(&e.to).unwrap().insert(e.from);
        }
    }
    adj
}

fn count_components(adj: &BTreeMap<u64, BTreeSet<u64>>, removed_node: Option<u64>, removed_edge: Option<(u64, u64)>) -> usize {
    let mut seen: BTreeSet<u64> = BTreeSet::new();
    let mut comps = 0;
    for &s in adj.keys() {
        if Some(s) == removed_node || seen.contains(&s) {
            continue;
        }
        comps += 1;
        let mut st = vec![s];
        seen.insert(s);
        while let Some(c) = st.pop() {
            for &v in &adj[&c] {
                if Some(v) == removed_node {
                    continue;
                }
                if let Some((a, b)) = removed_edge {
                    if (c == a && v == b) || (c == b && v == a) {
                        continue;
                    }
                }
                if seen.insert(v) {
                    st.push(v);
                }
            }
        }
    }
    comps
}

fn core_numbers(adj: &BTreeMap<u64, BTreeSet<u64>>) -> BTreeMap<u64, usize> {
    let mut core: BTreeMap<u64, usize> = adj.keys().map(|&n| (n, 0)).collect();
    let mut k = 1;
    loop {
        // k-core = what survives repeatedly deleting vertices of degree < k
        let mut alive: BTreeSet<u64> = adj.keys().copied().collect();
        loop {
            let drop: Vec<u64> = alive.iter().copied().filter(|n| adj[n].iter().filter(|v| alive.contains(v)).count() < k).collect();
            if drop.is_empty() {
                break;
            }
            for d in drop {
                alive.remove(&d);
            }
        }
        if alive.is_empty() {
            break;
        }
        for n in alive {
            core.insert(n, k);
        }
        k += 1;
    }
    core
}

/// blocks (biconnected components) as sets of simple edges, by Menger: two edges share a block iff no
/// single third vertex separates their midpoints
fn blocks(adj: &BTreeMap<u64, BTreeSet<u64>>) -> BTreeSet<BTreeSet<(u64, u64)>> {
    let edges: Vec<(u64, u64)> = adj.iter().flat_map(|(&u, vs)| vs.iter().filter(move |&&v| u < v).map(move |&v| (u, v))).collect();
    let connected_avoiding = |e: (u64, u64), f: (u64, u64), x: u64| -> bool {
        // is midpoint(e) connected to midpoint(f) in G - x ?
        let starts: Vec<u64> = [e.0, e.1].into_iter().filter(|&v| v != x).collect();
        let goals: Vec<u64> = [f.0, f.1].into_iter().filter(|&v| v != x).collect();
        let mut seen: BTreeSet<u64> = starts.iter().copied().collect();
        let mut st = starts;
        while let Some(c) = st.pop() {
            if goals.contains(&c) {
                return true;
            }
            for &v in &adj[&c] {
                if v != x && seen.insert(v) {
                    st.push(v);
                }
            }
        }
        false
    };
    let mut parts: Vec<BTreeSet<(u64, u64)>> = Vec::new();
    for &e in &edges {
        let mut placed = false;
        for p in parts.iter_mut() {
            let f = *p.iter().next().unwrap();
            if adj.keys().all(|&x| connected_avoiding(e, f, x)) {
                p.insert(e);
                placed = true;
                break;
            }
        }
        if !placed {
            parts.push([e].into_iter().collect());
        }
    }
    parts.into_iter().collect()
}

fn close(a: f64, b: f64) -> bool {
    if a == b {
        return true;
    }
    (a - b).abs() <= 1e-9 * a.abs().max(b.abs()).max(1.0)
}

// ------------------------------------------------------------------------------------------------
// building
// ------------------------------------------------------------------------------------------------

struct Built {
    g: GraphEngine,
    ids: Vec<u64>,
    rg: RG,
    /// engine id of every edge of the spec, in spec order
    edge_ids: Vec<u64>,
}

fn build(spec: &Spec) -> Result<Built, String> {
    build_in(spec, GraphEngine::new())
}

fn build_in(spec: &Spec, g: GraphEngine) -> Result<Built, String> {
    let mut ids = Vec::new();
    for i in 0..spec.n {
        let mut p = HashMap::new();
        p.insert("c".to_string(), PropertyValue::Int(spec.color[i]));
        // every node is labelled N plus L<colour> (label filters of node patterns)
        ids.push(g.create_node_with_labels(vec!["N".to_string(), format!("L{}", spec.color[i])], p).map_err(|e| format!("create_node: {}", e))?);
    }
    let mut expect: BTreeMap<u64, &ES> = BTreeMap::new();
    let mut edge_ids = Vec::new();
    for e in &spec.edges {
        let mut p = HashMap::new();
        match &e.w {
            W::Missing => {}
            W::Int(i) => {
                p.insert("w".to_string(), PropertyValue::Int(*i));
            }
            W::Float(f) => {
                p.insert("w".to_string(), PropertyValue::Float(*f));
            }
        }
        p.insert("k".to_string(), PropertyValue::Int(e.k));
        let id = g.create_edge(ids[e.a], ids[e.b], TYPES[e.ty], p, e.directed).map_err(|x| format!("create_edge: {}", x))?;
        expect.insert(id, e);
        edge_ids.push(id);
    }
    // read back: the oracle's graph is what the engine says it stores
    let rg = read_back(&g);
    let mut sorted_nodes = rg.nodes.clone();
    sorted_nodes.sort_unstable();
    let mut want = ids.clone();
    want.sort_unstable();
    if sorted_nodes != want || rg.edges.len() != expect.len() {
        return Err(format!("read-back differs: {} nodes / {} edges stored, {} / {} created", rg.nodes.len(), rg.edges.len(), ids.len(), expect.len()));
    }
    for e in &rg.edges {
        match expect.get(&e.id) {
            Some(s) if ids[s.a] == e.from && ids[s.b] == e.to && s.directed == e.directed && TYPES[s.ty] == e.ty && s.w.eff().to_bits() == e.w.to_bits() && s.k == e.k => {}
            other => return Err(format!("read-back differs for edge {}: stored {:?}, created {:?}", e.id, e, other)),
        }
    }
    Ok(Built { g, ids, rg, edge_ids })
}

/// the graph as the engine lists it through all_nodes() / all_edges()
fn read_back(g: &GraphEngine) -> RG {
    let mut rg = RG { nodes: g.all_nodes().iter().map(|n| n.id).collect(), color: HashMap::new(), edges: Vec::new(), by_id: HashMap::new() };
    for n in g.all_nodes() {
        if let Some(PropertyValue::Int(c)) = n.properties.get("c") {
            rg.color.insert(n.id, *c);
        }
    }
    for e in g.all_edges() {
        let w = match e.properties.get("w") {
            Some(PropertyValue::Int(i)) => *i as f64,
            Some(PropertyValue::Float(f)) => *f,
            _ => 1.0,
        };
        let k = match e.properties.get("k") {
            Some(PropertyValue::Int(i)) => *i,
            _ => -1,
        };
        rg.by_id.insert(e.id, rg.edges.len());
        rg.edges.push(RE { id: e.id, from: e.from, to: e.to, directed: e.directed, ty: e.edge_type.clone(), w, k });
    }
    rg
}

// ------------------------------------------------------------------------------------------------
// mutation histories: the "current graph" a query runs on is whatever a sequence of graph operations
// left behind (deletions of nodes and edges, property / label updates, later creations, single and batch
// entry points, property indexes created midway) — not only a freshly built one
// ------------------------------------------------------------------------------------------------

#[derive(Clone, Debug)]
struct MEdge {
    from: u64,
    to: u64,
    directed: bool,
    ty: usize,
    w: W,
    k: i64,
}

/// what the operations applied so far imply (the engine's read-back must agree before anything is judged)
struct Model {
    nodes: BTreeMap<u64, i64>,
    edges: BTreeMap<u64, MEdge>,
}

#[derive(Default)]
struct HistInfo {
    ops: Vec<String>,
    counts: BTreeMap<&'static str, u64>,
    /// endpoints that outlived an edge removed by delete_node / delete_edge
    touched: BTreeSet<u64>,
}
impl HistInfo {
    fn count(&mut self, k: &'static str, n: u64) {
        *self.counts.entry(k).or_insert(0) += n;
    }
}

fn node_labels(c: i64) -> Vec<String> {
    vec!["N".to_string(), format!("L{}", c)]
}
fn node_props(c: i64) -> HashMap<String, PropertyValue> {
    let mut p = HashMap::new();
    p.insert("c".to_string(), PropertyValue::Int(c));
    p
}
fn edge_props(w: &W, k: Option<i64>, null_for_missing: bool) -> HashMap<String, PropertyValue> {
    let mut p = HashMap::new();
    match w {
        W::Missing => {
            if null_for_missing {
                p.insert("w".to_string(), PropertyValue::Null);
            }
        }
        W::Int(i) => {
            p.insert("w".to_string(), PropertyValue::Int(*i));
        }
        W::Float(f) => {
            p.insert("w".to_string(), PropertyValue::Float(*f));
        }
    }
    if let Some(k) = k {
        p.insert("k".to_string(), PropertyValue::Int(k));
    }
    p
}
fn medge_show(id: u64, e: &MEdge) -> String {
    format!("e{}:{}{}{}:{}:w={:?}:k={}", id, e.from, if e.directed { "->" } else { "--" }, e.to, TYPES[e.ty], e.w, e.k)
}

fn hist_create_edges(g: &GraphEngine, m: &mut Model, h: &mut HistInfo, list: Vec<MEdge>, batch: bool, log: bool) -> Result<Vec<u64>, String> {
    let ids: Vec<u64> = if batch {
        let inputs: Vec<graph_engine::EdgeInput> = list.iter().map(|e| graph_engine::EdgeInput::new(e.from, e.to, TYPES[e.ty], edge_props(&e.w, Some(e.k), false), e.directed)).collect();
        let res = g.batch_create_edges(inputs).map_err(|e| format!("history: batch_create_edges failed: {}", e))?;
        if res.created_ids.len() != list.len() {
            return Err("history: batch_create_edges returned a different number of ids".into());
        }
        h.count("hist_op_batch_create_edges", 1);
        res.created_ids
    } else {
        let mut v = Vec::new();
        for e in &list {
            v.push(g.create_edge(e.from, e.to, TYPES[e.ty], edge_props(&e.w, Some(e.k), false), e.directed).map_err(|x| format!("history: create_edge failed: {}", x))?);
            h.count("hist_op_create_edge", 1);
        }
        v
    };
    for (id, e) in ids.iter().zip(list) {
        if log {
            h.ops.push(format!("{}({})", if batch { "batch_create_edges" } else { "create_edge" }, medge_show(*id, &e)));
        }
        if m.edges.insert(*id, e).is_some() {
            return Err("history: an edge id was handed out twice".into());
        }
    }
    Ok(ids)
}

fn hist_delete_nodes(g: &GraphEngine, m: &mut Model, h: &mut HistInfo, ids: &[u64], batch: bool) -> Result<(), String> {
    if batch {
        let res = g.batch_delete_nodes(ids.to_vec()).map_err(|e| format!("history: batch_delete_nodes failed: {}", e))?;
        if !res.failed.is_empty() || res.deleted_ids.len() != ids.len() {
            return Err(format!("history: batch_delete_nodes reported failures: {:?}", res.failed.iter().map(|f| f.cause.clone()).collect::<Vec<_>>()));
        }
        h.count("hist_op_batch_delete_nodes", 1);
        h.ops.push(format!("batch_delete_nodes({:?})", ids));
    }
    for &id in ids {
        if !batch {
            g.delete_node(id).map_err(|e| format!("history: delete_node failed: {}", e))?;
            h.ops.push(format!("delete_node({})", id));
        }
        let incident: Vec<u64> = m.edges.iter().filter(|(_, e)| e.from == id || e.to == id).map(|(&i, _)| i).collect();
        h.count("hist_nodes_deleted", 1);
        h.count(if incident.len() >= 100 { "hist_nodes_deleted_with_ge_100_edges" } else { "hist_nodes_deleted_with_lt_100_edges" }, 1);
        for eid in incident {
            let e = m.edges.remove(&eid).unwrap();
            let what = match (e.from == e.to, e.from == id, e.directed) {
                (true, _, _) => "hist_edges_removed_by_delete_node[self-loop]",
                (_, true, true) => "hist_edges_removed_by_delete_node[node-is-from,directed]",
                (_, true, false) => "hist_edges_removed_by_delete_node[node-is-from,undirected]",
                (_, false, true) => "hist_edges_removed_by_delete_node[node-is-to,directed]",
                (_, false, false) => "hist_edges_removed_by_delete_node[node-is-to,undirected]",
            };
            h.count(what, 1);
            h.touched.insert(if e.from == id { e.to } else { e.from });
        }
        m.nodes.remove(&id);
    }
    Ok(())
}

fn hist_delete_edges(g: &GraphEngine, m: &mut Model, h: &mut HistInfo, ids: &[u64], batch: bool) -> Result<(), String> {
    if batch {
        let res = g.batch_delete_edges(ids.to_vec()).map_err(|e| format!("history: batch_delete_edges failed: {}", e))?;
        if !res.failed.is_empty() || res.deleted_ids.len() != ids.len() {
            return Err(format!("history: batch_delete_edges reported failures: {:?}", res.failed.iter().map(|f| f.cause.clone()).collect::<Vec<_>>()));
        }
        h.count("hist_op_batch_delete_edges", 1);
        h.ops.push(format!("batch_delete_edges({:?})", ids));
    }
    for &id in ids {
        if !batch {
            g.delete_edge(id).map_err(|e| format!("history: delete_edge failed: {}", e))?;
            h.ops.push(format!("delete_edge({})", id));
        }
        if let Some(e) = m.edges.remove(&id) {
            h.count(if e.directed { "hist_edges_deleted[directed]" } else { "hist_edges_deleted[undirected]" }, 1);
            h.touched.insert(e.from);
            h.touched.insert(e.to);
        }
    }
    Ok(())
}

fn gen_medge(hr: &mut Rng, m: &Model, live: &[u64], w_regime: usize) -> MEdge {
    if !m.edges.is_empty() && hr.chance(1, 6) {
        // parallel / anti-parallel to an existing edge
        let ids: Vec<u64> = m.edges.keys().copied().collect();
        let e = &m.edges[hr.pick(&ids)];
        let flip = hr.bool();
        return MEdge { from: if flip { e.to } else { e.from }, to: if flip { e.from } else { e.to }, directed: hr.bool(), ty: hr.below(3), w: gen_weight(hr, w_regime), k: hr.below(3) as i64 };
    }
    let a = *hr.pick(live);
    let b = if hr.chance(1, 12) { a } else { *hr.pick(live) };
    MEdge { from: a, to: b, directed: hr.bool(), ty: hr.below(3), w: gen_weight(hr, w_regime), k: hr.below(3) as i64 }
}

/// applies a random operation history to the engine and to the model
fn apply_history(case_seed: u64, g: &GraphEngine, m: &mut Model, h: &mut HistInfo) -> Result<(), String> {
    let mut hr = Rng::new(case_seed ^ 0x4849_5354_4F52_5921);
    let steps = 1 + hr.below(8);
    let index_at = if hr.chance(1, 4) { Some(hr.below(steps)) } else { None };
    let hub_del_at = if hr.chance(1, 8) { Some(hr.below(steps)) } else { None };
    let w_regime = hr.below(7);
    let mut hub: Option<u64> = None;
    if hub_del_at.is_some() {
        // a temporary hub whose deletion takes delete_node's high-degree route (>= 100 incident edges; a few
        // stay just below); it is always deleted again, so the judged graph stays small
        let c = hr.below(3) as i64;
        let hid = g.create_node_with_labels(node_labels(c), node_props(c)).map_err(|e| format!("history: create_node failed: {}", e))?;
        let others: Vec<u64> = m.nodes.keys().copied().collect();
        m.nodes.insert(hid, c);
        let cnt = if hr.chance(1, 5) { 95 + hr.below(5) } else { 100 + hr.below(30) };
        let dir_regime = hr.below(3);
        let mut list = Vec::new();
        for _ in 0..cnt {
            let o = if hr.chance(1, 30) { hid } else { *hr.pick(&others) };
            let (from, to) = if hr.bool() { (hid, o) } else { (o, hid) };
            let directed = match dir_regime {
                0 => true,
                1 => false,
                _ => hr.bool(),
            };
            list.push(MEdge { from, to, directed, ty: hr.below(3), w: gen_weight(&mut hr, w_regime), k: hr.below(3) as i64 });
        }
        let batch = hr.bool();
        h.ops.push(format!("create node {} (c={}) and {} edges between it and the other nodes, {} (dir regime {})", hid, c, cnt, if batch { "one batch_create_edges" } else { "create_edge each" }, dir_regime));
        hist_create_edges(g, m, h, list, batch, false)?;
        hub = Some(hid);
    }
    for step in 0..steps {
        if index_at == Some(step) {
            g.create_node_property_index("c").map_err(|e| format!("history: create_node_property_index failed: {}", e))?;
            g.create_edge_property_index("k").map_err(|e| format!("history: create_edge_property_index failed: {}", e))?;
            h.ops.push("create_node_property_index(c), create_edge_property_index(k)".into());
            h.count("hist_op_create_property_indexes", 1);
        }
        if hub_del_at == Some(step) {
            if let Some(hid) = hub.take() {
                hist_delete_nodes(g, m, h, &[hid], hr.chance(1, 3))?;
            }
        }
        let live: Vec<u64> = m.nodes.keys().copied().filter(|x| Some(*x) != hub).collect();
        let edge_ids: Vec<u64> = m.edges.keys().copied().collect();
        match hr.weighted(&[25, 20, 15, 10, 10, 20]) {
            0 => {
                // delete one or two nodes (at least two ordinary nodes stay)
                let want = if hr.chance(1, 4) { 2 } else { 1 };
                let mut pick = live.clone();
                hr.shuffle(&mut pick);
                pick.truncate(want.min(live.len().saturating_sub(2)));
                if !pick.is_empty() {
                    let batch = pick.len() > 1 || hr.chance(1, 4);
                    hist_delete_nodes(g, m, h, &pick, batch)?;
                }
            }
            1 => {
                let mut pick = edge_ids.clone();
                hr.shuffle(&mut pick);
                pick.truncate(1 + hr.below(3));
                if !pick.is_empty() {
                    let batch = pick.len() > 1 || hr.chance(1, 4);
                    hist_delete_edges(g, m, h, &pick, batch)?;
                }
            }
            2 => {
                if !edge_ids.is_empty() {
                    let id = *hr.pick(&edge_ids);
                    let new_w = if hr.chance(2, 3) { Some(gen_weight(&mut hr, w_regime)) } else { None };
                    let new_k = if new_w.is_none() || hr.bool() { Some(hr.below(3) as i64) } else { None };
                    let mut p = match &new_w {
                        Some(w) => edge_props(w, None, true),
                        None => HashMap::new(),
                    };
                    if let Some(k) = new_k {
                        p.insert("k".to_string(), PropertyValue::Int(k));
                    }
                    g.update_edge(id, p).map_err(|e| format!("history: update_edge failed: {}", e))?;
                    let e = m.edges.get_mut(&id).unwrap();
                    if let Some(w) = new_w {
                        e.w = w;
                    }
                    if let Some(k) = new_k {
                        e.k = k;
                    }
                    h.ops.push(format!("update_edge -> {}", medge_show(id, e)));
                    h.count("hist_op_update_edge", 1);
                }
            }
            3 => {
                if !live.is_empty() {
                    let id = *hr.pick(&live);
                    let old = m.nodes[&id];
                    let c = hr.below(3) as i64;
                    if hr.bool() {
                        g.update_node(id, Some(node_labels(c)), node_props(c)).map_err(|e| format!("history: update_node failed: {}", e))?;
                        h.ops.push(format!("update_node({}, labels [N, L{}], c={})", id, c, c));
                    } else {
                        g.remove_label(id, &format!("L{}", old)).map_err(|e| format!("history: remove_label failed: {}", e))?;
                        g.add_label(id, &format!("L{}", c)).map_err(|e| format!("history: add_label failed: {}", e))?;
                        g.update_node(id, None, node_props(c)).map_err(|e| format!("history: update_node failed: {}", e))?;
                        h.ops.push(format!("remove_label({}, L{}), add_label({}, L{}), update_node({}, c={})", id, old, id, c, id, c));
                    }
                    m.nodes.insert(id, c);
                    h.count("hist_op_update_node", 1);
                }
            }
            4 => {
                let c = hr.below(3) as i64;
                let id = if hr.bool() {
                    g.create_node_with_labels(node_labels(c), node_props(c)).map_err(|e| format!("history: create_node failed: {}", e))?
                } else {
                    let res = g.batch_create_nodes(vec![graph_engine::NodeInput::new(node_labels(c), node_props(c))]).map_err(|e| format!("history: batch_create_nodes failed: {}", e))?;
                    match res.created_ids.as_slice() {
                        [id] => *id,
                        _ => return Err("history: batch_create_nodes returned a different number of ids".into()),
                    }
                };
                if m.nodes.insert(id, c).is_some() {
                    return Err("history: a node id was handed out twice".into());
                }
                h.ops.push(format!("create node {} (c={})", id, c));
                h.count("hist_op_create_node", 1);
            }
            _ => {
                let all_live: Vec<u64> = m.nodes.keys().copied().collect();
                let cnt = 1 + hr.below(3);
                let list: Vec<MEdge> = (0..cnt).map(|_| gen_medge(&mut hr, m, &all_live, w_regime)).collect();
                let list: Vec<MEdge> = list.into_iter().filter(|e| m.nodes.contains_key(&e.from) && m.nodes.contains_key(&e.to)).collect();
                if !list.is_empty() {
                    let batch = hr.bool();
                    hist_create_edges(g, m, h, list, batch, true)?;
                }
            }
        }
    }
    if let Some(hid) = hub.take() {
        hist_delete_nodes(g, m, h, &[hid], false)?;
    }
    Ok(())
}

/// reads the engine back, insists that it lists exactly what the history implies, and re-expresses the
/// current graph as a Spec (node i = i-th smallest node id) so that the rest of the case can work on it
fn after_history(g: GraphEngine, m: &Model) -> Result<(Spec, Built), String> {
    let rg = read_back(&g);
    let mut listed: BTreeMap<u64, (Option<i64>, BTreeSet<String>)> = BTreeMap::new();
    for n in g.all_nodes() {
        let c = match n.properties.get("c") {
            Some(PropertyValue::Int(c)) => Some(*c),
            _ => None,
        };
        if listed.insert(n.id, (c, n.labels.iter().cloned().collect())).is_some() {
            return Err("history: read-back lists a node twice".into());
        }
    }
    let want_nodes: BTreeMap<u64, (Option<i64>, BTreeSet<String>)> = m.nodes.iter().map(|(&id, &c)| (id, (Some(c), node_labels(c).into_iter().collect()))).collect();
    if listed != want_nodes {
        return Err(format!("history: read-back nodes differ from the applied operations ({} listed, {} expected)", listed.len(), want_nodes.len()));
    }
    if rg.edges.len() != m.edges.len() || rg.by_id.len() != m.edges.len() {
        return Err(format!("history: read-back lists {} edges, the applied operations leave {}", rg.edges.len(), m.edges.len()));
    }
    for e in &rg.edges {
        match m.edges.get(&e.id) {
            Some(s) if s.from == e.from && s.to == e.to && s.directed == e.directed && TYPES[s.ty] == e.ty && s.w.eff().to_bits() == e.w.to_bits() && s.k == e.k => {}
            _ => return Err("history: a read-back edge differs from the applied operations".into()),
        }
    }
    let ids: Vec<u64> = m.nodes.keys().copied().collect();
    let idx: HashMap<u64, usize> = ids.iter().enumerate().map(|(i, &id)| (id, i)).collect();
    let spec = Spec {
        n: ids.len(),
        color: ids.iter().map(|id| m.nodes[id]).collect(),
        edges: m.edges.values().map(|e| ES { a: idx[&e.from], b: idx[&e.to], directed: e.directed, ty: e.ty, w: e.w.clone(), k: e.k }).collect(),
    };
    let edge_ids = m.edges.keys().copied().collect();
    Ok((spec, Built { g, ids, rg, edge_ids }))
}

/// the engine a case works on: the generated graph, or (hist) what an operation history made of it
fn make_case(case_seed: u64, hist: bool, engine: GraphEngine) -> Result<(Spec, Built, Option<HistInfo>, Rng), String> {
    let mut rng = Rng::new(case_seed);
    let spec0 = gen_spec(&mut rng);
    let bt0 = build_in(&spec0, engine)?;
    if !hist {
        return Ok((spec0, bt0, None, rng));
    }
    let mut m = Model { nodes: BTreeMap::new(), edges: BTreeMap::new() };
    for (i, &id) in bt0.ids.iter().enumerate() {
        m.nodes.insert(id, spec0.color[i]);
    }
    for (e, &id) in spec0.edges.iter().zip(&bt0.edge_ids) {
        m.edges.insert(id, MEdge { from: bt0.ids[e.a], to: bt0.ids[e.b], directed: e.directed, ty: e.ty, w: e.w.clone(), k: e.k });
    }
    let mut h = HistInfo::default();
    h.ops.push(if spec0.edges.len() <= 40 { format!("generated graph (node i has id i, edge ej has id j): {}", spec_json(&spec0)) } else { format!("generated graph: {} nodes / {} edges (replay to see)", spec0.n, spec0.edges.len()) });
    apply_history(case_seed, &bt0.g, &mut m, &mut h)?;
    h.touched.retain(|v| m.nodes.contains_key(v));
    let (spec, bt) = after_history(bt0.g, &m)?;
    Ok((spec, bt, Some(h), rng))
}

fn current_graph_json(rg: &RG) -> Value {
    let mut nodes: Vec<u64> = rg.nodes.clone();
    nodes.sort_unstable();
    json!({
        "nodes": nodes.iter().map(|n| format!("{}(c={})", n, rg.color.get(n).copied().unwrap_or(-1))).collect::<Vec<_>>(),
        "edges": rg.edges.iter().map(|e| format!("e{}:{}{}{}:{}:w={}:k={}", e.id, e.from, if e.directed { "->" } else { "--" }, e.to, e.ty, e.w, e.k)).collect::<Vec<_>>(),
    })
}

/// a query that fails on an id the current graph does not contain is its own failure class
fn err_sig(api: &str, e: &GraphError, rg: &RG) -> String {
    match e {
        GraphError::EdgeNotFound(id) if rg.edge(*id).is_none() => format!("{}:fails-with-EdgeNotFound-for-an-edge-absent-from-the-current-graph", api),
        GraphError::NodeNotFound(id) if !rg.nodes.contains(id) => format!("{}:fails-with-NodeNotFound-for-a-node-absent-from-the-current-graph", api),
        _ => format!("{}:unexpected-error", api),
    }
}

// ------------------------------------------------------------------------------------------------
// walk validation
// ------------------------------------------------------------------------------------------------

#[derive(Debug, PartialEq)]
enum WalkErr {
    Shape(String),
    UnknownEdge(u64),
    NotBetween(usize),
    Backwards(usize),
    FilteredEdge(usize),
    FilteredNode(usize),
}

/// is (nodes, edges) a walk from `from` to `to` that uses every edge in a direction `dir` permits?
fn check_walk(rg: &RG, nodes: &[u64], edges: &[u64], from: u64, to: u64, dir: Direction, edge_ok: &dyn Fn(&RE) -> bool, node_ok: &dyn Fn(u64) -> bool) -> Result<f64, WalkErr> {
    if nodes.is_empty() || nodes.len() != edges.len() + 1 {
        return Err(WalkErr::Shape(format!("{} nodes, {} edges", nodes.len(), edges.len())));
    }
    if nodes[0] != from || *nodes.last().unwrap() != to {
        return Err(WalkErr::Shape(format!("runs {}..{} instead of {}..{}", nodes[0], nodes.last().unwrap(), from, to)));
    }
    let mut total = 0.0;
    for (i, &eid) in edges.iter().enumerate() {
        let Some(e) = rg.edge(eid) else { return Err(WalkErr::UnknownEdge(eid)) };
        let (u, v) = (nodes[i], nodes[i + 1]);
        let fwd = e.from == u && e.to == v;
        let bwd = e.to == u && e.from == v;
        if !fwd && !bwd {
            return Err(WalkErr::NotBetween(i));
        }
        let ok = if !e.directed {
            true
        } else {
            match dir {
                Direction::Outgoing => fwd,
                Direction::Incoming => bwd,
                Direction::Both => true,
            }
        };
        if !ok {
            return Err(WalkErr::Backwards(i));
        }
        if !edge_ok(e) {
            return Err(WalkErr::FilteredEdge(i));
        }
        if i + 1 < nodes.len() - 1 && !node_ok(v) {
            return Err(WalkErr::FilteredNode(i + 1));
        }
        total += e.w;
    }
    Ok(total)
}

fn walk_sig(api: &str, e: &WalkErr) -> String {
    match e {
        WalkErr::Shape(_) => format!("{}:malformed-path", api),
        WalkErr::UnknownEdge(0) => format!("{}:path-names-edge-id-0", api),
        WalkErr::UnknownEdge(_) => format!("{}:path-names-nonexistent-edge", api),
        WalkErr::NotBetween(_) => format!("{}:edge-does-not-join-consecutive-nodes", api),
        WalkErr::Backwards(_) => format!("{}:directed-edge-used-backwards", api),
        WalkErr::FilteredEdge(_) => format!("{}:filtered-edge-used", api),
        WalkErr::FilteredNode(_) => format!("{}:filtered-node-used", api),
    }
}

// ------------------------------------------------------------------------------------------------
// the case
// ------------------------------------------------------------------------------------------------

struct Ctx<'a> {
    case_seed: u64,
    spec: &'a Spec,
    /// history cases: the operations applied and the graph they left (ids as the engine uses them)
    hist_desc: Option<String>,
    sigs: BTreeSet<String>,
    r: &'a mut Report,
}
impl<'a> Ctx<'a> {
    fn violate(&mut self, sig: String, detail: String) {
        if self.sigs.insert(sig.clone()) {
            match &self.hist_desc {
                None => {
                    let g = if self.spec.edges.len() <= 40 { spec_json(self.spec).to_string() } else { format!("{} nodes / {} edges (replay to see)", self.spec.n, self.spec.edges.len()) };
                    self.r.violation(sig, format!("{} — graph (node i has id i, edge ej has id j): {}", detail, g), json!({"part": "graph", "case_seed": self.case_seed}));
                }
                Some(d) => self.r.violation(sig, format!("{} — {}", detail, d), json!({"part": "history", "case_seed": self.case_seed})),
            }
        }
    }
}

fn dname(d: Direction) -> &'static str {
    match d {
        Direction::Outgoing => "Outgoing",
        Direction::Incoming => "Incoming",
        Direction::Both => "Both",
    }
}

fn astar_cfg(dir: Direction, ty: Option<&str>) -> AStarConfig {
    let mut c = AStarConfig::new().weight_property("w").direction(dir);
    if let Some(t) = ty {
        c = c.edge_type(t);
    }
    c
}

/// run astar on a transformed copy of the graph and say whether it is optimal there
fn astar_ok_on(spec: &Spec, a: usize, b: usize, dir: Direction, ty: Option<&str>) -> Option<bool> {
    let bt = build(spec).ok()?;
    let (from, to) = (bt.ids[a], bt.ids[b]);
    let pred = |e: &RE| ty.map_or(true, |t| e.ty == t);
    let arcs = bt.rg.arcs(dir, &pred);
    let want = bellman_ford(&arcs, &bt.rg.nodes, from).get(&to).copied();
    let res = bt.g.astar_path(from, to, &astar_cfg(dir, ty)).ok()?;
    Some(match (res.path, want) {
        (None, None) => true,
        (Some(p), Some(w)) => check_walk(&bt.rg, &p.nodes, &p.edges, from, to, dir, &pred, &|_| true).map_or(false, |s| close(s, w) && close(p.total_weight, w)),
        _ => false,
    })
}

fn has_zero_cycle_risk(rg: &RG) -> bool {
    // any usable step of weight ~0 between two nodes can put a cycle into equal-cost parent lists
    rg.edges.iter().any(|e| e.w.abs() < 1e-9)
}

fn graph_case(case_seed: u64, r: &mut Report, exe: &std::path::Path) {
    graph_case_mode(case_seed, r, exe, false)
}

/// hist = false: the generated graph in a fresh engine; hist = true: the same battery of queries on the
/// graph that a random operation history (see apply_history) left in the engine
fn graph_case_mode(case_seed: u64, r: &mut Report, exe: &std::path::Path, hist: bool) {
    let mut lap_t = Instant::now();
    let (spec, bt, hinfo, mut rng) = match make_case(case_seed, hist, GraphEngine::new()) {
        Ok(x) => x,
        Err(e) => {
            // storing/listing the graph is C05's subject; without a trusted edge list nothing can be judged here
            r.inconclusive(&format!("graph build/read-back failed: {}", first_line(&e)));
            return;
        }
    };
    let (g, ids, rg) = (&bt.g, &bt.ids, &bt.rg);
    let n = spec.n;
    let hist_desc = hinfo.as_ref().map(|h| {
        let cur = if rg.edges.len() <= 60 { current_graph_json(rg).to_string() } else { format!("{} nodes / {} edges (replay to see)", rg.nodes.len(), rg.edges.len()) };
        format!("operation history: {}; current graph (ids as the engine uses them): {}", h.ops.join("; "), cur)
    });
    let touched: BTreeSet<u64> = hinfo.as_ref().map(|h| h.touched.clone()).unwrap_or_default();
    let mut from_touched = 0u64;
    let mut cx = Ctx { case_seed, spec: &spec, hist_desc, sigs: BTreeSet::new(), r };
    let all = |_: &RE| true;
    let any_node = |_: u64| true;
    let arcs_out = rg.arcs(Direction::Outgoing, &all);

    cx.r.count("time_us_build", lap_t.elapsed().as_micros() as u64);
    lap_t = Instant::now();
    // ---------------- pairs
    let mut pairs: Vec<(usize, usize)> = Vec::new();
    if n <= 8 {
        for a in 0..n {
            for b in 0..n {
                pairs.push((a, b));
            }
        }
    } else {
        for _ in 0..28 {
            pairs.push((rng.below(n), rng.below(n)));
        }
    }
    let mut reachable_pairs = 0u64;
    let mut far_pairs = 0u64;
    let zero_risk = has_zero_cycle_risk(rg);
    let mut bf_cache: HashMap<u64, HashMap<u64, f64>> = HashMap::new();
    let mut bfs_cache: HashMap<u64, HashMap<u64, usize>> = HashMap::new();
    for &(a, b) in &pairs {
        let (from, to) = (ids[a], ids[b]);
        let hops = bfs_cache.entry(from).or_insert_with(|| bfs_dist(&arcs_out, from, &any_node)).get(&to).copied();
        let wdist = bf_cache.entry(from).or_insert_with(|| bellman_ford(&arcs_out, &rg.nodes, from)).get(&to).copied();
        if touched.contains(&from) && a != b {
            from_touched += 1;
        }
        if hops.is_some() && a != b {
            reachable_pairs += 1;
            if hops.unwrap() >= 2 {
                far_pairs += 1;
            }
        }
        // ---- find_path
        cx.r.count("q_find_path", 1);
        match g.find_path(from, to, None) {
            Ok(p) => match check_walk(rg, &p.nodes, &p.edges, from, to, Direction::Outgoing, &all, &any_node) {
                Err(e) => cx.violate(walk_sig("find_path", &e), format!("find_path({},{}) = nodes {:?} edges {:?}: {:?}; reference BFS distance respecting direction: {:?}", from, to, p.nodes, p.edges, e, hops)),
                Ok(_) => {
                    if Some(p.edges.len()) != hops {
                        cx.violate("find_path:not-fewest-hops".into(), format!("find_path({},{}) has {} hops, reference BFS finds {:?}", from, to, p.edges.len(), hops));
                    }
                }
            },
            Err(GraphError::PathNotFound) => {
                if let Some(h) = hops {
                    cx.violate("find_path:path-not-found-but-one-exists".into(), format!("find_path({},{}) = PathNotFound, reference finds a {}-hop path", from, to, h));
                }
            }
            Err(e) => cx.violate(err_sig("find_path", &e, rg), format!("find_path({},{}) = Err({})", from, to, e)),
        }
        // ---- find_weighted_path
        cx.r.count("q_find_weighted_path", 1);
        match g.find_weighted_path(from, to, "w") {
            Ok(p) => match check_walk(rg, &p.nodes, &p.edges, from, to, Direction::Outgoing, &all, &any_node) {
                Err(e) => cx.violate(walk_sig("find_weighted_path", &e), format!("find_weighted_path({},{}) = nodes {:?} edges {:?}: {:?}", from, to, p.nodes, p.edges, e)),
                Ok(sum) => {
                    if !close(sum, p.total_weight) {
                        cx.violate("find_weighted_path:total-weight-is-not-sum-of-edges".into(), format!("find_weighted_path({},{}) reports total {} but its edges {:?} sum to {}", from, to, p.total_weight, p.edges, sum));
                    } else if wdist.map_or(true, |w| !close(w, sum)) {
                        cx.violate("find_weighted_path:not-lowest-weight".into(), format!("find_weighted_path({},{}) weight {} via {:?}, reference Bellman-Ford distance {:?}", from, to, sum, p.edges, wdist));
                    }
                }
            },
            Err(GraphError::PathNotFound) => {
                if wdist.is_some() {
                    cx.violate("find_weighted_path:path-not-found-but-one-exists".into(), format!("find_weighted_path({},{}) = PathNotFound, reference distance {:?}", from, to, wdist));
                }
            }
            Err(e) => cx.violate(err_sig("find_weighted_path", &e, rg), format!("find_weighted_path({},{}) = Err({})", from, to, e)),
        }
        // ---- find_all_paths
        cx.r.count("q_find_all_paths", 1);
        match g.find_all_paths(from, to, Some(AllPathsConfig { max_paths: 5000, max_parents_per_node: 1000 })) {
            Ok(ap) => {
                if Some(ap.hop_count) != hops {
                    cx.violate("find_all_paths:hop-count-not-minimal".into(), format!("find_all_paths({},{}).hop_count = {}, reference BFS {:?}", from, to, ap.hop_count, hops));
                } else {
                    let mut got: BTreeSet<PathKey> = BTreeSet::new();
                    let mut bad = false;
                    for p in &ap.paths {
                        match check_walk(rg, &p.nodes, &p.edges, from, to, Direction::Outgoing, &all, &any_node) {
                            Err(e) => {
                                cx.violate(walk_sig("find_all_paths", &e), format!("find_all_paths({},{}) contains nodes {:?} edges {:?}: {:?}", from, to, p.nodes, p.edges, e));
                                bad = true;
                            }
                            Ok(_) if p.edges.len() != ap.hop_count => {
                                cx.violate("find_all_paths:path-longer-than-hop-count".into(), format!("find_all_paths({},{}) hop_count {} but lists a {}-hop path", from, to, ap.hop_count, p.edges.len()));
                                bad = true;
                            }
                            Ok(_) => {
                                got.insert((p.nodes.clone(), p.edges.clone()));
                            }
                        }
                    }
                    if !bad {
                        if let Some(want) = ref_var_paths(&arcs_out, from, to, ap.hop_count, ap.hop_count, true, &any_node, 4000) {
                            // walks of minimal length are automatically simple
                            if want != got {
                                cx.violate(
                                    "find_all_paths:set-of-shortest-paths-differs".into(),
                                    format!("find_all_paths({},{}) lists {} shortest paths, reference enumerates {}: missing {:?}, extra {:?}", from, to, got.len(), want.len(), want.difference(&got).take(3).collect::<Vec<_>>(), got.difference(&want).take(3).collect::<Vec<_>>()),
                                );
                            }
                        }
                    }
                }
            }
            Err(GraphError::PathNotFound) => {
                if hops.is_some() {
                    cx.violate("find_all_paths:path-not-found-but-one-exists".into(), format!("find_all_paths({},{}) = PathNotFound, reference BFS {:?}", from, to, hops));
                }
            }
            Err(e) => cx.violate(err_sig("find_all_paths", &e, rg), format!("find_all_paths({},{}) = Err({})", from, to, e)),
        }
        // ---- find_all_weighted_paths (in-process only when no zero-weight step exists)
        if !zero_risk {
            cx.r.count("q_find_all_weighted_paths", 1);
            match g.find_all_weighted_paths(from, to, "w", None) {
                Ok(ap) => {
                    if wdist.map_or(true, |w| !close(w, ap.total_weight)) {
                        cx.violate("find_all_weighted_paths:not-lowest-weight".into(), format!("find_all_weighted_paths({},{}).total_weight = {}, reference {:?}", from, to, ap.total_weight, wdist));
                    } else {
                        if ap.paths.is_empty() {
                            cx.violate("find_all_weighted_paths:no-path-listed".into(), format!("find_all_weighted_paths({},{}) reports weight {} but lists no path", from, to, ap.total_weight));
                        }
                        for p in &ap.paths {
                            match check_walk(rg, &p.nodes, &p.edges, from, to, Direction::Outgoing, &all, &any_node) {
                                Err(e) => cx.violate(walk_sig("find_all_weighted_paths", &e), format!("find_all_weighted_paths({},{}) contains nodes {:?} edges {:?}: {:?}", from, to, p.nodes, p.edges, e)),
                                Ok(sum) if !close(sum, ap.total_weight) => cx.violate(
                                    "find_all_weighted_paths:listed-path-not-minimal".into(),
                                    format!("find_all_weighted_paths({},{}) total {} but lists edges {:?} summing to {}", from, to, ap.total_weight, p.edges, sum),
                                ),
                                Ok(_) => {}
                            }
                        }
                    }
                }
                Err(GraphError::PathNotFound) => {
                    if wdist.is_some() {
                        cx.violate("find_all_weighted_paths:path-not-found-but-one-exists".into(), format!("find_all_weighted_paths({},{}) = PathNotFound, reference {:?}", from, to, wdist));
                    }
                }
                Err(e) => cx.violate(err_sig("find_all_weighted_paths", &e, rg), format!("find_all_weighted_paths({},{}) = Err({})", from, to, e)),
            }
        }
        // ---- astar_path, default (zero) heuristic
        let (dir, ty) = match rng.below(8) {
            0 => (Direction::Incoming, None),
            1 => (Direction::Both, None),
            2 => (Direction::Outgoing, Some(TYPES[rng.below(3)])),
            _ => (Direction::Outgoing, None),
        };
        let pred = |e: &RE| ty.map_or(true, |t| e.ty == t);
        let want = if dir == Direction::Outgoing && ty.is_none() { wdist } else { bellman_ford(&rg.arcs(dir, &pred), &rg.nodes, from).get(&to).copied() };
        cx.r.count("q_astar_path", 1);
        match g.astar_path(from, to, &astar_cfg(dir, ty)) {
            Ok(res) => {
                let verdict: Option<(String, String)> = match (&res.path, want) {
                    (None, None) => None,
                    (None, Some(w)) => Some(("path-not-found-but-one-exists".into(), format!("no path returned, reference distance {}", w))),
                    (Some(p), w) => match check_walk(rg, &p.nodes, &p.edges, from, to, dir, &pred, &any_node) {
                        Err(e) => Some((walk_sig("", &e).trim_start_matches(':').to_string(), format!("nodes {:?} edges {:?} total {}: {:?}; reference distance {:?}", p.nodes, p.edges, p.total_weight, e, w))),
                        Ok(sum) => {
                            if !close(sum, p.total_weight) {
                                Some(("total-weight-is-not-sum-of-edges".into(), format!("reports total {} but edges {:?} sum to {}; reference {:?}", p.total_weight, p.edges, sum, w)))
                            } else if w.map_or(true, |w| !close(w, sum)) {
                                Some(("not-lowest-weight".into(), format!("weight {} via nodes {:?} edges {:?}, reference distance {:?}", sum, p.nodes, p.edges, w)))
                            } else {
                                None
                            }
                        }
                    },
                };
                if let Some((kind, what)) = verdict {
                    // differential classification on semantically equivalent graphs (real code again)
                    let oriented = match dir {
                        Direction::Outgoing => split_undirected(&spec),
                        Direction::Incoming => split_undirected(&spec),
                        Direction::Both => both_ways(&spec),
                    };
                    let names_id0 = res.path.as_ref().map_or(false, |p| p.edges.contains(&0));
                    let class = if names_id0 || astar_ok_on(&oriented, a, b, dir, ty) == Some(true) {
                        // the (weight, edge id) lookup found no edge although neighbors() offered the step
                        "edge-entered-against-stored-orientation-gets-id0-default-weight".to_string()
                    } else if astar_ok_on(&merge_parallel_min(&oriented, ty), a, b, dir, ty) == Some(true) {
                        "parallel-edges-first-listed-weight-used".to_string()
                    } else {
                        kind.clone()
                    };
                    cx.violate(
                        format!("astar_path:{}", class),
                        format!("astar_path({},{}, direction {}, edge_type {:?}, zero heuristic): [{}] {}", from, to, dname(dir), ty, kind, what),
                    );
                }
            }
            Err(e) => cx.violate(err_sig("astar_path", &e, rg), format!("astar_path({},{}) = Err({})", from, to, e)),
        }
    }

    cx.r.count("time_us_pairs", lap_t.elapsed().as_micros() as u64);
    lap_t = Instant::now();
    // ---------------- filtered find_path (both endpoints satisfy the node filter, so it applies to every node)
    for _ in 0..4.min(n) {
        let use_node = rng.bool();
        let use_edge = !use_node || rng.bool();
        let col = rng.below(3) as i64;
        let kk = rng.below(3) as i64;
        let ne = rng.bool();
        let mut f = TraversalFilter::new();
        if use_node {
            f = f.node_ne("c", PropertyValue::Int(col));
        }
        if use_edge {
            f = if ne { f.edge_ne("k", PropertyValue::Int(kk)) } else { f.edge_eq("k", PropertyValue::Int(kk)) };
        }
        let node_ok = |v: u64| !use_node || rg.color.get(&v).copied() != Some(col);
        let edge_ok = |e: &RE| !use_edge || if ne { e.k != kk } else { e.k == kk };
        let cands: Vec<u64> = rg.nodes.iter().copied().filter(|&v| node_ok(v)).collect();
        if cands.len() < 2 {
            continue;
        }
        let arcs = rg.arcs(Direction::Outgoing, &edge_ok);
        for _ in 0..6 {
            let from = cands[rng.below(cands.len())];
            let to = cands[rng.below(cands.len())];
            let hops = bfs_dist(&arcs, from, &node_ok).get(&to).copied();
            cx.r.count("q_find_path_filtered", 1);
            let what = format!("find_path({},{}, filter node c!={} [{}] edge k{}{} [{}])", from, to, col, use_node, if ne { "!=" } else { "==" }, kk, use_edge);
            match g.find_path(from, to, Some(&f)) {
                Ok(p) => match check_walk(rg, &p.nodes, &p.edges, from, to, Direction::Outgoing, &edge_ok, &node_ok) {
                    Err(e) => cx.violate(walk_sig("find_path", &e), format!("{} = nodes {:?} edges {:?}: {:?}; reference {:?}", what, p.nodes, p.edges, e, hops)),
                    Ok(_) if Some(p.edges.len()) != hops => cx.violate("find_path:not-fewest-hops".into(), format!("{} has {} hops, reference {:?}", what, p.edges.len(), hops)),
                    Ok(_) => {}
                },
                Err(GraphError::PathNotFound) => {
                    if hops.is_some() {
                        cx.violate("find_path:path-not-found-but-one-exists".into(), format!("{} = PathNotFound, reference {:?}", what, hops));
                    }
                }
                Err(e) => cx.violate(err_sig("find_path", &e, rg), format!("{} = Err({})", what, e)),
            }
        }
    }

    cx.r.count("time_us_filtered", lap_t.elapsed().as_micros() as u64);
    lap_t = Instant::now();
    // ---------------- traverse and neighbors
    for _ in 0..6 {
        let start = ids[rng.below(n)];
        let dir = [Direction::Outgoing, Direction::Incoming, Direction::Both][rng.below(3)];
        let depth = rng.below(5);
        let ty = if rng.chance(1, 3) { Some(TYPES[rng.below(3)]) } else { None };
        let kk = rng.below(3) as i64;
        let use_edge = rng.chance(1, 3);
        let f = TraversalFilter::new().edge_ne("k", PropertyValue::Int(kk));
        let pred = |e: &RE| ty.map_or(true, |t| e.ty == t) && (!use_edge || e.k != kk);
        let arcs = rg.arcs(dir, &pred);
        let want: BTreeSet<u64> = bfs_dist(&arcs, start, &any_node).into_iter().filter(|(_, d)| *d <= depth).map(|(v, _)| v).collect();
        cx.r.count("q_traverse", 1);
        match g.traverse(start, dir, depth, ty, if use_edge { Some(&f) } else { None }) {
            Ok(v) => {
                let got: BTreeSet<u64> = v.iter().map(|x| x.id).collect();
                if got.len() != v.len() {
                    cx.violate("traverse:node-listed-twice".into(), format!("traverse({}, {}, depth {}, {:?}) = {:?}", start, dname(dir), depth, ty, v.iter().map(|x| x.id).collect::<Vec<_>>()));
                } else if got != want {
                    cx.violate("traverse:node-set-differs".into(), format!("traverse({}, {}, depth {}, type {:?}, edge k!={} [{}]) = {:?}, reference BFS within {} hops {:?}", start, dname(dir), depth, ty, kk, use_edge, got, depth, want));
                }
            }
            Err(e) => cx.violate(err_sig("traverse", &e, rg), format!("traverse({}) = Err({})", start, e)),
        }
        let want1: BTreeSet<u64> = arcs.iter().filter(|(a, _)| a.u == start && a.v != start).map(|(a, _)| a.v).collect();
        cx.r.count("q_neighbors", 1);
        match g.neighbors(start, ty, dir, if use_edge { Some(&f) } else { None }) {
            Ok(v) => {
                let mut got: BTreeSet<u64> = v.iter().map(|x| x.id).collect();
                got.remove(&start);
                if got != want1 {
                    cx.violate("neighbors:set-differs".into(), format!("neighbors({}, {:?}, {}, edge k!={} [{}]) = {:?}, edge list implies {:?}", start, ty, dname(dir), kk, use_edge, got, want1));
                }
            }
            Err(e) => cx.violate(err_sig("neighbors", &e, rg), format!("neighbors({}) = Err({})", start, e)),
        }
    }

    cx.r.count("time_us_traverse", lap_t.elapsed().as_micros() as u64);
    lap_t = Instant::now();
    // ---------------- find_variable_paths
    let var_rounds = if spec.edges.len() <= 40 { 8 } else { 3 };
    for _ in 0..var_rounds {
        let from = ids[rng.below(n)];
        let to = if rng.chance(1, 6) { from } else { ids[rng.below(n)] };
        let dir = [Direction::Outgoing, Direction::Outgoing, Direction::Incoming, Direction::Both][rng.below(4)];
        let dense = spec.edges.len() > 2 * n;
        let allow_cycles = rng.chance(1, 4);
        let max = if allow_cycles || dense { rng.below(4) } else { rng.below(6) };
        let min = rng.below(max + 2).min(max + 1);
        let tys: Option<Vec<&str>> = match rng.below(4) {
            0 => Some(vec![TYPES[rng.below(3)]]),
            1 => Some(vec![TYPES[0], TYPES[1 + rng.below(2)]]),
            _ => None,
        };
        let use_edge = rng.chance(1, 4);
        let use_node = !allow_cycles && rng.chance(1, 4);
        let kk = rng.below(3) as i64;
        let col = rng.below(3) as i64;
        let node_ok = |v: u64| !use_node || rg.color.get(&v).copied() != Some(col);
        if use_node && (!node_ok(from) || !node_ok(to)) {
            continue; // keep endpoint semantics out of the verdict
        }
        let pred = |e: &RE| tys.as_ref().map_or(true, |t| t.contains(&e.ty.as_str())) && (!use_edge || e.k == kk);
        let arcs = rg.arcs(dir, &pred);
        let Some(want) = ref_var_paths(&arcs, from, to, min, max, allow_cycles, &node_ok, 3000) else {
            cx.r.count("var_reference_too_many_paths", 1);
            continue;
        };
        let mut cfg = VariableLengthConfig::with_hops(min, max).direction(dir).allow_cycles(allow_cycles).max_paths(100_000);
        if let Some(t) = &tys {
            cfg = cfg.edge_types(t);
        }
        if use_edge || use_node {
            let mut f = TraversalFilter::new();
            if use_edge {
                f = f.edge_eq("k", PropertyValue::Int(kk));
            }
            if use_node {
                f = f.node_ne("c", PropertyValue::Int(col));
            }
            cfg = cfg.with_filter(f);
        }
        cx.r.count("q_find_variable_paths", 1);
        let what = format!("find_variable_paths({},{}, hops {}..={}, {}, types {:?}, allow_cycles {}, edge k=={} [{}], node c!={} [{}])", from, to, min, max, dname(dir), tys, allow_cycles, kk, use_edge, col, use_node);
        match g.find_variable_paths(from, to, cfg) {
            Ok(res) => {
                if res.stats.truncated {
                    cx.r.count("var_truncated", 1);
                    continue;
                }
                let mut got: BTreeSet<PathKey> = BTreeSet::new();
                let mut bad = false;
                for p in &res.paths {
                    match check_walk(rg, &p.nodes, &p.edges, from, to, dir, &pred, &node_ok) {
                        Err(e) => {
                            cx.violate(walk_sig("find_variable_paths", &e), format!("{} contains nodes {:?} edges {:?}: {:?}", what, p.nodes, p.edges, e));
                            bad = true;
                        }
                        Ok(_) => {
                            got.insert((p.nodes.clone(), p.edges.clone()));
                        }
                    }
                }
                if !bad && got != want {
                    let missing: Vec<_> = want.difference(&got).take(3).collect();
                    let extra: Vec<_> = got.difference(&want).take(3).collect();
                    let sig = if !extra.is_empty() && extra.iter().any(|p| p.1.len() < min || p.1.len() > max) {
                        "find_variable_paths:path-outside-hop-bounds"
                    } else if !missing.is_empty() {
                        "find_variable_paths:qualifying-path-missing"
                    } else {
                        "find_variable_paths:unexpected-path"
                    };
                    cx.violate(sig.into(), format!("{} returns {} distinct paths, reference enumerates {}: missing {:?}, extra {:?}", what, got.len(), want.len(), missing, extra));
                }
            }
            Err(e) => cx.violate(err_sig("find_variable_paths", &e, rg), format!("{} = Err({})", what, e)),
        }
    }

    cx.r.count("time_us_varpaths", lap_t.elapsed().as_micros() as u64);
    lap_t = Instant::now();
    // ---------------- whole-graph algorithms (optionally restricted to one edge type)
    for round in 0..2 {
        let ty: Option<&str> = if round == 0 { None } else { Some(TYPES[rng.below(3)]) };
        let pred = |e: &RE| ty.map_or(true, |t| e.ty == t);
        let tag = format!("edge_type {:?}", ty);
        // SCC (directed view)
        let arcs = rg.arcs(Direction::Outgoing, &pred);
        let want_scc = mutual_reach_partition(&arcs, &rg.nodes);
        let mut cfg = SccConfig::new().with_condensation();
        if let Some(t) = ty {
            cfg = cfg.edge_type(t);
        }
        cx.r.count("q_scc", 1);
        match g.strongly_connected_components(&cfg) {
            Ok(res) => {
                let got: BTreeSet<BTreeSet<u64>> = res.members.iter().map(|m| m.iter().copied().collect()).collect();
                let listed: usize = res.members.iter().map(|m| m.len()).sum();
                if got != want_scc || listed != rg.nodes.len() || res.component_count != want_scc.len() {
                    cx.violate("scc:partition-differs".into(), format!("strongly_connected_components({}) = {:?} (count {}), mutual reachability gives {:?}", tag, got, res.component_count, want_scc));
                } else {
                    let comp_ok = res.components.iter().all(|(n, &c)| res.members.get(c).map_or(false, |m| m.contains(n)));
                    // condensation: exactly the inter-component arcs, and a topological order of them
                    let want_edges: BTreeSet<(usize, usize)> =
                        arcs.iter().filter_map(|(a, _)| Some((*res.components.get(&a.u)?, *res.components.get(&a.v)?))).filter(|(x, y)| x != y).collect();
                    let got_edges: BTreeSet<(usize, usize)> = res.condensation_edges.iter().copied().collect();
                    let pos: HashMap<usize, usize> = res.topological_order.iter().enumerate().map(|(i, &c)| (c, i)).collect();
                    let topo_ok = pos.len() == res.component_count && res.topological_order.len() == res.component_count && got_edges.iter().all(|(x, y)| pos.get(x) < pos.get(y));
                    if !comp_ok || want_edges != got_edges || !topo_ok {
                        cx.violate("scc:condensation-differs".into(), format!("SCC({}) members {:?}: components map consistent {}, condensation edges {:?} (expected {:?}), topological order {:?} valid {}", tag, res.members, comp_ok, got_edges, want_edges, res.topological_order, topo_ok));
                    }
                }
            }
            Err(e) => cx.violate(err_sig("scc", &e, rg), format!("strongly_connected_components = Err({})", e)),
        }
        // simple undirected view
        let adj = simple_adj(rg, &pred);
        // weakly connected components
        if round == 0 || true {
            let arcs_both = rg.arcs(Direction::Both, &pred);
            let want_cc = mutual_reach_partition(&arcs_both, &rg.nodes);
            let mut cfg = graph_engine::CommunityConfig::new();
            if let Some(t) = ty {
                cfg = cfg.edge_type(t);
            }
            cx.r.count("q_connected_components", 1);
            match g.connected_components(Some(cfg)) {
                Ok(res) => {
                    let got: BTreeSet<BTreeSet<u64>> = res.members.values().map(|m| m.iter().copied().collect()).collect();
                    if got != want_cc || res.community_count != want_cc.len() {
                        cx.violate("connected_components:partition-differs".into(), format!("connected_components({}) = {:?}, reference {:?}", tag, got, want_cc));
                    }
                }
                Err(e) => cx.violate(err_sig("connected_components", &e, rg), format!("Err({})", e)),
            }
        }
        // k-core
        let want_core = core_numbers(&adj);
        let mut cfg = KCoreConfig::new().undirected();
        if let Some(t) = ty {
            cfg = cfg.edge_type(t);
        }
        cx.r.count("q_kcore", 1);
        match g.kcore_decomposition(&cfg) {
            Ok(res) => {
                let got: BTreeMap<u64, usize> = res.core_numbers.iter().map(|(&k, &v)| (k, v)).collect();
                if got != want_core || res.degeneracy != want_core.values().copied().max().unwrap_or(0) {
                    cx.violate("kcore:core-numbers-differ".into(), format!("kcore_decomposition({}) = {:?} degeneracy {}, peeling reference {:?}", tag, got, res.degeneracy, want_core));
                }
            }
            Err(e) => cx.violate(err_sig("kcore", &e, rg), format!("Err({})", e)),
        }
        // triangles
        let nodes_sorted: Vec<u64> = adj.keys().copied().collect();
        let mut want_tri = 0usize;
        let mut want_node_tri: BTreeMap<u64, usize> = nodes_sorted.iter().map(|&v| (v, 0)).collect();
        for (i, &a) in nodes_sorted.iter().enumerate() {
            for (j, &b) in nodes_sorted.iter().enumerate().skip(i + 1) {
                if !adj[&a].contains(&b) {
                    continue;
                }
                for &c in nodes_sorted.iter().skip(j + 1) {
                    if adj[&a].contains(&c) && adj[&b].contains(&c) {
                        want_tri += 1;
                        for v in [a, b, c] {
                            *want_node_tri.get_mut(&v).unwrap() += 1;
                        }
                    }
                }
            }
        }
        let mut cfg = TriangleConfig::new().undirected();
        if let Some(t) = ty {
            cfg = cfg.edge_type(t);
        }
        cx.r.count("q_triangles", 1);
        match g.count_triangles(&cfg) {
            Ok(res) => {
                let got_nodes: BTreeMap<u64, usize> = res.node_triangles.iter().map(|(&k, &v)| (k, v)).collect();
                if res.triangle_count != want_tri {
                    cx.violate("count_triangles:undirected-total-differs".into(), format!("count_triangles(undirected, {}).triangle_count = {}, the simple undirected graph {:?} has {}", tag, res.triangle_count, adj, want_tri));
                } else if got_nodes != want_node_tri {
                    cx.violate("count_triangles:undirected-per-node-differs".into(), format!("count_triangles(undirected, {}).node_triangles = {:?}, reference {:?}", tag, got_nodes, want_node_tri));
                } else {
                    // clustering coefficients follow from the counts
                    let triplets: usize = adj.values().map(|s| s.len() * s.len().saturating_sub(1) / 2).sum();
                    let want_global = if triplets > 0 { 3.0 * want_tri as f64 / triplets as f64 } else { 0.0 };
                    if !close(res.global_clustering, want_global) {
                        cx.violate("count_triangles:global-clustering-differs".into(), format!("global_clustering = {}, 3T/triplets = {}", res.global_clustering, want_global));
                    }
                }
            }
            Err(e) => cx.violate(err_sig("count_triangles", &e, rg), format!("Err({})", e)),
        }
        if n > 0 {
            let v = ids[rng.below(n)];
            let nb: Vec<u64> = adj[&v].iter().copied().collect();
            let d = nb.len();
            let mut links = 0usize;
            for i in 0..d {
                for j in i + 1..d {
                    if adj[&nb[i]].contains(&nb[j]) {
                        links += 1;
                    }
                }
            }
            let want = if d < 2 { 0.0 } else { links as f64 / (d * (d - 1) / 2) as f64 };
            cx.r.count("q_local_clustering", 1);
            match g.local_clustering_coefficient(v, &cfg) {
                Ok(x) if close(x, want) => {}
                Ok(x) => cx.violate("local_clustering_coefficient:differs".into(), format!("local_clustering_coefficient({}, undirected, {}) = {}, reference {} ({} links among {} neighbours)", v, tag, x, want, links, d)),
                Err(e) => cx.violate(err_sig("local_clustering_coefficient", &e, rg), format!("Err({})", e)),
            }
        }
        // articulation points, bridges, blocks
        let base = count_components(&adj, None, None);
        let want_ap: BTreeSet<u64> = adj.keys().copied().filter(|&v| count_components(&adj, Some(v), None) > base).collect();
        let mut want_br: BTreeSet<(u64, u64)> = BTreeSet::new();
        for (&u, vs) in &adj {
            for &v in vs {
                if u < v && count_components(&adj, None, Some((u, v))) > base {
                    want_br.insert((u, v));
                }
            }
        }
        let mut cfg = BiconnectedConfig::new();
        if let Some(t) = ty {
            cfg = cfg.edge_type(t);
        }
        cx.r.count("q_biconnected", 1);
        match g.biconnected_components(&cfg) {
            Ok(res) => {
                let got_ap: BTreeSet<u64> = res.articulation_points.iter().copied().collect();
                let got_br: BTreeSet<(u64, u64)> = res.bridges.iter().map(|&(a, b)| (a.min(b), a.max(b))).collect();
                if got_ap != want_ap {
                    cx.violate("biconnected:articulation-points-differ".into(), format!("articulation_points({}) = {:?}, removing each vertex of {:?} in turn gives {:?}", tag, got_ap, adj, want_ap));
                }
                if got_br != want_br || got_br.len() != res.bridges.len() {
                    cx.violate("biconnected:bridges-differ".into(), format!("bridges({}) = {:?}, removing each edge of {:?} in turn gives {:?}", tag, res.bridges, adj, want_br));
                }
                if n <= 10 {
                    let want_blocks = blocks(&adj);
                    let got_blocks: BTreeSet<BTreeSet<(u64, u64)>> = res.components.iter().map(|c| c.iter().map(|&(a, b)| (a.min(b), a.max(b))).collect()).collect();
                    if got_blocks != want_blocks || res.component_count != want_blocks.len() {
                        let all_edges: BTreeSet<(u64, u64)> = want_blocks.iter().flatten().copied().collect();
                        let got_union: BTreeSet<(u64, u64)> = got_blocks.iter().flatten().copied().collect();
                        let sig = if got_union != all_edges {
                            "biconnected:components-miss-edges"
                        } else if got_blocks.iter().all(|gb| want_blocks.iter().all(|wb| wb.is_subset(gb) || wb.is_disjoint(gb))) {
                            "biconnected:components-of-separate-blocks-merged"
                        } else {
                            "biconnected:components-differ"
                        };
                        cx.violate(sig.into(), format!("biconnected_components({}) = {:?} (count {}), the blocks of {:?} are {:?}; edges in no reported component: {:?}", tag, got_blocks, res.component_count, adj, want_blocks, all_edges.difference(&got_union).collect::<Vec<_>>()));
                    }
                }
            }
            Err(e) => cx.violate(err_sig("biconnected", &e, rg), format!("Err({})", e)),
        }
        // MST (no edge-type switch in MstConfig: whole graph only)
        if round == 0 {
            // Prim on the lightest edge between each pair
            let mut wmin: HashMap<(u64, u64), f64> = HashMap::new();
            for e in &rg.edges {
                if e.from != e.to {
                    let k = (e.from.min(e.to), e.from.max(e.to));
                    let x = wmin.entry(k).or_insert(f64::INFINITY);
                    if e.w < *x {
                        *x = e.w;
                    }
                }
            }
            let mut in_tree: BTreeSet<u64> = BTreeSet::new();
            let mut want_w = 0.0;
            let mut trees = 0usize;
            for &s in &rg.nodes {
                if in_tree.contains(&s) {
                    continue;
                }
                trees += 1;
                in_tree.insert(s);
                loop {
                    let mut best: Option<(f64, u64)> = None;
                    for (&(a, b), &w) in &wmin {
                        let cand = if in_tree.contains(&a) && !in_tree.contains(&b) {
                            Some(b)
                        } else if in_tree.contains(&b) && !in_tree.contains(&a) {
                            Some(a)
                        } else {
                            None
                        };
                        if let Some(v) = cand {
                            if best.map_or(true, |(bw, bv)| w < bw || (w == bw && v < bv)) {
                                best = Some((w, v));
                            }
                        }
                    }
                    match best {
                        Some((w, v)) => {
                            want_w += w;
                            in_tree.insert(v);
                        }
                        None => break,
                    }
                }
            }
            cx.r.count("q_mst", 1);
            match g.minimum_spanning_tree(&MstConfig::new("w")) {
                Ok(res) => {
                    let mut sum = 0.0;
                    let mut ok_edges = true;
                    let mut uf: HashMap<u64, u64> = rg.nodes.iter().map(|&v| (v, v)).collect();
                    fn find(uf: &mut HashMap<u64, u64>, x: u64) -> u64 {
                        let p = uf[&x];
                        if p == x {
                            x
                        } else {
                            let r = find(uf, p);
                            uf.insert(x, r);
                            r
                        }
                    }
                    let mut acyclic = true;
                    for me in &res.edges {
                        match rg.edge(me.edge_id) {
                            Some(e) if e.from == me.from && e.to == me.to && close(e.w, me.weight) => {
                                sum += e.w;
                                let (ra, rb) = (find(&mut uf, e.from), find(&mut uf, e.to));
                                if ra == rb {
                                    acyclic = false;
                                }
                                uf.insert(ra, rb);
                            }
                            _ => ok_edges = false,
                        }
                    }
                    let spanning = res.edges.len() + trees == rg.nodes.len();
                    if !ok_edges || !acyclic || !spanning || res.tree_count != trees || !close(sum, want_w) || !close(res.total_weight, want_w) {
                        cx.violate(
                            "mst:not-a-minimum-spanning-forest".into(),
                            format!("minimum_spanning_tree: {} edges total {} (sum of its edges {}), tree_count {}; reference Prim weight {} with {} trees; edges real {}, acyclic {}, spanning {}", res.edges.len(), res.total_weight, sum, res.tree_count, want_w, trees, ok_edges, acyclic, spanning),
                        );
                    }
                }
                Err(e) => cx.violate(err_sig("mst", &e, rg), format!("Err({})", e)),
            }
        }
    }

    cx.r.count("time_us_algos", lap_t.elapsed().as_micros() as u64);
    lap_t = Instant::now();
    // ---------------- pattern matching (fixed and variable-length edge patterns)
    let dense = spec.edges.len() > 2 * n;
    let triangle = has_triangle(rg);
    pattern_queries(&mut cx, g, rg, &mut rng, 4, dense, false);
    if n >= 3 && rng.chance(1, 4) {
        // same graph in an engine that scans start candidates in parallel (threshold 2 instead of 100)
        match make_case(case_seed, hist, GraphEngine::with_config(GraphEngineConfig::new().pattern_parallel_threshold(2))).map(|x| x.1) {
            Ok(bp) if bp.ids == *ids && bp.rg.edges.iter().map(|e| e.id).eq(rg.edges.iter().map(|e| e.id)) => pattern_queries(&mut cx, &bp.g, rg, &mut rng, 2, dense, true),
            _ => cx.r.inconclusive("second engine (parallel pattern scan) could not be built identically"),
        }
    }
    cx.r.count("time_us_patterns", lap_t.elapsed().as_micros() as u64);
    lap_t = Instant::now();
    // ---------------- find_all_weighted_paths with zero-weight steps: child process
    if zero_risk && rng.chance(1, 6) && reachable_pairs > 0 {
        let (a, b) = pairs[rng.below(pairs.len())];
        run_fawp_child(&mut cx, exe, case_seed, hist, a, b, ids, &arcs_out, rg);
    }

    cx.r.count("time_us_child", lap_t.elapsed().as_micros() as u64);
    let sigs_empty = cx.sigs.is_empty();
    drop(cx);
    r.count("graphs", 1);
    r.count("pairs_checked", pairs.len() as u64);
    r.count("reachable_pairs", reachable_pairs);
    r.count("pairs_at_distance_ge_2", far_pairs);
    r.count_max("max:nodes", n as u64);
    r.count_max("max:edges", spec.edges.len() as u64);
    let self_loops = spec.edges.iter().filter(|e| e.a == e.b).count();
    let mut seen = HashSet::new();
    let parallel = spec.edges.iter().filter(|e| !seen.insert((e.a.min(e.b), e.a.max(e.b)))).count();
    r.count("graphs_with_self_loops", (self_loops > 0) as u64);
    r.count("graphs_with_parallel_edges", (parallel > 0) as u64);
    r.count("graphs_with_undirected_edges", spec.edges.iter().any(|e| !e.directed) as u64);
    r.count("graphs_with_zero_weights", zero_risk as u64);
    r.count("graphs_with_triangles", triangle as u64);
    match &hinfo {
        None => {
            r.eval(spec_hash(&spec), n >= 3 && spec.edges.len() >= 2 && far_pairs > 0);
            if sigs_empty && r.want_sample() && n >= 4 && n <= 7 && far_pairs > 0 {
                r.sample(json!({"part": "graph", "case_seed": case_seed, "graph": spec_json(&spec), "pairs": pairs.len(), "reachable_pairs": reachable_pairs}));
            }
        }
        Some(h) => {
            for (k, v) in &h.counts {
                r.count(k, *v);
            }
            let removed = h.counts.iter().any(|(k, v)| *v > 0 && (k.starts_with("hist_edges_removed_by_delete_node") || k.starts_with("hist_edges_deleted") || *k == "hist_nodes_deleted"));
            r.count("hist_graphs_judged", 1);
            r.count("hist_ops", h.ops.len() as u64 - 1);
            r.count("hist_graphs_with_touched_survivors", !touched.is_empty() as u64);
            r.count("hist_pair_queries_starting_at_a_node_that_lost_an_edge", from_touched);
            let hh = h.ops.iter().skip(1).fold(spec_hash(&spec), |acc, o| hash_combine(acc, hash_str(o)));
            r.eval(hh, removed && n >= 3 && spec.edges.len() >= 2 && far_pairs > 0);
            if sigs_empty && r.want_sample() && n >= 4 && n <= 7 && far_pairs > 0 && !touched.is_empty() && spec.edges.len() <= 14 {
                r.sample(json!({"part": "history", "case_seed": case_seed, "history": h.ops, "current_graph": current_graph_json(rg), "pairs": pairs.len(), "reachable_pairs": reachable_pairs}));
            }
        }
    }
}


// ------------------------------------------------------------------------------------------------
// pattern matching (match_pattern / match_simple): reference semantics and judge
// ------------------------------------------------------------------------------------------------
//
// Documented / coded semantics mirrored by the reference:
//  * a path pattern is matched segment by segment; a fixed edge pattern takes one step along any edge
//    the direction permits (Outgoing: the node's outgoing list = directed edges leaving it and its
//    undirected edges; Incoming: the mirror; Both: every incident edge), a self-loop included;
//  * a variable-length edge pattern *min..max binds a Path; the code says "Skip visited nodes to prevent
//    cycles": the segment's own node sequence is simple (its start node included, so self-loops and
//    returns to the start are excluded); min = 0 additionally yields the empty path at the start node;
//    different segments of one pattern do not share a visited set;
//  * node patterns (label, property conditions) constrain the pattern's named positions only, never the
//    interior of a variable-length segment; edge type / property conditions constrain every step.
// Parallel edges give different paths (a Path is a node *and* edge sequence, as in find_variable_paths).

#[derive(Clone, Debug)]
struct NodeSpec {
    label: Option<i64>,
    cond: Option<(bool, i64)>, // (true = c == x, false = c != x)
}
impl NodeSpec {
    fn ok(&self, colour: Option<i64>) -> bool {
        let Some(c) = colour else { return false };
        self.label.map_or(true, |l| l == c) && self.cond.map_or(true, |(eq, x)| (c == x) == eq)
    }
    fn pattern(&self, var: &str) -> NodePattern {
        let mut np = NodePattern::new().variable(var);
        if let Some(l) = self.label {
            np = np.label(&format!("L{}", l));
        }
        if let Some((eq, x)) = self.cond {
            np = np.where_cond("c", if eq { CompareOp::Eq } else { CompareOp::Ne }, PropertyValue::Int(x));
        }
        np
    }
    fn show(&self) -> String {
        format!("(label {:?}, c {:?})", self.label.map(|l| format!("L{}", l)), self.cond.map(|(eq, x)| format!("{}{}", if eq { "==" } else { "!=" }, x)))
    }
}

#[derive(Clone, Debug)]
struct SegSpec {
    dir: Direction,
    ty: Option<&'static str>,
    k: Option<i64>,
    var: Option<(usize, usize)>,
    end: NodeSpec,
}
impl SegSpec {
    fn edge_ok(&self, e: &RE) -> bool {
        self.ty.map_or(true, |t| e.ty == t) && self.k.map_or(true, |k| e.k == k)
    }
    fn pattern(&self, var: &str) -> EdgePattern {
        let mut ep = EdgePattern::new().variable(var).direction(self.dir);
        if let Some(t) = self.ty {
            ep = ep.edge_type(t);
        }
        if let Some(k) = self.k {
            ep = ep.where_eq("k", PropertyValue::Int(k));
        }
        if let Some((lo, hi)) = self.var {
            ep = ep.variable_length(lo, hi);
        }
        ep
    }
    fn show(&self) -> String {
        format!("-[{} type {:?} k {:?} {}]- {}", dname(self.dir), self.ty, self.k, self.var.map_or("1 hop".to_string(), |(a, b)| format!("*{}..{}", a, b)), self.end.show())
    }
}

/// one match = start node + per segment (node sequence, edge sequence)
type MKey = Vec<PathKey>;

fn gen_node_spec(rng: &mut Rng, free: u32) -> NodeSpec {
    match rng.weighted(&[free, 20, 20, 15]) {
        0 => NodeSpec { label: None, cond: None },
        1 => NodeSpec { label: Some(rng.below(3) as i64), cond: None },
        2 => NodeSpec { label: None, cond: Some((true, rng.below(3) as i64)) },
        _ => NodeSpec { label: if rng.chance(1, 3) { Some(rng.below(3) as i64) } else { None }, cond: Some((false, rng.below(3) as i64)) },
    }
}

fn gen_seg(rng: &mut Rng, dense: bool, variable: bool) -> SegSpec {
    let dir = [Direction::Outgoing, Direction::Outgoing, Direction::Incoming, Direction::Both][rng.below(4)];
    let ty = if rng.chance(2, 5) { Some(TYPES[rng.below(3)]) } else { None };
    let k = if rng.chance(1, 5) { Some(rng.below(3) as i64) } else { None };
    let var = if variable {
        let lo = rng.below(3);
        let span = if dense { rng.below(3) } else { rng.below(5) };
        let (lo, hi) = if rng.chance(1, 25) { (lo + 2, lo) } else { (lo, (lo + span).max(1)) };
        Some((lo, if dense { hi.min(3) } else { hi.min(5) }))
    } else {
        None
    };
    SegSpec { dir, ty, k, var, end: gen_node_spec(rng, 50) }
}

/// every way to extend from `x` through segment `seg`: (node sequence, edge sequence), by exhaustive search
fn ref_segment(rg: &RG, arcs: &[(Arc, f64)], seg: &SegSpec, x: u64, cap: usize, out: &mut Vec<PathKey>) -> bool {
    match seg.var {
        None => {
            for (a, _) in arcs {
                if a.u == x && seg.end.ok(rg.color.get(&a.v).copied()) {
                    out.push((vec![x, a.v], vec![a.e]));
                }
            }
            true
        }
        Some((lo, hi)) => {
            if lo == 0 && seg.end.ok(rg.color.get(&x).copied()) {
                out.push((vec![x], vec![]));
            }
            fn rec(rg: &RG, arcs: &[(Arc, f64)], seg: &SegSpec, lo: usize, hi: usize, cap: usize, nodes: &mut Vec<u64>, edges: &mut Vec<u64>, out: &mut Vec<PathKey>) -> bool {
                if edges.len() >= hi {
                    return true;
                }
                let cur = *nodes.last().unwrap();
                for (a, _) in arcs {
                    if a.u != cur || nodes.contains(&a.v) {
                        continue;
                    }
                    nodes.push(a.v);
                    edges.push(a.e);
                    if edges.len() >= lo && seg.end.ok(rg.color.get(&a.v).copied()) {
                        out.push((nodes.clone(), edges.clone()));
                    }
                    let ok = out.len() <= cap && rec(rg, arcs, seg, lo, hi, cap, nodes, edges, out);
                    nodes.pop();
                    edges.pop();
                    if !ok {
                        return false;
                    }
                }
                true
            }
            rec(rg, arcs, seg, lo, hi, cap, &mut vec![x], &mut Vec::new(), out)
        }
    }
}

fn ref_matches(rg: &RG, start: &NodeSpec, segs: &[SegSpec], cap: usize) -> Option<BTreeSet<MKey>> {
    let arcs: Vec<Vec<(Arc, f64)>> = segs.iter().map(|s| rg.arcs(s.dir, &|e| s.edge_ok(e))).collect();
    let mut out: BTreeSet<MKey> = BTreeSet::new();
    fn go(rg: &RG, arcs: &[Vec<(Arc, f64)>], segs: &[SegSpec], i: usize, x: u64, cur: &mut MKey, out: &mut BTreeSet<MKey>, cap: usize) -> bool {
        if i == segs.len() {
            out.insert(cur.clone());
            return out.len() <= cap;
        }
        let mut ext = Vec::new();
        if !ref_segment(rg, &arcs[i], &segs[i], x, cap, &mut ext) {
            return false;
        }
        for pk in ext {
            let next = *pk.0.last().unwrap();
            cur.push(pk);
            let ok = go(rg, arcs, segs, i + 1, next, cur, out, cap);
            cur.pop();
            if !ok {
                return false;
            }
        }
        true
    }
    for &s in &rg.nodes {
        if start.ok(rg.color.get(&s).copied()) && !go(rg, &arcs, segs, 0, s, &mut Vec::new(), &mut out, cap) {
            return None;
        }
    }
    Some(out)
}

const NODE_VARS: [&str; 3] = ["a", "b", "c"];
const EDGE_VARS: [&str; 2] = ["p1", "p2"];

/// what one engine match binds, segment by segment; Err = the bindings themselves are inconsistent
fn match_key(m: &PatternMatch, segs: &[SegSpec]) -> Result<MKey, String> {
    let mut key = Vec::new();
    let mut cur = m.get_node(NODE_VARS[0]).ok_or("start node variable not bound")?.id;
    for (i, seg) in segs.iter().enumerate() {
        let end = m.get_node(NODE_VARS[i + 1]).ok_or(format!("node variable {} not bound", NODE_VARS[i + 1]))?.id;
        let pk: PathKey = if seg.var.is_some() {
            let p = m.get_path(EDGE_VARS[i]).ok_or(format!("variable-length edge variable {} is not bound to a path", EDGE_VARS[i]))?;
            (p.nodes.clone(), p.edges.clone())
        } else {
            let e = m.get_edge(EDGE_VARS[i]).ok_or(format!("edge variable {} is not bound to an edge", EDGE_VARS[i]))?;
            (vec![cur, end], vec![e.id])
        };
        if pk.0.first() != Some(&cur) || pk.0.last() != Some(&end) {
            return Err(format!("segment {} runs {:?}..{:?} but the node variables around it are {} and {}", i + 1, pk.0.first(), pk.0.last(), cur, end));
        }
        key.push(pk);
        cur = end;
    }
    Ok(key)
}

fn pattern_queries(cx: &mut Ctx, g: &GraphEngine, rg: &RG, rng: &mut Rng, queries: usize, dense: bool, parallel_scan: bool) {
    for _ in 0..queries {
        let start = gen_node_spec(rng, 40);
        let three = rng.chance(1, 4);
        let segs: Vec<SegSpec> = if three {
            let first_var = rng.bool();
            let second_var = !first_var || rng.chance(1, 3);
            vec![gen_seg(rng, true, first_var), gen_seg(rng, true, second_var)]
        } else {
            let variable = rng.chance(4, 5);
            vec![gen_seg(rng, dense, variable)]
        };
        let Some(want) = ref_matches(rg, &start, &segs, 4_000) else {
            cx.r.count("match_reference_too_many", 1);
            continue;
        };
        let mut path = PathPattern::new(start.pattern("a"), segs[0].pattern("p1"), segs[0].end.pattern("b"));
        if three {
            path = path.extend(segs[1].pattern("p2"), segs[1].end.pattern("c"));
        }
        let what = format!("match_pattern (a {}) {}{}{}", start.show(), segs[0].show(), if three { format!(" {}", segs[1].show()) } else { String::new() }, if parallel_scan { " [parallel candidate scan]" } else { "" });
        let via_simple = !three && want.len() < 900 && rng.bool();
        let res = if via_simple {
            g.match_simple(start.pattern("a"), segs[0].pattern("p1"), segs[0].end.pattern("b"))
        } else {
            g.match_pattern(&Pattern::new(path.clone()).limit(1_000_000))
        };
        cx.r.count("q_match_pattern", 1);
        cx.r.count(if via_simple { "q_match_simple" } else { "q_match_pattern_explicit_limit" }, 1);
        if parallel_scan {
            cx.r.count("q_match_pattern_parallel_scan", 1);
        }
        if segs.iter().any(|s| s.var.map_or(false, |(_, hi)| hi >= 2)) {
            cx.r.count("q_match_var_maxhops_ge2", 1);
        }
        if three {
            cx.r.count("q_match_three_node_patterns", 1);
        }
        let res = match res {
            Ok(r) => r,
            Err(e) => {
                cx.violate(err_sig("match_pattern", &e, rg), format!("{} = Err({})", what, e));
                continue;
            }
        };
        if res.stats.truncated {
            cx.r.count("match_truncated", 1);
            continue;
        }
        // ---- soundness of every returned match
        let mut got: BTreeSet<MKey> = BTreeSet::new();
        let mut sound = true;
        for m in &res.matches {
            cx.r.count("match_paths_checked", 1);
            let key = match match_key(m, &segs) {
                Ok(k) => k,
                Err(e) => {
                    cx.violate("match_pattern:inconsistent-bindings".into(), format!("{}: {}", what, e));
                    sound = false;
                    continue;
                }
            };
            let a = key[0].0[0];
            if !start.ok(rg.color.get(&a).copied()) {
                cx.violate("match_pattern:node-does-not-match-node-pattern".into(), format!("{}: start node {} (c = {:?}) does not satisfy its pattern", what, a, rg.color.get(&a)));
                sound = false;
            }
            for (i, (seg, pk)) in segs.iter().zip(&key).enumerate() {
                let (first, last) = (pk.0[0], *pk.0.last().unwrap());
                let problem: Option<(String, String)> = match check_walk(rg, &pk.0, &pk.1, first, last, seg.dir, &|e| seg.edge_ok(e), &|_| true) {
                    Err(e) => Some((walk_sig("match_pattern", &e), format!("{:?}", e))),
                    Ok(_) => {
                        let hops = pk.1.len();
                        let (lo, hi) = seg.var.unwrap_or((1, 1));
                        let mut uniq = pk.0.clone();
                        uniq.sort_unstable();
                        uniq.dedup();
                        if hops < lo || hops > hi {
                            Some(("match_pattern:path-outside-hop-bounds".into(), format!("{} hops, bounds {}..={}", hops, lo, hi)))
                        } else if seg.var.is_some() && uniq.len() != pk.0.len() {
                            Some(("match_pattern:variable-length-path-repeats-node".into(), "the code skips visited nodes to prevent cycles".into()))
                        } else if !seg.end.ok(rg.color.get(&last).copied()) {
                            Some(("match_pattern:node-does-not-match-node-pattern".into(), format!("end node {} has c = {:?}", last, rg.color.get(&last))))
                        } else {
                            None
                        }
                    }
                };
                if let Some((sig, why)) = problem {
                    cx.violate(sig, format!("{}: returned match, segment {} = nodes {:?} edges {:?}: {}", what, i + 1, pk.0, pk.1, why));
                    sound = false;
                }
            }
            got.insert(key);
        }
        if !sound {
            continue;
        }
        // ---- exactly the qualifying paths
        if got != want {
            let extra: Vec<&MKey> = got.difference(&want).take(3).collect();
            let missing: Vec<&MKey> = want.difference(&got).collect();
            let got_nodes: BTreeSet<Vec<&Vec<u64>>> = got.iter().map(|k| k.iter().map(|p| &p.0).collect()).collect();
            let node_seq_missing: Vec<&MKey> = missing.iter().copied().filter(|k| !got_nodes.contains(&k.iter().map(|p| &p.0).collect::<Vec<_>>())).collect();
            let shown: Vec<&MKey> = if node_seq_missing.is_empty() { missing.iter().copied().take(3).collect() } else { node_seq_missing.iter().copied().take(3).collect() };
            let sig = if !extra.is_empty() {
                "match_pattern:unexpected-match"
            } else if !node_seq_missing.is_empty() {
                "match_pattern:qualifying-path-missing"
            } else {
                "match_pattern:parallel-edge-variant-of-path-missing"
            };
            cx.violate(
                sig.into(),
                format!(
                    "{} returns {} distinct matches, exhaustive enumeration over the edge list finds {}; missing (per segment: nodes, edges) {:?}{}; extra {:?}",
                    what,
                    got.len(),
                    want.len(),
                    shown,
                    if node_seq_missing.is_empty() { " — each missing path differs from a returned one only in which parallel edge it uses" } else { "" },
                    extra
                ),
            );
            continue;
        }
        // ---- the counting / existence entry points answer the same question
        if want.len() <= 2_000 && rng.chance(1, 3) {
            let pat = Pattern::new(path);
            cx.r.count("q_count_pattern_matches", 1);
            match (g.count_pattern_matches(&pat), g.pattern_exists(&pat)) {
                (Ok(c), Ok(ex)) => {
                    if c as usize != res.matches.len() || ex == want.is_empty() {
                        cx.violate("match_pattern:count-or-exists-disagrees".into(), format!("{}: count_pattern_matches = {}, pattern_exists = {}, match_pattern returned {} matches ({} distinct)", what, c, ex, res.matches.len(), want.len()));
                    }
                }
                (c, ex) => cx.violate("match_pattern:unexpected-error".into(), format!("{}: count {:?} exists {:?}", what, c.map_err(|e| e.to_string()), ex.map_err(|e| e.to_string()))),
            }
        }
    }
}

fn has_triangle(rg: &RG) -> bool {
    let adj = simple_adj(rg, &|_| true);
    adj.iter().any(|(&a, na)| na.iter().any(|&b| b > a && adj[&b].iter().any(|&c| c > b && na.contains(&c))))
}

// ------------------------------------------------------------------------------------------------
// child process for find_all_weighted_paths on graphs with zero-weight steps
// ------------------------------------------------------------------------------------------------

fn run_fawp_child(cx: &mut Ctx, exe: &std::path::Path, case_seed: u64, hist: bool, a: usize, b: usize, ids: &[u64], arcs_out: &[(Arc, f64)], rg: &RG) {
    use std::process::{Command, Stdio};
    let (from, to) = (ids[a], ids[b]);
    let want = bellman_ford(arcs_out, &rg.nodes, from).get(&to).copied();
    let script = format!("ulimit -v 1500000; exec \"{}\" child-fawp {} {} {} {}", exe.display(), case_seed, a, b, hist as u8);
    let mut child = match Command::new("sh").arg("-c").arg(&script).stdout(Stdio::piped()).stderr(Stdio::null()).spawn() {
        Ok(c) => c,
        Err(_) => {
            cx.r.inconclusive("fawp child: spawn failed");
            return;
        }
    };
    let t0 = Instant::now();
    let status = loop {
        match child.try_wait() {
            Ok(Some(s)) => break Some(s),
            Ok(None) => {
                if t0.elapsed() > Duration::from_secs(30) {
                    let _ = child.kill();
                    let _ = child.wait();
                    break None;
                }
                std::thread::sleep(Duration::from_millis(5));
            }
            Err(_) => break None,
        }
    };
    cx.r.count("q_find_all_weighted_paths_child", 1);
    let Some(status) = status else {
        cx.r.inconclusive("find_all_weighted_paths child did not finish within 30 s (zero-weight graph)");
        return;
    };
    let mut out = String::new();
    if let Some(mut so) = child.stdout.take() {
        use std::io::Read;
        let _ = so.read_to_string(&mut out);
    }
    if !status.success() {
        use std::os::unix::process::ExitStatusExt;
        cx.violate(
            "find_all_weighted_paths:zero-weight-cycle-exhausts-memory".into(),
            format!("find_all_weighted_paths({},{}) on a graph with zero-weight steps did not return: child process ended with {:?} (signal {:?}) under a 1.5 GB address-space limit after {:.1} s; reference distance {:?}", from, to, status.code(), status.signal(), t0.elapsed().as_secs_f64(), want),
        );
        return;
    }
    let v: Value = serde_json::from_str(out.trim()).unwrap_or(Value::Null);
    if let Some(err) = v["error"].as_str() {
        if err == "build" {
            cx.r.inconclusive("find_all_weighted_paths child could not rebuild the case");
        } else {
            let id = v["not_found_id"].as_u64().unwrap_or(0);
            let as_err = match v["not_found_kind"].as_str() {
                Some("edge") => GraphError::EdgeNotFound(id),
                Some("node") => GraphError::NodeNotFound(id),
                _ => GraphError::PathNotFound,
            };
            let sig = if matches!(as_err, GraphError::PathNotFound) { "find_all_weighted_paths:unexpected-error".to_string() } else { err_sig("find_all_weighted_paths", &as_err, rg) };
            cx.violate(sig, format!("find_all_weighted_paths({},{}) (zero-weight graph, child process) = Err({}), reference {:?}", from, to, err, want));
        }
        return;
    }
    match (v["total"].as_f64(), v["not_found"].as_bool(), want) {
        (Some(t), _, Some(w)) if close(t, w) => {
            // listed paths must be walks of that weight (they need not be simple when zero cycles exist)
            if let Some(ps) = v["paths"].as_array() {
                for p in ps.iter().take(200) {
                    let nodes: Vec<u64> = p["n"].as_array().map(|x| x.iter().filter_map(|y| y.as_u64()).collect()).unwrap_or_default();
                    let edges: Vec<u64> = p["e"].as_array().map(|x| x.iter().filter_map(|y| y.as_u64()).collect()).unwrap_or_default();
                    match check_walk(rg, &nodes, &edges, from, to, Direction::Outgoing, &|_| true, &|_| true) {
                        Err(e) => cx.violate(walk_sig("find_all_weighted_paths", &e), format!("find_all_weighted_paths({},{}) lists nodes {:?} edges {:?}: {:?}", from, to, nodes, edges, e)),
                        Ok(s) if !close(s, t) => cx.violate("find_all_weighted_paths:listed-path-not-minimal".into(), format!("find_all_weighted_paths({},{}) total {} lists edges {:?} summing to {}", from, to, t, edges, s)),
                        Ok(_) => {}
                    }
                }
            }
        }
        (None, Some(true), None) => {}
        (t, nf, w) => cx.violate("find_all_weighted_paths:not-lowest-weight".into(), format!("find_all_weighted_paths({},{}) (zero-weight graph, child process) total {:?} not_found {:?}, reference {:?}", from, to, t, nf, w)),
    }
}

fn child_fawp(case_seed: u64, a: usize, b: usize, hist: bool) {
    let Ok((_, bt, _, _)) = make_case(case_seed, hist, GraphEngine::new()) else {
        println!("{}", json!({"error": "build"}));
        return;
    };
    if a >= bt.ids.len() || b >= bt.ids.len() {
        println!("{}", json!({"error": "build"}));
        return;
    }
    match bt.g.find_all_weighted_paths(bt.ids[a], bt.ids[b], "w", None) {
        Ok(ap) => println!("{}", json!({"total": ap.total_weight, "paths": ap.paths.iter().take(200).map(|p| json!({"n": p.nodes, "e": p.edges})).collect::<Vec<_>>()})),
        Err(GraphError::PathNotFound) => println!("{}", json!({"not_found": true})),
        Err(e) => {
            let (kind, id) = match &e {
                GraphError::EdgeNotFound(id) => ("edge", *id),
                GraphError::NodeNotFound(id) => ("node", *id),
                _ => ("other", 0),
            };
            println!("{}", json!({"error": e.to_string(), "not_found_kind": kind, "not_found_id": id}))
        }
    }
}


// ------------------------------------------------------------------------------------------------
// minimal witnesses of the defects this check reports (run: c18 probe / c18 probe-fawp)
// ------------------------------------------------------------------------------------------------

fn es(a: usize, b: usize, directed: bool, w: W) -> ES {
    ES { a: a - 1, b: b - 1, directed, ty: 0, w, k: 0 }
}

fn probe() {
    let mk = |n: usize, edges: Vec<ES>| build(&Spec { n, color: vec![0; n], edges }).expect("build");
    // find_path against a directed edge
    let b = mk(2, vec![es(2, 1, true, W::Missing)]);
    println!("only edge 2->1: find_path(1,2) = {:?}; find_all_paths(1,2) = {:?}", b.g.find_path(1, 2, None).map(|p| (p.nodes, p.edges)), b.g.find_all_paths(1, 2, None).map(|p| p.hop_count));
    // A* over an undirected edge from its `to` side
    let b = mk(2, vec![es(2, 1, false, W::Int(5))]);
    println!("only edge 2--1 (w=5): astar_path(1,2) = {:?}; find_weighted_path(1,2) = {:?}", b.g.astar_path(1, 2, &astar_cfg(Direction::Outgoing, None)).map(|r| r.path), b.g.find_weighted_path(1, 2, "w"));
    // A* with parallel edges
    let b = mk(2, vec![es(1, 2, true, W::Int(5)), es(1, 2, true, W::Int(1))]);
    println!("edges 1->2 (w=5), 1->2 (w=1): astar_path(1,2) = {:?}; find_weighted_path(1,2) = {:?}", b.g.astar_path(1, 2, &astar_cfg(Direction::Outgoing, None)).map(|r| r.path), b.g.find_weighted_path(1, 2, "w"));
    // triangles
    let b = mk(5, vec![es(1, 2, false, W::Missing), es(2, 3, false, W::Missing), es(1, 3, false, W::Missing), es(1, 4, false, W::Missing), es(1, 5, false, W::Missing)]);
    println!("triangle 1-2-3 plus pendant edges 1-4, 1-5: count_triangles(undirected) = {:?}", b.g.count_triangles(&TriangleConfig::new().undirected()).map(|r| (r.triangle_count, r.node_triangles.into_iter().collect::<BTreeMap<_, _>>())));
    // biconnected
    let b = mk(4, vec![es(1, 2, false, W::Missing), es(3, 4, false, W::Missing)]);
    println!("two disjoint edges 1-2, 3-4: biconnected_components = {:?}", b.g.biconnected_components(&BiconnectedConfig::new()).map(|r| (r.component_count, r.components)));
    let b = mk(5, vec![es(1, 2, false, W::Missing), es(2, 3, false, W::Missing), es(3, 4, false, W::Missing), es(4, 5, false, W::Missing), es(5, 1, false, W::Missing), es(3, 5, false, W::Missing)]);
    println!("cycle 1-2-3-4-5-1 with chord 3-5: biconnected_components = {:?}", b.g.biconnected_components(&BiconnectedConfig::new()).map(|r| (r.component_count, r.components)));
}

fn probe_patterns() {
    let b = build(&Spec { n: 2, color: vec![0; 2], edges: vec![es(2, 1, true, W::Missing), es(2, 1, true, W::Missing)] }).expect("build");
    let show = |dir: Direction, from_first: bool| {
        let r = b.g.match_simple(NodePattern::new().variable("a").where_eq("c", PropertyValue::Int(0)), EdgePattern::new().variable("r").direction(dir), NodePattern::new().variable("b")).expect("match");
        let mut v: Vec<(u64, u64, u64)> = r.matches.iter().filter_map(|m| Some((m.get_node("a")?.id, m.get_edge("r")?.id, m.get_node("b")?.id))).collect();
        v.sort_unstable();
        let _ = from_first;
        v
    };
    println!("edges e1: 2->1, e2: 2->1; (a)-[r]->(b) = {:?}", show(Direction::Outgoing, true));
    println!("                          (a)<-[r]-(b) = {:?}", show(Direction::Incoming, true));
    println!("                          (a)-[r]-(b)  = {:?}", show(Direction::Both, true));
}

fn probe_fawp() {
    let b = build(&Spec { n: 4, color: vec![0; 4], edges: vec![es(1, 2, true, W::Int(1)), es(1, 3, true, W::Int(1)), es(2, 3, false, W::Int(0)), es(2, 4, true, W::Int(1)), es(3, 4, true, W::Int(1))] }).expect("build");
    println!("edges 1->2 (1), 1->3 (1), 2--3 (0), 2->4 (1), 3->4 (1): find_weighted_path(1,4) = {:?}", b.g.find_weighted_path(1, 4, "w"));
    println!("calling find_all_weighted_paths(1,4) ...");
    println!("find_all_weighted_paths(1,4) = {:?}", b.g.find_all_weighted_paths(1, 4, "w", None).map(|r| (r.total_weight, r.paths.len())));
}

// ------------------------------------------------------------------------------------------------

fn main() {
    let args = Args::parse();
    let started = Instant::now();
    quiet_panics();
    if args.rest.first().map(|s| s.as_str()) == Some("child-fawp") {
        let p = |i: usize| args.rest.get(i).and_then(|s| s.parse::<u64>().ok()).unwrap_or(0);
        child_fawp(p(1), p(2) as usize, p(3) as usize, p(4) == 1);
        return;
    }
    match args.rest.first().map(|s| s.as_str()) {
        Some("probe") => return probe(),
        Some("probe-fawp") => return probe_fawp(),
        Some("probe-patterns") => return probe_patterns(),
        _ => {}
    }
    let exe = std::env::current_exe().unwrap_or_else(|_| std::path::PathBuf::from("c18"));
    let mut total = Report::new();
    total.max_samples = 6;

    if let Some(p) = &args.replay {
        let v: Value = serde_json::from_str(&std::fs::read_to_string(p).expect("replay file")).expect("json");
        let rp = if v.get("replay").is_some() { v["replay"].clone() } else { v.clone() };
        graph_case_mode(rp["case_seed"].as_u64().unwrap_or(1), &mut total, &exe, rp["part"].as_str() == Some("history"));
        let meta = Meta { property: "C18", rule: "replay", assumptions: vec![], floors: vec![], exhaustive: false };
        write_result(&args, &meta, &total, started);
        return;
    }

    // `--part graph|history` runs one part alone (development aid; the floors of the other part are dropped)
    let only = args.extra.get("part").cloned();
    let run_graph = only.as_deref() != Some("history");
    let run_hist = only.as_deref() != Some("graph");
    if run_graph {
        let n = args.by_tier(8_000u64, 400_000u64);
        let rep = par_cases(args.threads, args.seed ^ 0xC18, n, args.budget(45, 600), |_i, s, r| graph_case(s, r, &exe));
        total.merge(rep);
    }

    // the same battery on graphs that an operation history left behind (counters of this part carry the
    // prefix hist. / hist_ so that the floors of the first part are not met by it)
    let n_hist = if run_hist { args.by_tier(2_000u64, 150_000u64) } else { 0 };
    let mut rep = par_cases(args.threads, args.seed ^ 0xC18_415, n_hist, args.budget(30, 300), |_i, s, r| graph_case_mode(s, r, &exe, true));
    let old = std::mem::take(&mut rep.counters);
    for (k, v) in old {
        let nk = if k.starts_with("hist_") {
            k
        } else if let Some(rest) = k.strip_prefix("max:") {
            format!("max:hist.{}", rest)
        } else {
            format!("hist.{}", k)
        };
        rep.counters.insert(nk, v);
    }
    total.merge(rep);

    let mut floors: Vec<(&'static str, u64)> = Vec::new();
    if run_graph {
        floors.extend([("graphs", 300), ("reachable_pairs", 2_000), ("pairs_at_distance_ge_2", 500), ("q_find_variable_paths", 300), ("q_scc", 300), ("graphs_with_parallel_edges", 50), ("graphs_with_undirected_edges", 50),
            ("q_match_pattern", 1_500), ("q_match_var_maxhops_ge2", 500), ("q_match_three_node_patterns", 200), ("q_match_pattern_parallel_scan", 100), ("match_paths_checked", 20_000), ("graphs_with_triangles", 100)]);
    }
    if run_hist {
        floors.extend([("hist_graphs_judged", 200), ("hist.reachable_pairs", 1_000), ("hist.q_find_weighted_path", 3_000), ("hist_nodes_deleted_with_lt_100_edges", 150), ("hist_nodes_deleted_with_ge_100_edges", 8),
            ("hist_edges_removed_by_delete_node[node-is-to,undirected]", 100), ("hist_edges_removed_by_delete_node[node-is-from,undirected]", 100), ("hist_edges_removed_by_delete_node[node-is-to,directed]", 100),
            ("hist_edges_removed_by_delete_node[node-is-from,directed]", 100), ("hist_edges_deleted[undirected]", 50), ("hist_edges_deleted[directed]", 50), ("hist_op_update_edge", 50), ("hist_op_update_node", 50),
            ("hist_op_batch_create_edges", 40), ("hist_pair_queries_starting_at_a_node_that_lost_an_edge", 1_500), ("hist.q_match_pattern", 500)]);
    }
    let meta = Meta {
        property: "C18",
        rule: "one case = one random multigraph (2-40 nodes; directed / undirected / mixed; self-loops, parallel and anti-parallel edges; weights missing / equal / zero-heavy / small ints / floats / 1e9-1e12; 1-3 edge types; optional disconnected clusters) built in a fresh engine and read back; all ordered pairs (<=8 nodes) or 28 sampled pairs get find_path, find_weighted_path, find_all_paths, find_all_weighted_paths and astar_path judged against BFS / Bellman-Ford / exhaustive enumeration over the read-back edge list; plus filtered find_path, traverse, neighbors, find_variable_paths (hop bounds, directions, type sets, filters, cycles) against exhaustive enumeration; 4 (+2 on a parallel-scan engine for a quarter of the graphs) random path patterns through match_pattern / match_simple (fixed and *min..max edge patterns, 2- and 3-node paths, three directions, edge type / property and node label / property filters) compared as sets of bound (node sequence, edge sequence) tuples with an exhaustive enumeration, plus count_pattern_matches / pattern_exists; SCC+condensation, weak components, k-core, triangles, clustering, articulation points, bridges, blocks, MST against brute-force references. Distinct by the hash of the generated graph; non-trivial if the graph has >=3 nodes, >=2 edges and a queried pair at reference distance >=2. Part 2 (history, counters hist.* / hist_*): the same battery on the graph that a random operation history left in the engine (generated graph, then 1-8 steps of delete_node / batch_delete_nodes incl. a temporary hub of ~100-130 incident edges for delete_node's high-degree route, delete_edge / batch_delete_edges, update_edge of weight / k, update_node / add_label / remove_label, create_node / create_edge and their batch forms, property indexes created midway); the read-back must equal a model of the operations, then all queries are judged on the read-back graph as in part 1; distinct by graph + operation list, non-trivial if additionally the history removed a node or an edge.",
        assumptions: vec![
            "paths, traversals and SCC respect edge direction (an undirected edge is usable both ways); k-core, triangles, clustering, articulation points, bridges, blocks and MST are judged on the underlying simple undirected graph with the .undirected() switch where the config has one".into(),
            "node filters: only queries whose two endpoints satisfy the filter are judged, so that whether endpoints are exempt is not part of the verdict; traverse is only judged with edge-type / edge-property filters (whether a node filter prunes or only hides is not stated)".into(),
            "variable-length results are compared as sets of (node sequence, edge sequence): listing the same path twice is not judged".into(),
            "A* is run with its default zero heuristic only; weights are never negative or NaN; weighted totals are compared with relative tolerance 1e-9".into(),
            "find_all_weighted_paths: optimal total and validity/minimality of every listed path are judged, completeness of the list is not (float ties); on graphs with a zero-weight edge it runs in a child process (address-space limit 1.5 GB, 30 s): abnormal end = violation, timeout = inconclusive".into(),
            "a node is never judged to be (or not to be) its own neighbour".into(),
            "history part: 'the current graph' is the graph listed by all_nodes() / all_edges() after the operations, and it is only judged when that listing equals the model of the applied operations (all of which must have returned Ok); queries only name nodes that exist in it; an error other than PathNotFound from a path query between existing nodes is a violation (EdgeNotFound / NodeNotFound naming an id absent from the current graph gets its own signature)".into(),
            "pattern matching: a variable-length segment is node-simple including its start node (the code's stated rule: skip visited nodes to prevent cycles), segments of one pattern do not share that rule, node patterns apply to named positions only; matches are compared as sets of bound tuples with an explicit limit of 1e6 (match_simple only when fewer than 900 matches are expected; truncated results are skipped), so neither duplicates nor limit handling are judged; parallel edges give different paths, as in find_variable_paths".into(),
        ],
        floors,
        exhaustive: false,
    };
    write_result(&args, &meta, &total, started);
}
