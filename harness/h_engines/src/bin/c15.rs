//! C15 — query text means one thing: parsing is total, deterministic, precedence-correct, and
//! executing text equals the direct engine call.
//!
//! Monitors (all on the real neumann_parser / query_router code):
//!  totality   : hostile strings <= 4 KiB (random bytes, unicode, token soup, mutants of valid
//!               statements, adversarial nesting) are fed to tokenize / parse_expr / parse /
//!               parse_all / QueryRouter::execute_parsed / QueryRouter::execute on a 2 MiB-stack
//!               thread inside a CHILD PROCESS. Child killed by a signal (stack overflow, abort) =>
//!               violation with the input saved; panic => violation; error span outside 0..=len =>
//!               violation; two parses of one text differing => violation; child timeout =>
//!               inconclusive (violation only if the single input still hangs with a 60 s budget).
//!               Nesting is homogeneous (19 kinds, one child per depth), COMPOSITE (every one of 31
//!               constructs - subqueries in EXISTS / IN / FROM / HAVING / ORDER BY, CASE arms, CAST,
//!               calls, IN lists, BETWEEN bounds, tuples, arrays - holding runs of 1..64 cheap levels
//!               `!` `~` `-` NOT `(` `[` `f(`, repeated as often as fits in 4 KiB, ascending ladders, one
//!               child per construct x filler) and random mixtures of all level kinds.
//!  history    : a text means the same whatever the thread lexed / parsed before. Sessions of related
//!               texts (the same statements and expressions with words re-spelled in other letter case,
//!               with suffixes, other blanks; hostile inputs and nesting at the limit in between) run
//!               through tokenize / parse_expr / parse / parse_all on ONE new thread; each result must
//!               equal the result of that text alone on a thread that never ran the parser, and every
//!               identifier token must be spelled exactly as the source text at its span.
//!  precedence : expression trees over all binary/unary operators (exhaustive for <= 3 operators,
//!               random to depth 8, plus postfix/call/case/array forms) are printed with minimal
//!               parentheses according to the DOCUMENTED table (expr.rs:7-18, book
//!               architecture/neumann-parser.md "Binding Power Table") and fully parenthesised; both
//!               prints must parse back to the tree (spans ignored) through BOTH expression parsers:
//!               expr.rs (`parse_expr`) and the statement parser's own Pratt loop (parser.rs) in
//!               SELECT-item, WHERE and UPDATE-SET position.
//!  equivalence: generated well-formed statements (relational DDL/DML incl. negative and float
//!               literals, NODE/EDGE/NEIGHBORS/PATH, EMBED/SIMILAR) are executed as text through
//!               `QueryRouter::execute_parsed` on one router and as the equivalent direct engine call
//!               on a twin; results after every statement and the final engine states must agree.

use common::*;
use neumann_parser as np;
use np::{BinaryOp as B, Expr, ExprKind, Literal, ParseError, ParseErrorKind, Statement, StatementKind, UnaryOp as U};
use query_router::{QueryResult, QueryRouter};
use serde_json::{json, Value as J};
use std::cell::RefCell;
use std::collections::{BTreeMap, HashMap};
use std::io::Read;
use std::os::unix::fs::FileExt;
use std::os::unix::process::ExitStatusExt;
use std::path::{Path, PathBuf};
use std::sync::mpsc;
use std::sync::Arc;
use std::time::{Duration, Instant};

#[global_allocator]
static ALLOC: common::alloc::Counting = common::alloc::Counting;

const MAX_INPUT: usize = 4096;

// ------------------------------------------------------------------------------------------------
// panic capture with location (signature = entry + file + message, never the line)
// ------------------------------------------------------------------------------------------------

thread_local! {
    static LAST_PANIC_LOC: RefCell<(String, u32)> = const { RefCell::new((String::new(), 0)) };
}

#[derive(Clone, Debug)]
struct Pan {
    msg: String,
    file: String,
    line: u32,
}

fn install_panic_hook() {
    std::panic::set_hook(Box::new(|info| {
        let (f, l) = info.location().map(|l| (l.file().to_string(), l.line())).unwrap_or_default();
        let _ = LAST_PANIC_LOC.try_with(|c| *c.borrow_mut() = (f, l));
    }));
}

fn guard<R>(f: impl FnOnce() -> R) -> Result<R, Pan> {
    match std::panic::catch_unwind(std::panic::AssertUnwindSafe(f)) {
        Ok(r) => Ok(r),
        Err(e) => {
            let (file, line) = LAST_PANIC_LOC.with(|c| c.borrow().clone());
            Err(Pan { msg: panic_msg(&e), file, line })
        }
    }
}

fn rel_file(f: &str) -> String {
    f.strip_prefix("/repo/").map(|s| s.to_string()).unwrap_or_else(|| {
        // scratch worktrees: keep the part from the crate directory on
        for c in ["neumann_parser/", "query_router/"] {
            if let Some(p) = f.find(c) {
                return f[p..].to_string();
            }
        }
        f.to_string()
    })
}

fn pan_in_scope(p: &Pan) -> bool {
    p.file.contains("neumann_parser/") || p.file.contains("query_router/")
}

/// panic message without the parts that quote the input (slice errors embed the whole string)
fn panic_class(msg: &str) -> String {
    let l = msg.lines().next().unwrap_or("");
    // every way a `&str[a..b]` can fail is one class: which message appears depends on the input bytes
    if l.starts_with("start byte index") || l.starts_with("end byte index") || l.starts_with("byte index") || l.starts_with("begin > end") || l.starts_with("begin <= end") {
        return "string-slice-index".to_string();
    }
    let mut cut = l.len();
    for pat in [" of `", " when slicing `", "; it is inside", " (bytes "] {
        if let Some(p) = l.find(pat) {
            cut = cut.min(p);
        }
    }
    first_line(&l[..cut])
}

fn pan_signature(entry: &str, p: &Pan) -> String {
    format!("panic:{}:{}:{}", entry, rel_file(&p.file), panic_class(&p.msg))
}

/// first word of a command, upper-cased, if it is one the legacy `execute` handles by string splitting
fn legacy_keyword(text: &str) -> Option<&'static str> {
    let first = text.split_whitespace().next().unwrap_or("").to_uppercase();
    LEGACY_KEYWORDS.iter().copied().find(|k| *k == first)
}

// ------------------------------------------------------------------------------------------------
// violation bookkeeping: every distinct signature keeps at least one witness (the driver matches
// known findings on the exact signature, so a frequent known one must never crowd out a new one)
// ------------------------------------------------------------------------------------------------

static IS_CHILD: std::sync::atomic::AtomicBool = std::sync::atomic::AtomicBool::new(false);
static COLLECT: std::sync::Mutex<BTreeMap<String, Vec<common::Violation>>> = std::sync::Mutex::new(BTreeMap::new());
const WITNESSES_PER_SIGNATURE: usize = 2;

fn viol(rep: &mut Report, signature: impl Into<String>, detail: impl Into<String>, replay: J) {
    let signature = signature.into();
    rep.violations_total += 1;
    rep.count(&format!("violations_by_signature[{}]", signature), 1);
    let v = common::Violation { signature: signature.clone(), detail: detail.into(), replay };
    if IS_CHILD.load(std::sync::atomic::Ordering::Relaxed) {
        // child report: one witness per signature, handed to the parent as JSON
        if !rep.violations.iter().any(|x| x.signature == signature) && rep.violations.len() < 400 {
            rep.violations.push(v);
        }
    } else {
        let mut c = COLLECT.lock().unwrap_or_else(|e| e.into_inner());
        let e = c.entry(signature).or_default();
        if e.len() < WITNESSES_PER_SIGNATURE {
            e.push(v);
        }
    }
}

/// move the witnesses of a child's report into the collector (totals stay in the report)
fn absorb(r: &mut Report) {
    let mut c = COLLECT.lock().unwrap_or_else(|e| e.into_inner());
    for v in r.violations.drain(..) {
        let e = c.entry(v.signature.clone()).or_default();
        if e.len() < WITNESSES_PER_SIGNATURE {
            e.push(v);
        }
    }
}

fn errkind_name(k: &ParseErrorKind) -> String {
    let d = format!("{:?}", k);
    d.split(|c: char| !c.is_alphanumeric()).next().unwrap_or("").to_string()
}

fn trunc(s: &str, n: usize) -> String {
    if s.len() <= n {
        return s.to_string();
    }
    let mut e = n;
    while !s.is_char_boundary(e) {
        e -= 1;
    }
    format!("{}…[{} bytes]", &s[..e], s.len())
}

// ================================================================================================
// PART B — expression trees and the documented precedence table
// ================================================================================================

#[derive(Clone, Debug, PartialEq)]
enum T {
    Null,
    Bool(bool),
    Int(i64),
    Float(f64),
    Str(String),
    Ident(String),
    Qual(Box<T>, String),
    Bin(Box<T>, B, Box<T>),
    Un(U, Box<T>),
    Call { name: String, args: Vec<T>, distinct: bool },
    Case { operand: Option<Box<T>>, whens: Vec<(T, T)>, els: Option<Box<T>> },
    In { e: Box<T>, list: Vec<T>, neg: bool },
    Between { e: Box<T>, lo: Box<T>, hi: Box<T>, neg: bool },
    Like { e: Box<T>, pat: Box<T>, neg: bool },
    IsNull { e: Box<T>, neg: bool },
    Array(Vec<T>),
    Tuple(Vec<T>),
    Star,
    Other(String),
}

const ALL_BIN: [B; 19] = [
    B::Or, B::And, B::Eq, B::Ne, B::Lt, B::Le, B::Gt, B::Ge, B::BitOr, B::BitXor, B::BitAnd, B::Shl, B::Shr, B::Add, B::Sub,
    B::Concat, B::Mul, B::Div, B::Mod,
];
const ALL_UN: [U; 3] = [U::Not, U::Neg, U::BitNot];

/// The DOCUMENTED table (neumann_parser/src/expr.rs:7-18 and the book's Binding Power Table):
/// 1 OR, 2 AND, 3 comparison, 4 |, 5 ^, 6 &, 7 shifts, 8 + - ||, 9 * / %, 10 unary NOT - ~,
/// 11 postfix. All binary operators left-associative. Written out here independently of
/// `BinaryOp::precedence()` / the binding-power functions of the code under test.
fn doc_level(op: B) -> u8 {
    match op {
        B::Or => 1,
        B::And => 2,
        B::Eq | B::Ne | B::Lt | B::Le | B::Gt | B::Ge => 3,
        B::BitOr => 4,
        B::BitXor => 5,
        B::BitAnd => 6,
        B::Shl | B::Shr => 7,
        B::Add | B::Sub | B::Concat => 8,
        B::Mul | B::Div | B::Mod => 9,
    }
}

#[derive(Clone, Copy, PartialEq, Eq, Debug)]
enum Mode {
    Min,
    Full,
    /// long spines stay as the table prints them; every operand subtree of height <= 8 is fully
    /// parenthesised (a completely parenthesised chain of hundreds of operands would itself be
    /// hundreds of levels deep, beyond the documented nesting limit)
    FullSmall,
}

/// lexical style choices (none of them may change the meaning)
#[derive(Clone, Copy, Debug)]
struct Style {
    lower_kw: bool,
    bang_not: bool,
    ltgt_ne: bool,
    dq_strings: bool,
    tight: bool,
    wrap_leaves: bool,
}

impl Style {
    fn plain() -> Style {
        Style { lower_kw: false, bang_not: false, ltgt_ne: false, dq_strings: false, tight: false, wrap_leaves: false }
    }
    fn random(r: &mut Rng) -> Style {
        Style { lower_kw: r.bool(), bang_not: r.chance(1, 4), ltgt_ne: r.bool(), dq_strings: r.chance(1, 4), tight: r.bool(), wrap_leaves: r.chance(1, 3) }
    }
    fn kw(&self, k: &str) -> String {
        if self.lower_kw {
            k.to_lowercase()
        } else {
            k.to_string()
        }
    }
}

fn quote_str(s: &str, dq: bool) -> String {
    let q = if dq { '"' } else { '\'' };
    let mut o = String::new();
    o.push(q);
    for c in s.chars() {
        match c {
            '\n' => o.push_str("\\n"),
            '\r' => o.push_str("\\r"),
            '\t' => o.push_str("\\t"),
            '\0' => o.push_str("\\0"),
            '\\' => o.push_str("\\\\"),
            c if c == q => {
                o.push(q);
                o.push(q);
            }
            c => o.push(c),
        }
    }
    o.push(q);
    o
}

fn bin_text(op: B, st: &Style) -> String {
    match op {
        B::Add => "+".into(),
        B::Sub => "-".into(),
        B::Mul => "*".into(),
        B::Div => "/".into(),
        B::Mod => "%".into(),
        B::Eq => "=".into(),
        B::Ne => if st.ltgt_ne { "<>".into() } else { "!=".into() },
        B::Lt => "<".into(),
        B::Le => "<=".into(),
        B::Gt => ">".into(),
        B::Ge => ">=".into(),
        B::And => st.kw("AND"),
        B::Or => st.kw("OR"),
        B::Concat => "||".into(),
        B::BitAnd => "&".into(),
        B::BitOr => "|".into(),
        B::BitXor => "^".into(),
        B::Shl => "<<".into(),
        B::Shr => ">>".into(),
    }
}

fn is_atom(t: &T) -> bool {
    !matches!(t, T::Bin(..) | T::Un(..) | T::In { .. } | T::Between { .. } | T::Like { .. } | T::IsNull { .. })
}

fn emit_child(t: &T, parens: bool, out: &mut Vec<String>, mode: Mode, st: &Style) {
    let parens = match mode {
        Mode::Min => parens,
        // fully parenthesised: every compound operand is wrapped; leaves optionally
        Mode::Full => !matches!(t, T::Star) && (!is_leaf(t) || st.wrap_leaves),
        Mode::FullSmall => {
            if height_capped(t, 8) <= 8 {
                !matches!(t, T::Star) && !is_leaf(t)
            } else {
                parens
            }
        }
    };
    if parens {
        out.push("(".into());
    }
    emit(t, out, mode, st);
    if parens {
        out.push(")".into());
    }
}

/// height of `t`, but never looking deeper than `cap` levels (returns cap + 1 when it is taller)
fn height_capped(t: &T, cap: usize) -> usize {
    if cap == 0 {
        return 1;
    }
    match t {
        T::Bin(l, _, r) => 1 + height_capped(l, cap - 1).max(height_capped(r, cap - 1)),
        T::Un(_, e) => 1 + height_capped(e, cap - 1),
        _ => 1 + children(t).iter().map(|c| height_capped(c, cap - 1)).max().unwrap_or(0),
    }
}

fn is_leaf(t: &T) -> bool {
    matches!(t, T::Null | T::Bool(_) | T::Int(_) | T::Float(_) | T::Str(_) | T::Ident(_) | T::Star)
}

/// token list of `t`; grouping parentheses follow the documented table (Mode::Min) or surround
/// every operand (Mode::Full)
fn emit(t: &T, out: &mut Vec<String>, mode: Mode, st: &Style) {
    match t {
        T::Null => out.push(st.kw("NULL")),
        T::Bool(b) => out.push(st.kw(if *b { "TRUE" } else { "FALSE" })),
        T::Int(i) => out.push(i.to_string()),
        T::Float(f) => out.push(format!("{:?}", f)),
        T::Str(s) => out.push(quote_str(s, st.dq_strings)),
        T::Ident(n) => out.push(n.clone()),
        T::Star => out.push("*".into()),
        T::Other(s) => out.push(s.clone()),
        T::Qual(b, n) => {
            emit(b, out, mode, st);
            out.push(".".into());
            out.push(n.clone());
        }
        T::Bin(l, op, r) => {
            let lv = doc_level(*op);
            // left-associative: a left operand of the same level needs no parentheses, a right
            // operand of the same level does; unary and postfix operands bind tighter than any
            // binary operator
            let lp = matches!(&**l, T::Bin(_, o, _) if doc_level(*o) < lv);
            let rp = matches!(&**r, T::Bin(_, o, _) if doc_level(*o) <= lv);
            emit_child(l, lp, out, mode, st);
            out.push(bin_text(*op, st));
            emit_child(r, rp, out, mode, st);
        }
        T::Un(op, e) => {
            out.push(match op {
                U::Not => if st.bang_not { "!".into() } else { st.kw("NOT") },
                U::Neg => "-".into(),
                U::BitNot => "~".into(),
            });
            // unary binds tighter than every binary operator, looser than postfix
            emit_child(e, matches!(&**e, T::Bin(..)), out, mode, st);
        }
        T::Call { name, args, distinct } => {
            out.push(name.clone());
            out.push("(".into());
            if *distinct {
                out.push(st.kw("DISTINCT"));
            }
            for (i, a) in args.iter().enumerate() {
                if i > 0 {
                    out.push(",".into());
                }
                emit_child(a, false, out, mode, st);
            }
            out.push(")".into());
        }
        T::Case { operand, whens, els } => {
            out.push(st.kw("CASE"));
            if let Some(o) = operand {
                emit_child(o, false, out, mode, st);
            }
            for (c, r) in whens {
                out.push(st.kw("WHEN"));
                emit_child(c, false, out, mode, st);
                out.push(st.kw("THEN"));
                emit_child(r, false, out, mode, st);
            }
            if let Some(e) = els {
                out.push(st.kw("ELSE"));
                emit_child(e, false, out, mode, st);
            }
            out.push(st.kw("END"));
        }
        // postfix forms: the documented table puts them above unary; where the table is silent
        // (operand of a postfix form that is itself compound) parentheses are always written
        T::In { e, list, neg } => {
            emit_child(e, !is_atom(e), out, mode, st);
            if *neg {
                out.push(st.kw("NOT"));
            }
            out.push(st.kw("IN"));
            out.push("(".into());
            for (i, a) in list.iter().enumerate() {
                if i > 0 {
                    out.push(",".into());
                }
                emit_child(a, false, out, mode, st);
            }
            out.push(")".into());
        }
        T::Between { e, lo, hi, neg } => {
            emit_child(e, !is_atom(e), out, mode, st);
            if *neg {
                out.push(st.kw("NOT"));
            }
            out.push(st.kw("BETWEEN"));
            emit_child(lo, !is_atom(lo), out, mode, st);
            out.push(st.kw("AND"));
            emit_child(hi, !is_atom(hi), out, mode, st);
        }
        T::Like { e, pat, neg } => {
            emit_child(e, !is_atom(e), out, mode, st);
            if *neg {
                out.push(st.kw("NOT"));
            }
            out.push(st.kw("LIKE"));
            emit_child(pat, !is_atom(pat), out, mode, st);
        }
        T::IsNull { e, neg } => {
            emit_child(e, !is_atom(e), out, mode, st);
            out.push(st.kw("IS"));
            if *neg {
                out.push(st.kw("NOT"));
            }
            out.push(st.kw("NULL"));
        }
        T::Array(items) => {
            out.push("[".into());
            for (i, a) in items.iter().enumerate() {
                if i > 0 {
                    out.push(",".into());
                }
                emit_child(a, false, out, mode, st);
            }
            out.push("]".into());
        }
        T::Tuple(items) => {
            out.push("(".into());
            for (i, a) in items.iter().enumerate() {
                if i > 0 {
                    out.push(",".into());
                }
                emit_child(a, false, out, mode, st);
            }
            out.push(")".into());
        }
    }
}

fn join_tokens(toks: &[String], tight: bool) -> String {
    let mut s = String::new();
    for (i, t) in toks.iter().enumerate() {
        if i > 0 {
            let prev = &toks[i - 1];
            let bracket = |x: &str| matches!(x, "(" | ")" | "[" | "]" | ",");
            // a space may be dropped only next to a bracket or comma (no two-character token
            // starts or ends with one), never between `.` parts either
            let glue = (tight && (bracket(prev) || bracket(t))) || t == "." || prev == ".";
            if !glue {
                s.push(' ');
            }
        }
        s.push_str(t);
    }
    s
}

fn print_tree(t: &T, mode: Mode, st: &Style) -> String {
    let mut out = Vec::new();
    emit(t, &mut out, mode, st);
    join_tokens(&out, st.tight)
}

fn from_expr(e: &Expr) -> T {
    let b = |x: &Expr| Box::new(from_expr(x));
    match &e.kind {
        ExprKind::Literal(Literal::Null) => T::Null,
        ExprKind::Literal(Literal::Boolean(x)) => T::Bool(*x),
        ExprKind::Literal(Literal::Integer(x)) => T::Int(*x),
        ExprKind::Literal(Literal::Float(x)) => T::Float(*x),
        ExprKind::Literal(Literal::String(x)) => T::Str(x.clone()),
        ExprKind::Ident(i) => T::Ident(i.name.clone()),
        ExprKind::Qualified(x, n) => T::Qual(b(x), n.name.clone()),
        ExprKind::Binary(l, op, r) => T::Bin(b(l), *op, b(r)),
        ExprKind::Unary(op, x) => T::Un(*op, b(x)),
        ExprKind::Call(c) => T::Call { name: c.name.name.clone(), args: c.args.iter().map(from_expr).collect(), distinct: c.distinct },
        ExprKind::Case(c) => T::Case {
            operand: c.operand.as_ref().map(|x| b(x)),
            whens: c.when_clauses.iter().map(|w| (from_expr(&w.condition), from_expr(&w.result))).collect(),
            els: c.else_clause.as_ref().map(|x| b(x)),
        },
        ExprKind::In { expr, list: np::InList::Values(v), negated } => T::In { e: b(expr), list: v.iter().map(from_expr).collect(), neg: *negated },
        ExprKind::Between { expr, low, high, negated } => T::Between { e: b(expr), lo: b(low), hi: b(high), neg: *negated },
        ExprKind::Like { expr, pattern, negated } => T::Like { e: b(expr), pat: b(pattern), neg: *negated },
        ExprKind::IsNull { expr, negated } => T::IsNull { e: b(expr), neg: *negated },
        ExprKind::Array(v) => T::Array(v.iter().map(from_expr).collect()),
        ExprKind::Tuple(v) => T::Tuple(v.iter().map(from_expr).collect()),
        ExprKind::Wildcard => T::Star,
        other => T::Other(trunc(&format!("{:?}", other), 80)),
    }
}

fn head(t: &T) -> String {
    match t {
        T::Null | T::Bool(_) | T::Int(_) | T::Float(_) | T::Str(_) => "Literal".into(),
        T::Ident(_) => "Ident".into(),
        T::Qual(..) => "Qualified".into(),
        T::Bin(_, op, _) => format!("{:?}", op),
        T::Un(op, _) => format!("Unary{:?}", op),
        T::Call { .. } => "Call".into(),
        T::Case { .. } => "Case".into(),
        T::In { .. } => "In".into(),
        T::Between { .. } => "Between".into(),
        T::Like { .. } => "Like".into(),
        T::IsNull { .. } => "IsNull".into(),
        T::Array(_) => "Array".into(),
        T::Tuple(_) => "Tuple".into(),
        T::Star => "Wildcard".into(),
        T::Other(_) => "Other".into(),
    }
}

fn children(t: &T) -> Vec<&T> {
    match t {
        T::Qual(b, _) => vec![b],
        T::Bin(l, _, r) => vec![l, r],
        T::Un(_, e) => vec![e],
        T::Call { args, .. } => args.iter().collect(),
        T::Case { operand, whens, els } => {
            let mut v: Vec<&T> = Vec::new();
            if let Some(o) = operand {
                v.push(o);
            }
            for (c, r) in whens {
                v.push(c);
                v.push(r);
            }
            if let Some(e) = els {
                v.push(e);
            }
            v
        }
        T::In { e, list, .. } => {
            let mut v: Vec<&T> = vec![e];
            v.extend(list.iter());
            v
        }
        T::Between { e, lo, hi, .. } => vec![e, lo, hi],
        T::Like { e, pat, .. } => vec![e, pat],
        T::IsNull { e, .. } => vec![e],
        T::Array(v) | T::Tuple(v) => v.iter().collect(),
        _ => vec![],
    }
}

/// (expected head, got head) at the first node (pre-order) where the two trees differ
fn first_diff(exp: &T, got: &T) -> (String, String) {
    if head(exp) != head(got) {
        return (head(exp), head(got));
    }
    let (ce, cg) = (children(exp), children(got));
    if ce.len() != cg.len() {
        return (format!("{}/{}", head(exp), ce.len()), format!("{}/{}", head(got), cg.len()));
    }
    for (a, b) in ce.iter().zip(cg.iter()) {
        if a != b {
            return first_diff(a, b);
        }
    }
    (format!("{}-payload", head(exp)), format!("{}-payload", head(got)))
}

fn count_ops(t: &T) -> usize {
    let own = matches!(t, T::Bin(..) | T::Un(..) | T::In { .. } | T::Between { .. } | T::Like { .. } | T::IsNull { .. }) as usize;
    own + children(t).iter().map(|c| count_ops(c)).sum::<usize>()
}

fn tree_depth(t: &T) -> usize {
    1 + children(t).iter().map(|c| tree_depth(c)).max().unwrap_or(0)
}

const IDENT_POOL: &[&str] = &["a", "b", "c", "x1", "col_2", "_p", "foo", "t", "u", "v9"];
const FUNC_POOL: &[&str] = &["f", "g", "coalesce", "upper", "my_fn"];
const AGG_POOL: &[&str] = &["COUNT", "SUM", "AVG", "MIN", "MAX"];
const STR_POOL: &[&str] = &["", "x", "it's", "a\"b", " AND ", "--", "/* c */", "back\\slash", "new\nline", "tab\t", "ünï", "%a_", "1 + 2", ")", "'"];

fn gen_leaf(r: &mut Rng) -> T {
    match r.below(10) {
        0 => T::Null,
        1 => T::Bool(r.bool()),
        2 | 3 => T::Int(match r.below(6) {
            0 => 0,
            1 => i64::MAX,
            2 => r.range(0, 1_000_000_000_000),
            _ => r.range(0, 100),
        }),
        4 => T::Float(match r.below(6) {
            0 => 0.0,
            1 => 1e-7,
            2 => 1.5e300,
            3 => 0.1,
            _ => (r.range(0, 100_000) as f64) / 64.0,
        }),
        5 => T::Str(r.pick(STR_POOL).to_string()),
        6 => T::Qual(Box::new(T::Ident(r.pick(IDENT_POOL).to_string())), r.pick(IDENT_POOL).to_string()),
        _ => T::Ident(r.pick(IDENT_POOL).to_string()),
    }
}

/// random tree of height <= depth; `ops_only` restricts to binary/unary operators over leaves
fn gen_tree(r: &mut Rng, depth: usize, ops_only: bool) -> T {
    if depth <= 1 || r.chance(1, 8) {
        return gen_leaf(r);
    }
    let d = depth - 1;
    let k = if ops_only { r.below(70) } else { r.below(100) };
    let bx = |t: T| Box::new(t);
    match k {
        0..=49 => {
            let op = *r.pick(&ALL_BIN);
            // skew: one deep side, one shallower side, so that height 8 stays printable
            let (dl, dr) = if r.bool() { (d, 1 + r.below(d)) } else { (1 + r.below(d), d) };
            T::Bin(bx(gen_tree(r, dl, ops_only)), op, bx(gen_tree(r, dr, ops_only)))
        }
        50..=69 => T::Un(*r.pick(&ALL_UN), bx(gen_tree(r, d, ops_only))),
        70..=73 => T::IsNull { e: bx(gen_tree(r, d, false)), neg: r.bool() },
        74..=77 => {
            let n = r.below(4);
            T::In { e: bx(gen_tree(r, d, false)), list: (0..n).map(|_| gen_tree(r, d.min(3), false)).collect(), neg: r.bool() }
        }
        78..=81 => T::Between { e: bx(gen_tree(r, d, false)), lo: bx(gen_tree(r, d.min(3), false)), hi: bx(gen_tree(r, d.min(3), false)), neg: r.bool() },
        82..=85 => T::Like { e: bx(gen_tree(r, d, false)), pat: bx(gen_tree(r, d.min(2), false)), neg: r.bool() },
        86..=90 => {
            if r.chance(1, 3) {
                let name = r.pick(AGG_POOL).to_string();
                if r.chance(1, 3) {
                    T::Call { name, args: vec![T::Star], distinct: false }
                } else {
                    T::Call { name, args: vec![gen_tree(r, d.min(4), false)], distinct: r.chance(1, 4) }
                }
            } else {
                let n = r.below(4);
                T::Call { name: r.pick(FUNC_POOL).to_string(), args: (0..n).map(|_| gen_tree(r, d.min(4), false)).collect(), distinct: false }
            }
        }
        91..=94 => {
            let n = 1 + r.below(2);
            T::Case {
                operand: if r.bool() { Some(bx(gen_tree(r, d.min(3), false))) } else { None },
                whens: (0..n).map(|_| (gen_tree(r, d.min(4), false), gen_tree(r, d.min(3), false))).collect(),
                els: if r.bool() { Some(bx(gen_tree(r, d.min(3), false))) } else { None },
            }
        }
        95..=97 => {
            let n = r.below(4);
            T::Array((0..n).map(|_| gen_tree(r, d.min(3), false)).collect())
        }
        _ => {
            let n = if r.chance(1, 5) { 0 } else { 2 + r.below(2) };
            T::Tuple((0..n).map(|_| gen_tree(r, d.min(3), false)).collect())
        }
    }
}

#[derive(Clone, Copy, Debug, PartialEq, Eq)]
enum PCtx {
    ExprRs,
    SelectItem,
    Where,
    UpdateSet,
}
const ALL_PCTX: [PCtx; 4] = [PCtx::ExprRs, PCtx::SelectItem, PCtx::Where, PCtx::UpdateSet];

impl PCtx {
    fn parser(&self) -> &'static str {
        match self {
            PCtx::ExprRs => "expr.rs",
            _ => "parser.rs",
        }
    }
    fn wrap(&self, e: &str, st: &Style) -> String {
        match self {
            PCtx::ExprRs => e.to_string(),
            PCtx::SelectItem => format!("{} {} {} tbl", st.kw("SELECT"), e, st.kw("FROM")),
            PCtx::Where => format!("{} a {} tbl {} {}", st.kw("SELECT"), st.kw("FROM"), st.kw("WHERE"), e),
            PCtx::UpdateSet => format!("{} tbl {} a = {}", st.kw("UPDATE"), st.kw("SET"), e),
        }
    }
}

enum PRes {
    Tree(T),
    Err(ParseError),
    /// statement parsed but the expression is not where the grammar puts it
    Shape(String),
}

fn parse_in_ctx(ctx: PCtx, text: &str) -> PRes {
    match ctx {
        PCtx::ExprRs => match np::parse_expr(text) {
            Ok(e) => PRes::Tree(from_expr(&e)),
            Err(e) => PRes::Err(e),
        },
        _ => match np::parse(text) {
            Err(e) => PRes::Err(e),
            Ok(stmt) => match (&stmt.kind, ctx) {
                (StatementKind::Select(s), PCtx::SelectItem) => {
                    if s.columns.len() == 1 && s.columns[0].alias.is_none() && s.from.is_some() && s.where_clause.is_none() {
                        PRes::Tree(from_expr(&s.columns[0].expr))
                    } else {
                        PRes::Shape(format!("select list has {} items / alias {:?}", s.columns.len(), s.columns[0].alias))
                    }
                }
                (StatementKind::Select(s), PCtx::Where) => match &s.where_clause {
                    Some(w) if s.columns.len() == 1 && s.group_by.is_empty() && s.order_by.is_empty() && s.limit.is_none() => PRes::Tree(from_expr(w)),
                    _ => PRes::Shape("WHERE clause missing or extra clauses present".into()),
                },
                (StatementKind::Update(u), PCtx::UpdateSet) => {
                    if u.assignments.len() == 1 && u.where_clause.is_none() {
                        PRes::Tree(from_expr(&u.assignments[0].value))
                    } else {
                        PRes::Shape(format!("{} assignments", u.assignments.len()))
                    }
                }
                (k, _) => PRes::Shape(format!("statement kind {}", trunc(&format!("{:?}", k), 40))),
            },
        },
    }
}

/// the precedence oracle for one tree; returns number of parses judged
fn check_tree(t: &T, st: &Style, ctxs: &[PCtx], rep: &mut Report, replay: J) -> bool {
    check_tree_modes(t, st, ctxs, &[Mode::Min, Mode::Full], false, rep, replay)
}

/// `shallow`: the printed text nests only a few levels (no long parenthesis / prefix / right-operand
/// towers), so an answer "nesting too deep" is itself a wrong parse
fn check_tree_modes(t: &T, st: &Style, ctxs: &[PCtx], modes: &[Mode], shallow: bool, rep: &mut Report, replay: J) -> bool {
    let mut ok = true;
    for &mode in modes {
        let text = print_tree(t, mode, st);
        let mname = match mode {
            Mode::Min => "minimal-parens",
            Mode::Full => "full-parens",
            Mode::FullSmall => "operands-parenthesised",
        };
        for &ctx in ctxs {
            let full = ctx.wrap(&text, st);
            let res = match guard(|| parse_in_ctx(ctx, &full)) {
                Ok(r) => r,
                Err(p) => {
                    viol(rep, pan_signature(if ctx == PCtx::ExprRs { "parse_expr" } else { "parse" }, &p), format!("panic at {}:{}: {} on {:?}", p.file, p.line, p.msg, trunc(&full, 400)), replay.clone());
                    ok = false;
                    continue;
                }
            };
            rep.count(&format!("tree_parses[{}]", ctx.parser()), 1);
            match res {
                PRes::Tree(got) => {
                    if &got != t {
                        let (e, g) = first_diff(t, &got);
                        viol(rep, 
                            format!("precedence:{}:{}:expected-{}-got-{}", ctx.parser(), mname, e, g),
                            format!("{} print {:?} ({:?}) parses to a different tree: expected {:?}, got {:?}", mname, trunc(&full, 600), ctx, t, got),
                            replay.clone(),
                        );
                        ok = false;
                    }
                }
                PRes::Err(e) => {
                    if matches!(e.kind, ParseErrorKind::TooDeep) && shallow {
                        viol(
                            rep,
                            format!("precedence:{}:{}:too-deep-without-nesting", ctx.parser(), mname),
                            format!("{} print ({:?}, {} bytes, {} operators, nests <= ~20 levels) is rejected as `{}`: {:?}", mname, ctx, full.len(), count_ops(t), e, trunc(&full, 300)),
                            replay.clone(),
                        );
                        ok = false;
                    } else if matches!(e.kind, ParseErrorKind::TooDeep) {
                        // the documented nesting limit of expr.rs; not a regrouping
                        rep.count("tree_too_deep_skipped", 1);
                    } else {
                        viol(rep, 
                            format!("precedence:{}:{}:parse-error:{}", ctx.parser(), mname, errkind_name(&e.kind)),
                            format!("{} print {:?} ({:?}) of tree {:?} is rejected: {}", mname, trunc(&full, 600), ctx, t, e),
                            replay.clone(),
                        );
                        ok = false;
                    }
                }
                PRes::Shape(s) => {
                    viol(rep, 
                        format!("precedence:{}:{}:expression-split-across-clauses", ctx.parser(), mname),
                        format!("{} print {:?} ({:?}) of tree {:?}: {}", mname, trunc(&full, 600), ctx, t, s),
                        replay.clone(),
                    );
                    ok = false;
                }
            }
        }
    }
    ok
}

/// exhaustive small trees: index -> tree. Shapes over leaves a,b,c,d:
///  pairs   (19^2 x 2 shapes), unary/binary mixes (3 x 19 x 3 + 9), triples (19^3 x 5 shapes)
fn small_tree_count(with_triples: bool) -> u64 {
    let pairs = 19 * 19 * 2;
    let mixes = 3 * 19 * 3 + 9;
    let triples = if with_triples { 19 * 19 * 19 * 5 } else { 0 };
    (pairs + mixes + triples) as u64
}

fn small_tree(mut i: u64) -> T {
    let id = |s: &str| Box::new(T::Ident(s.to_string()));
    let pairs = 19 * 19 * 2u64;
    if i < pairs {
        let shape = i % 2;
        let o1 = ALL_BIN[((i / 2) % 19) as usize];
        let o2 = ALL_BIN[((i / 38) % 19) as usize];
        return if shape == 0 {
            T::Bin(Box::new(T::Bin(id("a"), o1, id("b"))), o2, id("c"))
        } else {
            T::Bin(id("a"), o1, Box::new(T::Bin(id("b"), o2, id("c"))))
        };
    }
    i -= pairs;
    let mixes = 3 * 19 * 3u64;
    if i < mixes {
        let shape = i % 3;
        let u = ALL_UN[((i / 3) % 3) as usize];
        let o = ALL_BIN[((i / 9) % 19) as usize];
        return match shape {
            0 => T::Un(u, Box::new(T::Bin(id("a"), o, id("b")))),
            1 => T::Bin(Box::new(T::Un(u, id("a"))), o, id("b")),
            _ => T::Bin(id("a"), o, Box::new(T::Un(u, id("b")))),
        };
    }
    i -= mixes;
    if i < 9 {
        return T::Un(ALL_UN[(i % 3) as usize], Box::new(T::Un(ALL_UN[(i / 3) as usize], id("a"))));
    }
    i -= 9;
    let shape = i % 5;
    let o1 = ALL_BIN[((i / 5) % 19) as usize];
    let o2 = ALL_BIN[((i / 95) % 19) as usize];
    let o3 = ALL_BIN[((i / 1805) % 19) as usize];
    let b = |l: Box<T>, o: B, r: Box<T>| Box::new(T::Bin(l, o, r));
    *match shape {
        0 => b(b(b(id("a"), o1, id("b")), o2, id("c")), o3, id("d")),
        1 => b(b(id("a"), o1, b(id("b"), o2, id("c"))), o3, id("d")),
        2 => b(b(id("a"), o1, id("b")), o2, b(id("c"), o3, id("d"))),
        3 => b(id("a"), o1, b(b(id("b"), o2, id("c")), o3, id("d"))),
        _ => b(id("a"), o1, b(id("b"), o2, b(id("c"), o3, id("d")))),
    }
}

fn tree_case_small(i: u64, rep: &mut Report) {
    let t = small_tree(i);
    let ok = check_tree(&t, &Style::plain(), &ALL_PCTX, rep, json!({"part": "tree-small", "index": i}));
    if ok {
        rep.eval(hash_combine(0x51, i), count_ops(&t) >= 2);
        rep.count("trees_small", 1);
    }
}

/// reference grouping of a flat operand/operator sequence by the documented table (precedence
/// climbing over `doc_level`, every binary operator left-associative)
fn group_flat(xs: &[T], ops: &[B], i: &mut usize, min: u8) -> T {
    let mut lhs = xs[*i].clone();
    while *i < ops.len() {
        let op = ops[*i];
        let l = doc_level(op);
        if l < min {
            break;
        }
        *i += 1;
        let rhs = group_flat(xs, ops, i, l + 1);
        lhs = T::Bin(Box::new(lhs), op, Box::new(rhs));
    }
    lhs
}

/// WIDE flat expressions: tens to hundreds of operands joined by binary operators, no parentheses
/// needed anywhere (chains of one level, sums of products, AND-ed comparisons, all 19 operators mixed)
fn tree_case_wide(case_seed: u64, rep: &mut Report) {
    let mut r = Rng::new(case_seed);
    let n = match r.below(4) {
        0 => 20 + r.below(60),
        1 => 80 + r.below(120),
        _ => 200 + r.below(250),
    };
    let shape = r.below(5);
    let pool: Vec<B> = match shape {
        0 => {
            let l = doc_level(*r.pick(&ALL_BIN));
            ALL_BIN.iter().copied().filter(|o| doc_level(*o) == l).collect()
        }
        1 => vec![B::Add, B::Sub, B::Mul, B::Div, B::Mod],
        2 => vec![B::And, B::Eq, B::Lt, B::Ge, B::Add, B::Mul],
        3 => vec![B::Or, B::And, B::Eq, B::Ne],
        _ => ALL_BIN.to_vec(),
    };
    let xs: Vec<T> = (0..n)
        .map(|_| {
            let leaf = if r.chance(1, 3) { T::Int(r.range(0, 99)) } else { T::Ident(r.pick(IDENT_POOL).to_string()) };
            if r.chance(1, 12) {
                T::Un(*r.pick(&ALL_UN), Box::new(leaf))
            } else {
                leaf
            }
        })
        .collect();
    let ops: Vec<B> = (0..n - 1).map(|_| *r.pick(&pool)).collect();
    let mut i = 0;
    let t = group_flat(&xs, &ops, &mut i, 0);
    let st = Style::random(&mut r);
    let modes: Vec<Mode> = if tree_depth(&t) <= 25 { vec![Mode::Min, Mode::FullSmall, Mode::Full] } else { vec![Mode::Min, Mode::FullSmall] };
    // the minimal print of such a tree contains no parenthesis at all (sanity of the generator)
    let min_text = print_tree(&t, Mode::Min, &Style::plain());
    if min_text.contains('(') {
        rep.inconclusive("wide-tree generator printed a parenthesis");
        return;
    }
    let ok = check_tree_modes(&t, &st, &ALL_PCTX, &modes, true, rep, json!({"part": "tree-wide", "case_seed": case_seed}));
    if ok {
        rep.eval(hash_str(&min_text), true);
        rep.count("trees_wide", 1);
        rep.count("tree_wide_operands", n as u64);
        rep.count_max("max:tree_wide_operands", n as u64);
        // precedence drops: places where the next operator binds looser than the one before
        rep.count("tree_wide_precedence_drops", ops.windows(2).filter(|w| doc_level(w[1]) < doc_level(w[0])).count() as u64);
        if rep.want_sample() && case_seed % 97 == 0 {
            rep.sample(json!({"part": "tree-wide", "operands": n, "minimal": trunc(&min_text, 160)}));
        }
    }
}

fn tree_case_random(case_seed: u64, rep: &mut Report) {
    let mut r = Rng::new(case_seed);
    let depth = 2 + r.below(7); // 2..=8
    let ops_only = r.chance(2, 5);
    let t = gen_tree(&mut r, depth, ops_only);
    let st = Style::random(&mut r);
    let ok = check_tree(&t, &st, &ALL_PCTX, rep, json!({"part": "tree", "case_seed": case_seed}));
    if ok {
        let text = print_tree(&t, Mode::Min, &Style::plain());
        rep.eval(hash_str(&text), count_ops(&t) >= 2);
        rep.count("trees_random", 1);
        rep.count(&format!("trees_by_height[{}]", tree_depth(&t).min(9)), 1);
        rep.count("tree_operators", count_ops(&t) as u64);
        if rep.want_sample() && count_ops(&t) >= 4 && text.len() < 200 && case_seed % 7 == 0 {
            rep.sample(json!({"part": "tree", "minimal": text, "full": print_tree(&t, Mode::Full, &Style::plain())}));
        }
    }
}

/// identifiers/function names of the pools must lex as plain identifiers (otherwise the generator,
/// not the parser, would be at fault)
fn pools_are_identifiers() -> Result<(), String> {
    for n in IDENT_POOL.iter().chain(FUNC_POOL.iter()).chain(["tbl"].iter()).chain(COLLECTIONS.iter()) {
        let toks = np::tokenize(n);
        if !(toks.len() == 2 && matches!(&toks[0].kind, np::TokenKind::Ident(x) if x == n)) {
            return Err(format!("pool name {:?} is not a plain identifier for the lexer", n));
        }
    }
    Ok(())
}

// ================================================================================================
// PART A — hostile inputs
// ================================================================================================

const KEYWORDS: &[&str] = &[
    "SELECT","FROM","WHERE","AND","OR","NOT","IN","IS","LIKE","BETWEEN","CASE","WHEN","THEN","ELSE","END","AS","ON","JOIN","LEFT","RIGHT",
    "INNER","OUTER","FULL","CROSS","NATURAL","USING","GROUP","BY","HAVING","ORDER","ASC","DESC","NULLS","FIRST","LAST","LIMIT","OFFSET",
    "DISTINCT","ALL","UNION","INTERSECT","EXCEPT","EXISTS","CAST","ANY","INSERT","INTO","VALUES","UPDATE","SET","DELETE","CREATE","TABLE",
    "INDEX","DROP","ALTER","ADD","COLUMN","PRIMARY","KEY","FOREIGN","REFERENCES","UNIQUE","CHECK","DEFAULT","CONSTRAINT","CASCADE","RESTRICT",
    "IF","SHOW","TABLES","DESCRIBE","EMBEDDINGS","TRUE","FALSE","NULL","INT","INTEGER","BIGINT","SMALLINT","FLOAT","DOUBLE","REAL","DECIMAL",
    "NUMERIC","VARCHAR","CHAR","TEXT","BOOLEAN","DATE","TIME","TIMESTAMP","BLOB","COUNT","SUM","AVG","MIN","MAX","NODE","EDGE","NEIGHBORS",
    "PATH","GET","LIST","STORE","OUTGOING","INCOMING","BOTH","SHORTEST","PROPERTIES","LABEL","VERTEX","VERTICES","EDGES","EMBED","SIMILAR",
    "VECTOR","EMBEDDING","DIMENSION","DISTANCE","COSINE","EUCLIDEAN","DOT_PRODUCT","DOTPRODUCT","BUILD","BATCH","FIND","WITH","RETURN","MATCH",
    "ENTITY","CONNECTED","ROWS","VAULT","GRANT","REVOKE","ROTATE","CACHE","INIT","STATS","CLEAR","EVICT","PUT","SEMANTIC","THRESHOLD",
    "CHECKPOINT","CHECKPOINTS","ROLLBACK","CHAIN","BEGIN","COMMIT","TRANSACTION","HISTORY","DRIFT","CODEBOOK","GLOBAL","LOCAL","ANALYZE",
    "HEIGHT","TRANSITIONS","TIP","BLOCK","CLUSTER","CONNECT","DISCONNECT","STATUS","NODES","LEADER","BLOBS","INFO","LINK","UNLINK","LINKS",
    "TAG","UNTAG","VERIFY","GC","REPAIR","TO","FOR","META","ARTIFACTS","PAGERANK","BETWEENNESS","CLOSENESS","EIGENVECTOR","CENTRALITY",
    "LOUVAIN","COMMUNITIES","PROPAGATION","LABEL_PROPAGATION","DAMPING","TOLERANCE","ITERATIONS","MAX_ITERATIONS","SAMPLING","RESOLUTION",
    "PASSES","WEIGHTED","VARIABLE","HOPS","DEPTH","MAX_DEPTH","MIN_DEPTH","WEIGHT","SKIP","TOTAL","PATTERN","AGGREGATE","PROPERTY","TYPE","GRAPH",
];
const PUNCT: &[&str] = &[
    "+","-","*","/","%","=","!=","<>","<","<=",">",">=","&","&&","|","||","^","~","<<",">>","(",")","[","]","{","}",",",".",";",":","::","->","=>","?","@","#","$","!","--","/*","*/","'","\"","\\",
];
/// characters whose uppercase form has a different UTF-8 length, multi-byte and zero-width characters
const ODD_CHARS: &[&str] = &["ß","ŉ","ǰ","ΐ","ﬁ","ı","ſ","İ","ᾳ","🙂","é","中","\u{0301}","\u{200B}","\u{FEFF}","\u{2028}","\u{A0}","٣","Ⅷ","ª"];
const LEGACY_KEYWORDS: &[&str] = &["SELECT","INSERT","UPDATE","DELETE","CREATE","DROP","NODE","EDGE","NEIGHBORS","PATH","EMBED","SIMILAR"];

fn clip(mut s: String) -> String {
    if s.len() > MAX_INPUT {
        let mut e = MAX_INPUT;
        while !s.is_char_boundary(e) {
            e -= 1;
        }
        s.truncate(e);
    }
    s
}

fn rand_len(r: &mut Rng) -> usize {
    match r.below(10) {
        0 | 1 => r.below(16),
        2..=6 => 16 + r.below(240),
        _ => 256 + r.below(MAX_INPUT - 256 + 1),
    }
}

fn soup_token(r: &mut Rng) -> String {
    match r.below(20) {
        0..=10 => {
            let k = r.pick(KEYWORDS);
            if r.chance(1, 4) { k.to_lowercase() } else { k.to_string() }
        }
        11..=13 => r.pick(PUNCT).to_string(),
        14 => r.pick(IDENT_POOL).to_string(),
        15 => match r.below(8) {
            0 => "9223372036854775807".into(),
            1 => "9223372036854775808".into(),
            2 => "99999999999999999999999999".into(),
            3 => "4294967296".into(),
            _ => r.below(40).to_string(),
        },
        16 => match r.below(6) {
            0 => "1e999".into(),
            1 => "1e".into(),
            2 => "1.e5".into(),
            3 => ".5".into(),
            4 => "1e-400".into(),
            _ => format!("{:?}", r.f64_in(0.0, 10.0)),
        },
        17 => { let s: &str = STR_POOL[r.below(STR_POOL.len())]; quote_str(s, r.bool()) },
        18 => r.pick(ODD_CHARS).to_string(),
        _ => r.pick(LEGACY_KEYWORDS).to_string(),
    }
}

fn token_soup(r: &mut Rng, target: usize) -> String {
    let mut s = String::new();
    if r.chance(2, 3) {
        s.push_str(LEGACY_KEYWORDS[r.below(LEGACY_KEYWORDS.len())]);
        s.push(' ');
    }
    while s.len() < target {
        s.push_str(&soup_token(r));
        match r.below(12) {
            0 => {}
            1 => s.push('\n'),
            2 => s.push_str(" /* c */ "),
            3 => s.push('\t'),
            _ => s.push(' '),
        }
    }
    s
}

/// (open, close) strings of one nesting level, by class
fn nest_level(class: &str, r: &mut Rng) -> (&'static str, &'static str) {
    match class {
        "paren" => ("(", ")"),
        "not" => ("NOT ", ""),
        "bang" => ("!", ""),
        "neg" => ("- ", ""),
        "bitnot" => ("~", ""),
        "call" => ("f(", ")"),
        "array" => ("[", "]"),
        "case" => ("CASE WHEN ", " THEN 1 END"),
        "cast" => ("CAST(", " AS INT)"),
        "inlist" => ("1 IN (", ")"),
        "between" => ("1 BETWEEN ", " AND 2"),
        "like" => ("a LIKE ", ""),
        "exists" => ("EXISTS(SELECT ", ")"),
        "insub" => ("a IN (SELECT a FROM t WHERE ", ")"),
        "open-paren" => ("(", ""),
        "open-bracket" => ("[", ""),
        "open-call" => ("f(", ""),
        "fromsub" => ("SELECT * FROM (", ")"),
        _ => match r.below(7) {
            0 => ("(", ")"),
            1 => ("NOT ", ""),
            2 => ("- ", ""),
            3 => ("~", ""),
            4 => ("f(", ")"),
            5 => ("[", "]"),
            _ => ("!", ""),
        },
    }
}

const NEST_CLASSES: &[&str] = &[
    "paren", "not", "bang", "neg", "bitnot", "call", "array", "case", "cast", "inlist", "between", "like", "exists", "insub", "open-paren",
    "open-bracket", "open-call", "mixed", "fromsub",
];
const NEST_CTXS: &[&str] = &[
    "SELECT {} FROM t",
    "SELECT a FROM t WHERE {}",
    "INSERT INTO t VALUES ({})",
    "UPDATE t SET a = {}",
    "NODE CREATE p {k: {}}",
    "EMBED STORE 'k' [{}]",
    "DELETE FROM t WHERE {}",
    "SELECT a FROM t ORDER BY {}",
    "CREATE TABLE t (a INT DEFAULT {})",
    "SIMILAR [{}] LIMIT 3",
    "FIND NODE p WHERE {}",
    "NODE GET {}",
];

fn nest_expr(class: &str, depth: usize, seed: u64) -> String {
    let mut r = Rng::new(seed ^ 0x5EED);
    let mut open = String::new();
    let mut close: Vec<&'static str> = Vec::new();
    for _ in 0..depth {
        let (o, c) = nest_level(class, &mut r);
        open.push_str(o);
        close.push(c);
    }
    let core = match class {
        "fromsub" => "SELECT * FROM t",
        "insub" => "a = 1",
        "array" | "open-bracket" => "",
        _ => "1",
    };
    let mut s = open;
    s.push_str(core);
    for c in close.iter().rev() {
        s.push_str(c);
    }
    s
}

/// (bare expression text for parse_expr or None, statement text)
fn nest_case(class: &str, depth: usize, ctx: usize) -> (Option<String>, String) {
    let e = nest_expr(class, depth, depth as u64 * 31 + ctx as u64);
    if class == "fromsub" {
        return (None, e);
    }
    let stmt = NEST_CTXS[ctx % NEST_CTXS.len()].replacen("{}", &e, 1);
    (Some(e), stmt)
}

/// deepest nesting of `class` in context `ctx` that still fits in MAX_INPUT bytes
fn nest_max_depth(class: &str, ctx: usize) -> usize {
    let (_, s1) = nest_case(class, 1, ctx);
    let (_, s2) = nest_case(class, 2, ctx);
    let per = (s2.len() - s1.len()).max(1);
    let per = if class == "mixed" { 2 } else { per };
    1 + (MAX_INPUT.saturating_sub(s1.len())) / per
}

fn mutate(r: &mut Rng, base: &str) -> String {
    // token texts by the real lexer's spans (only used to cut the text)
    let mut toks: Vec<String> = np::tokenize(base)
        .iter()
        .filter(|t| !t.is_eof())
        .filter_map(|t| base.get(t.span.start.0 as usize..t.span.end.0 as usize).map(|x| x.to_string()))
        .collect();
    if toks.is_empty() {
        toks.push(base.to_string());
    }
    let n = 1 + r.below(4);
    for _ in 0..n {
        let len = toks.len().max(1);
        let i = r.below(len);
        match r.below(14) {
            0 => {
                if toks.len() > 1 {
                    toks.remove(i);
                }
            }
            1 => {
                let t = toks[i].clone();
                toks.insert(i, t);
            }
            2 => {
                let j = r.below(len);
                toks.swap(i, j);
            }
            3 => toks[i] = soup_token(r),
            4 => toks.insert(i, soup_token(r)),
            5 => {
                // replace a token by a nested expression
                let class = *r.pick(&NEST_CLASSES[..14]);
                let dmax = if r.chance(1, 5) { 120 } else { 24 };
                let d = 1 + r.below(dmax);
                toks[i] = nest_expr(class, d, r.next_u64());
            }
            6 => toks.truncate(i + 1),
            7 => {
                // negative number in front of a numeric literal
                if let Some(p) = toks.iter().position(|t| t.chars().next().is_some_and(|c| c.is_ascii_digit())) {
                    toks[p] = format!("-{}", toks[p]);
                }
            }
            8 => toks.insert(i, r.pick(ODD_CHARS).to_string()),
            9 => {
                let c = r.pick(ODD_CHARS);
                let t = &mut toks[i];
                let mut p = r.below(t.len() + 1);
                while !t.is_char_boundary(p) {
                    p -= 1;
                }
                t.insert_str(p, c);
            }
            10 => {
                let other = CORPUS[r.below(CORPUS.len())];
                toks.push(";".into());
                toks.push(other.to_string());
            }
            11 => {
                let other = CORPUS[r.below(CORPUS.len())];
                let cut = r.below(other.len() + 1);
                let mut p = cut;
                while !other.is_char_boundary(p) {
                    p -= 1;
                }
                toks.truncate(i + 1);
                toks.push(other[p..].to_string());
            }
            12 => {
                for t in toks.iter_mut() {
                    *t = if r.bool() { t.to_lowercase() } else { t.to_uppercase() };
                }
            }
            _ => {
                let nb = 1 + r.below(6);
                let b = r.bytes(nb);
                toks.insert(i, String::from_utf8_lossy(&b).into_owned());
            }
        }
    }
    let sep = match r.below(8) {
        0 => "\n",
        1 => "  ",
        2 => " /**/ ",
        3 => "\t",
        _ => " ",
    };
    toks.join(sep)
}

/// deterministic function of (batch_seed, idx): the idx-th hostile input of a batch
fn fuzz_input(batch_seed: u64, idx: u64) -> (&'static str, String) {
    let mut r = Rng::new(case_seed(batch_seed, idx));
    let target = rand_len(&mut r);
    let (class, s): (&'static str, String) = match r.weighted(&[8, 8, 10, 22, 40, 12]) {
        0 => ("bytes", String::from_utf8_lossy(&r.bytes(target)).into_owned()),
        1 => {
            let mut s = String::new();
            while s.len() < target {
                s.push((0x20 + r.below(0x5F) as u8) as char);
            }
            ("ascii", s)
        }
        2 => {
            let mut s = String::new();
            if r.bool() {
                s.push_str(LEGACY_KEYWORDS[r.below(LEGACY_KEYWORDS.len())]);
                s.push(' ');
            }
            while s.len() < target {
                match r.below(6) {
                    0 => s.push_str(ODD_CHARS[r.below(ODD_CHARS.len())]),
                    1 => s.push(' '),
                    2 => s.push_str(&soup_token(&mut r)),
                    _ => {
                        let c = char::from_u32(r.below(0x11_0000) as u32).unwrap_or('x');
                        s.push(c);
                    }
                }
            }
            ("unicode", s)
        }
        3 => ("soup", token_soup(&mut r, target)),
        4 => {
            let base = CORPUS[r.below(CORPUS.len())];
            ("mutant", mutate(&mut r, base))
        }
        _ => {
            let class = *r.pick(&NEST_CLASSES[..18]);
            let d = 1 + r.below(70);
            let e = nest_expr(class, d, r.next_u64());
            let ctx = r.below(NEST_CTXS.len());
            ("nest-shallow", NEST_CTXS[ctx].replacen("{}", &e, 1))
        }
    };
    (class, clip(s))
}

// ------------------------------------------------------------------------------------------------
// composite nesting: levels of SEVERAL kinds in one text. A nesting limit has to hold across
// construct boundaries (a subquery, a CASE arm, a call's arguments, an IN list ... inside which the
// nesting goes on), so the texts below put runs of cheap levels (1-2 bytes each) inside every kind
// of construct, as many as fit in MAX_INPUT bytes.
// ------------------------------------------------------------------------------------------------

/// (name, open, close) of one nesting level. The first N_FILLERS kinds cost 1-4 bytes per level.
const LEVEL_KINDS: &[(&str, &str, &str)] = &[
    ("bang", "!", ""),
    ("bitnot", "~", ""),
    ("neg", "- ", ""),
    ("not", "NOT ", ""),
    ("paren", "(", ")"),
    ("array", "[", "]"),
    ("open-paren", "(", ""),
    ("open-bracket", "[", ""),
    ("call", "f(", ")"),
    // constructs that open a new syntactic scope
    ("agg", "COUNT(", ")"),
    ("case-when", "CASE WHEN ", " THEN 1 END"),
    ("case-then", "CASE WHEN 1 THEN ", " END"),
    ("case-else", "CASE WHEN 1 THEN 1 ELSE ", " END"),
    ("case-operand", "CASE ", " WHEN 1 THEN 1 END"),
    ("cast", "CAST(", " AS INT)"),
    ("inlist", "1 IN(", ")"),
    ("inlist-lhs", "(", ") IN (1)"),
    ("between", "1 BETWEEN ", " AND 2"),
    ("between-high", "1 BETWEEN 0 AND ", ""),
    ("like", "a LIKE ", ""),
    ("tuple", "(1,", ")"),
    ("array-tail", "[1,", "]"),
    ("exists", "EXISTS(SELECT ", ")"),
    ("exists-where", "EXISTS(SELECT 1 FROM t WHERE ", ")"),
    ("insub", "a IN(SELECT ", ")"),
    ("insub-where", "a IN (SELECT a FROM t WHERE ", ")"),
    ("not-insub", "a NOT IN(SELECT ", ")"),
    ("scalar-sub", "(SELECT ", ")"),
    ("exists-from", "EXISTS(SELECT 1 FROM(SELECT ", "))"),
    ("exists-having", "EXISTS(SELECT 1 FROM t GROUP BY a HAVING ", ")"),
    ("exists-order", "EXISTS(SELECT 1 FROM t ORDER BY ", ")"),
];
const N_FILLERS: usize = 9;
/// filler levels per construct (62/63/64 straddle the documented limit of 64 inside one construct)
const COMPOSITE_KS: [usize; 7] = [1, 3, 15, 31, 62, 63, 64];

fn composite_pairs() -> usize {
    LEVEL_KINDS.len() * N_FILLERS
}

fn composite_name(pair: usize) -> String {
    format!("{}-over-{}", LEVEL_KINDS[(pair / N_FILLERS) % LEVEL_KINDS.len()].0, LEVEL_KINDS[pair % N_FILLERS].0)
}

/// `m` constructs of kind pair/N_FILLERS, each followed by `k` filler levels: (bare expression, statement)
fn composite_text(pair: usize, ctx: usize, k: usize, m: usize) -> (String, String) {
    let (_, bo, bc) = LEVEL_KINDS[(pair / N_FILLERS) % LEVEL_KINDS.len()];
    let (_, fo, fc) = LEVEL_KINDS[pair % N_FILLERS];
    let mut s = String::new();
    for _ in 0..m {
        s.push_str(bo);
        for _ in 0..k {
            s.push_str(fo);
        }
    }
    s.push('1');
    for _ in 0..m {
        for _ in 0..k {
            s.push_str(fc);
        }
        s.push_str(bc);
    }
    let stmt = NEST_CTXS[ctx % NEST_CTXS.len()].replacen("{}", &s, 1);
    (s, stmt)
}

/// (k, m) points of one pair, ascending by the number of levels m * (k + 1), the last ones filling MAX_INPUT
fn composite_ladder(pair: usize, ctx: usize) -> Vec<(usize, usize)> {
    let (_, bo, bc) = LEVEL_KINDS[(pair / N_FILLERS) % LEVEL_KINDS.len()];
    let (_, fo, fc) = LEVEL_KINDS[pair % N_FILLERS];
    let room = MAX_INPUT.saturating_sub(NEST_CTXS[ctx % NEST_CTXS.len()].len());
    let mut v: Vec<(usize, usize)> = Vec::new();
    for &k in &COMPOSITE_KS {
        let per = bo.len() + bc.len() + k * (fo.len() + fc.len());
        let mmax = room / per.max(1);
        for m in [2usize, 4, 16, 64, mmax] {
            if m >= 2 && m <= mmax {
                v.push((k, m));
            }
        }
    }
    v.sort_by_key(|&(k, m)| (m * (k + 1), k));
    v.dedup();
    v
}

/// random mixtures: periodic patterns of 1-4 (kind, run length) segments or independent random segments
fn nestmix_text(seed: u64) -> (String, String, usize) {
    let mut r = Rng::new(seed ^ 0x4E57_4D1C);
    let ctx = r.below(NEST_CTXS.len());
    let room = MAX_INPUT.saturating_sub(NEST_CTXS[ctx].len());
    let target = if r.chance(1, 4) { 100 + r.below(900) } else { room };
    const RUNS: [usize; 10] = [1, 1, 2, 5, 20, 40, 61, 62, 63, 64];
    let periodic = r.chance(2, 3);
    let np_ = 1 + r.below(4);
    let pattern: Vec<(usize, usize)> = (0..np_)
        .map(|_| {
            let kind = if r.bool() { r.below(N_FILLERS) } else { r.below(LEVEL_KINDS.len()) };
            (kind, *r.pick(&RUNS))
        })
        .collect();
    let mut open = String::new();
    let mut close: Vec<&'static str> = Vec::new();
    let mut bytes = 1usize;
    let mut levels = 0usize;
    let mut i = 0usize;
    'outer: loop {
        let (kind, run) = if periodic { pattern[i % pattern.len()] } else { (r.below(LEVEL_KINDS.len()), *r.pick(&RUNS)) };
        i += 1;
        let (_, o, c) = LEVEL_KINDS[kind];
        for _ in 0..run {
            if bytes + o.len() + c.len() > target {
                break 'outer;
            }
            open.push_str(o);
            close.push(c);
            bytes += o.len() + c.len();
            levels += 1;
        }
        if i > 5000 {
            break;
        }
    }
    let mut s = open;
    s.push('1');
    // sometimes leave the tail open (the recursion has happened by then)
    let keep = if r.chance(1, 5) { r.below(close.len() + 1) } else { close.len() };
    for c in close.iter().rev().take(keep) {
        s.push_str(c);
    }
    let stmt = NEST_CTXS[ctx].replacen("{}", &s, 1);
    (s, stmt, levels)
}

/// one generated hostile input of generator `gen` ("fuzz", "composite", "nestmix")
struct GenInput {
    class: &'static str,
    /// last component of a crash signature
    hint: String,
    text: String,
    /// text for the bare-expression parser when it differs from `text`
    expr: Option<String>,
    levels: usize,
}

/// deterministic function of (gen, batch_seed, idx). "composite": batch_seed = pair * 100 + ctx, idx = ladder position
fn gen_input(gen: &str, batch_seed: u64, idx: u64) -> GenInput {
    match gen {
        "composite" => {
            let (pair, ctx) = ((batch_seed / 100) as usize % composite_pairs(), (batch_seed % 100) as usize);
            let ladder = composite_ladder(pair, ctx);
            let (k, m) = ladder.get(idx as usize).copied().unwrap_or((1, 2));
            let (e, stmt) = composite_text(pair, ctx, k, m);
            GenInput { class: "nest-composite", hint: format!("nested-{}", composite_name(pair)), text: clip(stmt), expr: Some(clip(e)), levels: m * (k + 1) }
        }
        "nestmix" => {
            let (e, stmt, levels) = nestmix_text(case_seed(batch_seed, idx));
            GenInput { class: "nest-mix", hint: "nested-mix".to_string(), text: clip(stmt), expr: Some(clip(e)), levels }
        }
        _ => {
            let (class, text) = fuzz_input(batch_seed, idx);
            GenInput { class, hint: format!("fuzz-{}", class), text, expr: None, levels: 0 }
        }
    }
}

// ------------------------------------------------------------------------------------------------
// child process: worker thread (2 MiB stack) runs the entry points, judge thread evaluates
// ------------------------------------------------------------------------------------------------

const ENTRIES: [&str; 6] = ["tokenize", "parse_expr", "parse", "parse_all", "execute_parsed", "execute"];

fn component(entry: &str) -> &'static str {
    match entry {
        "tokenize" => "lexer",
        "parse_expr" => "expr-parser",
        "parse" | "parse_all" => "statement-parser",
        "execute_parsed" => "router-parsed",
        _ => "router-legacy",
    }
}

enum Out {
    Tokens(Result<Vec<np::Token>, Pan>),
    Expr(Result<(np::ParseResult<Expr>, np::ParseResult<Expr>), Pan>),
    Stmt(Result<(np::ParseResult<Statement>, np::ParseResult<Statement>), Pan>),
    All(Result<(np::ParseResult<Vec<Statement>>, np::ParseResult<Vec<Statement>>), Pan>),
    Exec(Result<Result<String, String>, Pan>, Option<Pan>),
}

struct Worker {
    tx: mpsc::Sender<(usize, Arc<str>)>,
    rx: mpsc::Receiver<(Out, usize)>,
}

fn result_variant(q: &QueryResult) -> String {
    let d = format!("{:?}", q);
    d.split(|c: char| !c.is_alphanumeric()).next().unwrap_or("").to_string()
}

impl Worker {
    fn spawn() -> Worker {
        let (tx, wrx) = mpsc::channel::<(usize, Arc<str>)>();
        let (wtx, rx) = mpsc::channel::<(Out, usize)>();
        std::thread::Builder::new()
            .name("c15-2MiB".into())
            .stack_size(2 << 20)
            .spawn(move || {
                let mut router: Option<QueryRouter> = None;
                while let Ok((entry, s)) = wrx.recv() {
                    common::alloc::thread_mark();
                    let out = match entry {
                        0 => Out::Tokens(guard(|| np::tokenize(&s))),
                        1 => Out::Expr(guard(|| (np::parse_expr(&s), np::parse_expr(&s)))),
                        2 => Out::Stmt(guard(|| (np::parse(&s), np::parse(&s)))),
                        3 => Out::All(guard(|| (np::parse_all(&s), np::parse_all(&s)))),
                        _ => {
                            if router.is_none() {
                                router = Some(QueryRouter::new());
                            }
                            let rt = router.as_ref().unwrap();
                            let r = guard(|| {
                                let r = if entry == 4 { rt.execute_parsed(&s) } else { rt.execute(&s) };
                                r.map(|q| result_variant(&q)).map_err(|e| e.to_string())
                            });
                            // a panic may leave engine locks poisoned: is it reproducible on a fresh router?
                            let mut fresh = None;
                            if r.is_err() {
                                let f = QueryRouter::new();
                                fresh = guard(|| {
                                    let _ = if entry == 4 { f.execute_parsed(&s) } else { f.execute(&s) };
                                })
                                .err();
                                router = Some(QueryRouter::new());
                            }
                            Out::Exec(r, fresh)
                        }
                    };
                    let largest = common::alloc::thread_largest();
                    if wtx.send((out, largest)).is_err() {
                        break;
                    }
                }
            })
            .expect("spawn worker");
        Worker { tx, rx }
    }
    fn run(&self, entry: usize, s: &Arc<str>) -> (Out, usize) {
        self.tx.send((entry, s.clone())).expect("worker gone");
        self.rx.recv().expect("worker died")
    }
}

fn span_inside(sp: np::Span, len: usize) -> bool {
    sp.start.0 <= sp.end.0 && (sp.end.0 as usize) <= len
}

fn same_err(a: &ParseError, b: &ParseError) -> bool {
    a.span == b.span && format!("{:?}", a.kind) == format!("{:?}", b.kind)
}

fn stmt_kind_name(k: &StatementKind) -> String {
    let d = format!("{:?}", k);
    d.split(|c: char| !c.is_alphanumeric()).next().unwrap_or("").to_string()
}

/// statement kinds the totality oracle lets the router execute (engines only; no vault / cache /
/// blob / checkpoint / chain / cluster side effects, no unbounded graph algorithms)
fn safe_kind(k: &StatementKind) -> bool {
    !matches!(
        k,
        StatementKind::Vault(_)
            | StatementKind::Cache(_)
            | StatementKind::Blob(_)
            | StatementKind::Blobs(_)
            | StatementKind::Checkpoint(_)
            | StatementKind::Rollback(_)
            | StatementKind::Checkpoints(_)
            | StatementKind::Chain(_)
            | StatementKind::Cluster(_)
            | StatementKind::GraphAlgorithm(_)
    )
}

struct Judge {
    worker: Worker,
    progress: std::fs::File,
    skip: Vec<bool>,
    report: Report,
}

impl Judge {
    fn mark(&self, idx: u64, entry: usize) {
        let mut b = [0u8; 16];
        b[..8].copy_from_slice(&idx.to_le_bytes());
        b[8..].copy_from_slice(&(entry as u64).to_le_bytes());
        let _ = self.progress.write_all_at(&b, 0);
    }

    fn check_pair<X: PartialEq + std::fmt::Debug>(
        &mut self,
        entry: &str,
        s: &str,
        pair: (np::ParseResult<X>, np::ParseResult<X>),
        record: bool,
        replay: &J,
    ) -> Option<np::ParseResult<X>> {
        let (a, b) = pair;
        let same = match (&a, &b) {
            (Ok(x), Ok(y)) => x == y,
            (Err(x), Err(y)) => same_err(x, y),
            _ => false,
        };
        if !same && record {
            viol(&mut self.report, 
                format!("determinism:{}", entry),
                format!("two calls of {} on the same text differ: {} vs {} (input {:?})", entry, trunc(&format!("{:?}", a), 300), trunc(&format!("{:?}", b), 300), trunc(s, 300)),
                replay.clone(),
            );
        }
        if let Err(e) = &a {
            self.report.count("error_spans_checked", 1);
            if !span_inside(e.span, s.len()) && record {
                viol(&mut self.report, 
                    format!("span-outside-input:{}:{}", entry, errkind_name(&e.kind)),
                    format!("{} error {} has span {}..{} but the input has {} bytes (input {:?})", entry, e.kind, e.span.start.0, e.span.end.0, s.len(), trunc(s, 300)),
                    replay.clone(),
                );
            }
            if matches!(e.kind, ParseErrorKind::TooDeep) {
                self.report.count(&format!("too_deep[{}]", entry), 1);
            }
        }
        drop(b);
        Some(a)
    }

    fn panic_seen(&mut self, entry: &str, s: &str, p: &Pan, record: bool, replay: &J) {
        if !record {
            return;
        }
        if pan_in_scope(p) {
            let e = match (entry, legacy_keyword(s)) {
                ("execute", Some(k)) => format!("execute[{}]", k),
                _ => entry.to_string(),
            };
            viol(&mut self.report, pan_signature(&e, p), format!("{} panicked at {}:{}: {} (input {:?})", entry, p.file, p.line, p.msg, trunc(s, 400)), replay.clone());
        } else {
            // a panic below the router (engine code) on a statement that parsed: not a statement about
            // query text; kept visible as a counter + sample
            self.report.count("panics_below_router_not_judged", 1);
            self.report.sample(json!({"panic_below_router": format!("{}:{} {}", p.file, p.line, p.msg), "entry": entry, "input": trunc(s, 300)}));
        }
    }

    /// all oracles of the totality part for one input
    fn input(&mut self, idx: u64, class: &str, text: &str, expr_text: Option<&str>, record: bool, replay: &J) {
        let s: Arc<str> = Arc::from(text);
        let es: Arc<str> = expr_text.map(Arc::from).unwrap_or_else(|| s.clone());
        let mut ntok = 0usize;
        let mut kind: Option<Result<String, ()>> = None;
        let mut safe = false;
        for (ei, entry) in ENTRIES.iter().enumerate() {
            if self.skip[ei] {
                continue;
            }
            if ei >= 4 {
                // router entries only where execution stays inside the engines
                let ok = safe || (ei == 5 && legacy_keyword(text).is_some());
                if !ok {
                    self.report.count(&format!("router_skipped_unsafe[{}]", entry), 1);
                    continue;
                }
            }
            self.mark(idx, ei);
            let (out, largest) = self.worker.run(ei, if ei == 1 { &es } else { &s });
            self.report.count_max(&format!("max:largest_single_alloc[{}]", entry), largest as u64);
            self.report.count(&format!("calls[{}]", entry), 1);
            match out {
                Out::Tokens(Err(p)) | Out::Expr(Err(p)) | Out::Stmt(Err(p)) | Out::All(Err(p)) => {
                    let t = if ei == 1 { es.clone() } else { s.clone() };
                    self.panic_seen(entry, &t, &p, record, replay);
                    if ei == 2 {
                        kind = Some(Err(()));
                    }
                }
                Out::Tokens(Ok(toks)) => {
                    ntok = toks.len().saturating_sub(1);
                    self.report.count("tokens_seen", toks.len() as u64);
                    let bad = toks.iter().find(|t| !span_inside(t.span, s.len()));
                    if let (Some(t), true) = (bad, record) {
                        viol(&mut self.report, 
                            "span-outside-input:tokenize".to_string(),
                            format!("token {:?} has span {}..{} but the input has {} bytes (input {:?})", t.kind, t.span.start.0, t.span.end.0, s.len(), trunc(&s, 300)),
                            replay.clone(),
                        );
                    }
                    if toks.last().map(|t| !t.is_eof()).unwrap_or(true) && record {
                        viol(&mut self.report, "tokenize:no-eof-token".to_string(), format!("token stream does not end with Eof (input {:?})", trunc(&s, 300)), replay.clone());
                    }
                }
                Out::Expr(Ok(pair)) => {
                    if let Some(r) = self.check_pair(entry, &es, pair, record, replay) {
                        self.report.count(if r.is_ok() { "parse_expr_ok" } else { "parse_expr_err" }, 1);
                    }
                }
                Out::Stmt(Ok(pair)) => {
                    if let Some(r) = self.check_pair(entry, &s, pair, record, replay) {
                        match &r {
                            Ok(st) => {
                                self.report.count("parse_ok", 1);
                                let k = stmt_kind_name(&st.kind);
                                self.report.count(&format!("parsed_kind[{}]", k), 1);
                                safe = safe_kind(&st.kind);
                                kind = Some(Ok(k));
                            }
                            Err(_) => {
                                self.report.count("parse_err", 1);
                                safe = true;
                                kind = Some(Err(()));
                            }
                        }
                    }
                }
                Out::All(Ok(pair)) => {
                    if let Some(r) = self.check_pair(entry, &s, pair, record, replay) {
                        self.report.count(if r.is_ok() { "parse_all_ok" } else { "parse_all_err" }, 1);
                    }
                }
                Out::Exec(res, fresh) => match res {
                    Err(p) => {
                        let stateless = fresh.is_some();
                        self.report.count(if stateless { "router_panics_stateless" } else { "router_panics_state_dependent" }, 1);
                        self.panic_seen(entry, &s, &p, record, replay);
                    }
                    Ok(Ok(v)) => {
                        self.report.count(&format!("router_ok[{}]", entry), 1);
                        self.report.count(&format!("router_ok_result[{}]", v), 1);
                    }
                    Ok(Err(_)) => self.report.count(&format!("router_err[{}]", entry), 1),
                },
            }
        }
        let _ = kind;
        self.report.count(&format!("inputs[{}]", class), 1);
        self.report.count("inputs", 1);
        self.report.count_max("max:input_bytes", text.len() as u64);
        self.report.eval(hash_str(text), ntok >= 2);
    }
}

fn flush_report(path: &Path, r: &Report) {
    let tmp = path.with_extension("tmp");
    if std::fs::write(&tmp, serde_json::to_string(&r.to_json_with_hashes()).unwrap()).is_ok() {
        let _ = std::fs::rename(&tmp, path);
    }
}

fn child_main(args: Args) {
    IS_CHILD.store(true, std::sync::atomic::Ordering::Relaxed);
    install_panic_hook();
    let h = std::thread::Builder::new()
        .name("c15-judge".into())
        .stack_size(256 << 20)
        .spawn(move || child_judge(&args))
        .expect("spawn judge");
    let code = match h.join() {
        Ok(()) => 0,
        Err(_) => 101,
    };
    std::process::exit(code);
}

fn child_judge(args: &Args) {
    let mode = args.extra.get("mode").cloned().unwrap_or_default();
    let out = PathBuf::from(args.extra.get("child-out").expect("--child-out"));
    let progress = std::fs::OpenOptions::new().create(true).write(true).truncate(true).open(args.extra.get("progress").expect("--progress")).expect("progress file");
    let skip_upto = args.extra_u64("skip-entries", 0) as usize;
    let mut j = Judge { worker: Worker::spawn(), progress, skip: (0..ENTRIES.len()).map(|i| i < skip_upto).collect(), report: Report::new() };
    j.report.max_samples = 3;
    match mode.as_str() {
        "fuzz" => {
            let batch_seed = args.extra_u64("batch-seed", 0);
            let from = args.extra_u64("from", 0);
            let count = args.extra_u64("count", 0);
            // replay: the whole prefix is executed (router state), only `only` is judged
            let only = args.extra.get("only").and_then(|x| x.parse::<u64>().ok());
            let gen = args.extra.get("gen").cloned().unwrap_or_else(|| "fuzz".to_string());
            for i in from..from + count {
                let gi = gen_input(&gen, batch_seed, i);
                let (class, s) = (gi.class, gi.text);
                let replay = json!({"part": "fuzz", "gen": gen, "batch_seed": batch_seed, "from": from, "index": i, "class": class, "text": s});
                let before = j.report.violations_total;
                j.input(i, class, &s, gi.expr.as_deref(), only.map_or(true, |o| o == i), &replay);
                if gi.levels > 0 {
                    j.report.count(&format!("nest_levels_survived[{}]", class), gi.levels as u64);
                    j.report.count_max(&format!("max:nest_levels_survived[{}]", class), gi.levels as u64);
                }
                if j.report.want_sample() && i % 997 == 3 {
                    j.report.sample(json!({"part": "fuzz", "class": class, "input": trunc(&s, 160)}));
                }
                if j.report.violations_total != before || (i - from) % 1000 == 999 {
                    flush_report(&out, &j.report);
                }
            }
        }
        "nest" => {
            let class = args.extra.get("class").cloned().unwrap_or_default();
            let depth = args.extra_u64("depth", 1) as usize;
            let ctx = args.extra_u64("ctx", 0) as usize;
            let (bare, stmt) = nest_case(&class, depth, ctx);
            if bare.is_none() {
                j.skip[1] = true;
            }
            let replay = json!({"part": "nest", "class": class, "depth": depth, "ctx": ctx});
            j.input(0, "nest", &stmt, bare.as_deref(), true, &replay);
            j.report.count(&format!("nest_survived[{}]", class), 1);
            j.report.count_max(&format!("max:nest_depth_survived[{}]", class), depth as u64);
        }
        "text" => {
            let text = std::fs::read_to_string(args.extra.get("text-file").expect("--text-file")).expect("text file");
            let replay = json!({"part": "text", "text": text});
            j.input(0, "text", &text, None, true, &replay);
        }
        other => panic!("unknown child mode {:?}", other),
    }
    flush_report(&out, &j.report);
}

// ------------------------------------------------------------------------------------------------
// parent side
// ------------------------------------------------------------------------------------------------

enum Ended {
    Clean,
    Signal { sig: i32, stderr: String, idx: u64, entry: usize },
    Exit { code: i32, stderr: String },
    Timeout { idx: u64, entry: usize },
}

struct ChildRun {
    ended: Ended,
    report: Option<Report>,
}

fn read_progress(p: &Path) -> (u64, usize) {
    let mut b = [0u8; 16];
    if let Ok(mut f) = std::fs::File::open(p) {
        if f.read_exact(&mut b).is_ok() {
            return (u64::from_le_bytes(b[..8].try_into().unwrap()), u64::from_le_bytes(b[8..].try_into().unwrap()) as usize);
        }
    }
    (u64::MAX, 0)
}

fn run_child(dir: &Path, tag: &str, child_args: &[(&str, String)], timeout: Duration) -> ChildRun {
    let out = dir.join(format!("{}.json", tag));
    let prog = dir.join(format!("{}.progress", tag));
    let _ = std::fs::remove_file(&out);
    let _ = std::fs::remove_file(&prog);
    let exe = std::env::current_exe().expect("current_exe");
    let mut cmd = std::process::Command::new(exe);
    cmd.arg("child").arg("--child-out").arg(&out).arg("--progress").arg(&prog);
    for (k, v) in child_args {
        cmd.arg(format!("--{}", k)).arg(v);
    }
    cmd.stdin(std::process::Stdio::null()).stdout(std::process::Stdio::null()).stderr(std::process::Stdio::piped());
    let mut ch = cmd.spawn().expect("spawn child");
    let mut err_pipe = ch.stderr.take();
    // stderr is tiny (a crash message); read it on a helper thread so that the child never blocks
    let err_thread = std::thread::spawn(move || {
        let mut s = String::new();
        if let Some(p) = err_pipe.as_mut() {
            let mut buf = Vec::new();
            let _ = p.take(64 * 1024).read_to_end(&mut buf);
            s = String::from_utf8_lossy(&buf).into_owned();
        }
        s
    });
    let start = Instant::now();
    let status = loop {
        match ch.try_wait() {
            Ok(Some(st)) => break Some(st),
            Ok(None) => {
                if start.elapsed() > timeout {
                    let _ = ch.kill();
                    let _ = ch.wait();
                    break None;
                }
                std::thread::sleep(Duration::from_millis(4));
            }
            Err(_) => break None,
        }
    };
    let stderr = err_thread.join().unwrap_or_default();
    let report = std::fs::read_to_string(&out).ok().and_then(|s| serde_json::from_str::<J>(&s).ok()).map(|v| Report::from_json(&v));
    let (idx, entry) = read_progress(&prog);
    let _ = std::fs::remove_file(&out);
    let _ = std::fs::remove_file(&prog);
    let ended = match status {
        None => Ended::Timeout { idx, entry },
        Some(st) => {
            if let Some(sig) = st.signal() {
                Ended::Signal { sig, stderr, idx, entry }
            } else if st.code() == Some(0) {
                Ended::Clean
            } else {
                Ended::Exit { code: st.code().unwrap_or(-1), stderr }
            }
        }
    };
    ChildRun { ended, report }
}

fn crash_kind(sig: i32, stderr: &str) -> &'static str {
    if stderr.contains("overflowed its stack") || stderr.contains("stack overflow") {
        "stack-overflow"
    } else if stderr.contains("memory allocation of") {
        "alloc-failure"
    } else if sig == 11 {
        "sigsegv"
    } else if sig == 6 {
        "abort"
    } else {
        "killed-by-signal"
    }
}

/// run one fuzz batch to completion, restarting the child after every crash
fn fuzz_batch(dir: &Path, tag: &str, batch_seed: u64, from0: u64, count: u64, only: Option<u64>, rep: &mut Report) {
    gen_batch(dir, tag, "fuzz", false, batch_seed, from0, count, only, rep);
}

/// the same for any generator of `gen_input`; `stop_at_crash`: the inputs of the batch ascend in depth,
/// so the ones behind a crash would only repeat it
fn gen_batch(dir: &Path, tag: &str, gen: &str, stop_at_crash: bool, batch_seed: u64, from0: u64, count: u64, only: Option<u64>, rep: &mut Report) -> bool {
    let end = from0 + count;
    let mut from = from0;
    let mut restarts = 0;
    while from < end && restarts < 50 {
        let mut a = vec![("mode", "fuzz".to_string()), ("gen", gen.to_string()), ("batch-seed", batch_seed.to_string()), ("from", from.to_string()), ("count", (end - from).to_string())];
        if let Some(o) = only {
            a.push(("only", o.to_string()));
        }
        let run = run_child(dir, tag, &a, Duration::from_secs(180));
        if let Some(mut r) = run.report {
            absorb(&mut r);
            rep.merge(r);
        }
        match run.ended {
            Ended::Clean => return true,
            Ended::Signal { sig, stderr, idx, entry } => {
                restarts += 1;
                if idx == u64::MAX || idx < from || idx >= end {
                    rep.inconclusive("child died before its first input");
                    return false;
                }
                let gi = gen_input(gen, batch_seed, idx);
                let (class, text) = (gi.class, gi.text);
                let kind = crash_kind(sig, &stderr);
                let e = ENTRIES[entry.min(5)];
                if kind == "alloc-failure" {
                    rep.inconclusive(&format!("allocation failure abort in {} (not judged)", e));
                    rep.sample(json!({"alloc_failure_in": e, "input": trunc(&text, 300), "stderr": trunc(&stderr, 200)}));
                } else if only.map_or(true, |o| o == idx) {
                    let hint = match (e, legacy_keyword(&text)) {
                        ("execute", Some(k)) => format!("execute[{}]", k),
                        _ => gi.hint.clone(),
                    };
                    viol(rep, 
                        format!("{}:{}:{}", kind, component(e), hint),
                        format!("child process killed by signal {} in {} on a {}-byte input of class {}: {:?}; stderr: {}", sig, e, text.len(), class, trunc(&text, 400), trunc(stderr.trim(), 200)),
                        json!({"part": "fuzz", "gen": gen, "batch_seed": batch_seed, "from": from, "index": idx, "class": class, "text": text}),
                    );
                }
                rep.count("child_crashes", 1);
                if stop_at_crash {
                    return false;
                }
                from = idx + 1;
            }
            Ended::Exit { code, stderr } => {
                rep.inconclusive(&format!("fuzz child exited with code {} (harness error)", code));
                rep.sample(json!({"child_exit": code, "stderr": trunc(&stderr, 400)}));
                return false;
            }
            Ended::Timeout { idx, entry } => {
                restarts += 1;
                if idx == u64::MAX {
                    rep.inconclusive("fuzz child timed out before its first input");
                    return false;
                }
                // one input alone with a 60 s budget (a <= 4 KiB input normally takes well under 1 ms)
                let a = vec![("mode", "fuzz".to_string()), ("gen", gen.to_string()), ("batch-seed", batch_seed.to_string()), ("from", idx.to_string()), ("count", "1".to_string())];
                let again = run_child(dir, tag, &a, Duration::from_secs(60));
                let gi = gen_input(gen, batch_seed, idx);
                let (class, text) = (gi.class, gi.text);
                let e = ENTRIES[entry.min(5)];
                match again.ended {
                    Ended::Timeout { .. } => viol(rep, 
                        format!("hang:{}:{}", component(e), gi.hint),
                        format!("{} did not return within 60 s on a {}-byte input: {:?}", e, text.len(), trunc(&text, 400)),
                        json!({"part": "fuzz", "gen": gen, "batch_seed": batch_seed, "from": idx, "index": idx, "class": class, "text": text}),
                    ),
                    _ => rep.inconclusive("fuzz batch timed out; the in-flight input alone finished in time"),
                }
                from = idx + 1;
            }
        }
    }
    from >= end
}

/// one adversarial nesting case; returns true if the child survived every entry point
fn nest_run(dir: &Path, tag: &str, class: &str, depth: usize, ctx: usize, rep: &mut Report) -> bool {
    let mut skip = 0usize;
    let mut survived = true;
    loop {
        let a = vec![("mode", "nest".to_string()), ("class", class.to_string()), ("depth", depth.to_string()), ("ctx", ctx.to_string()), ("skip-entries", skip.to_string())];
        let run = run_child(dir, tag, &a, Duration::from_secs(120));
        match run.ended {
            Ended::Clean => {
                if let Some(mut r) = run.report {
                    absorb(&mut r);
                    rep.merge(r);
                }
                return survived;
            }
            Ended::Signal { sig, stderr, entry, .. } => {
                if let Some(mut r) = run.report {
                    absorb(&mut r);
                    rep.merge(r);
                }
                survived = false;
                let e = ENTRIES[entry.min(5)];
                let (_, stmt) = nest_case(class, depth, ctx);
                let kind = crash_kind(sig, &stderr);
                rep.count("child_crashes", 1);
                rep.count(&format!("nest_crashed[{}]", class), 1);
                if kind == "alloc-failure" {
                    rep.inconclusive(&format!("allocation failure abort in {} (not judged)", e));
                    return false;
                }
                viol(rep, 
                    format!("{}:{}:nested-{}", kind, component(e), class),
                    format!(
                        "child process killed by signal {} inside {} (2 MiB-stack thread) on {} levels of `{}` nesting, {} bytes: {:?}; stderr: {}",
                        sig, e, depth, class, stmt.len(), trunc(&stmt, 120), trunc(stderr.trim(), 200)
                    ),
                    json!({"part": "nest", "class": class, "depth": depth, "ctx": ctx}),
                );
                // entries behind the crashed component are observed in a second run; parse/parse_all
                // and both router entries share the statement parser, so nothing new is behind them
                match e {
                    "tokenize" => skip = 1,
                    "parse_expr" => skip = 2,
                    _ => return false,
                }
            }
            Ended::Exit { code, stderr } => {
                rep.inconclusive(&format!("nest child exited with code {} (harness error)", code));
                rep.sample(json!({"child_exit": code, "stderr": trunc(&stderr, 400)}));
                return false;
            }
            Ended::Timeout { entry, .. } => {
                let e = ENTRIES[entry.min(5)];
                let (_, stmt) = nest_case(class, depth, ctx);
                // the nest child handles exactly one input and had 120 s
                viol(rep, 
                    format!("hang:{}:nested-{}", component(e), class),
                    format!("{} did not return within 120 s on {} levels of `{}` nesting ({} bytes)", e, depth, class, stmt.len()),
                    json!({"part": "nest", "class": class, "depth": depth, "ctx": ctx}),
                );
                return false;
            }
        }
    }
}

/// one literal input (replay of `{"part":"text","text":...}`), all entry points, fresh child
fn text_run(dir: &Path, text: &str, rep: &mut Report) {
    let f = dir.join("replay-text.txt");
    std::fs::write(&f, text).expect("write text");
    let mut skip = 0usize;
    loop {
        let a = vec![("mode", "text".to_string()), ("text-file", f.display().to_string()), ("skip-entries", skip.to_string())];
        let run = run_child(dir, "text", &a, Duration::from_secs(120));
        if let Some(mut r) = run.report {
            absorb(&mut r);
            rep.merge(r);
        }
        match run.ended {
            Ended::Clean => return,
            Ended::Signal { sig, stderr, entry, .. } => {
                let e = ENTRIES[entry.min(5)];
                let kind = crash_kind(sig, &stderr);
                let hint = match (e, legacy_keyword(text)) {
                    ("execute", Some(k)) => format!("execute[{}]", k),
                    _ => "text".to_string(),
                };
                viol(rep, 
                    format!("{}:{}:{}", kind, component(e), hint),
                    format!("child process killed by signal {} in {} on {:?}; stderr: {}", sig, e, trunc(text, 400), trunc(stderr.trim(), 200)),
                    json!({"part": "text", "text": text}),
                );
                if entry + 1 >= ENTRIES.len() {
                    return;
                }
                skip = entry + 1;
            }
            Ended::Exit { code, stderr } => {
                rep.inconclusive(&format!("text child exited with code {} (harness error)", code));
                rep.sample(json!({"child_exit": code, "stderr": trunc(&stderr, 400)}));
                return;
            }
            Ended::Timeout { entry, .. } => {
                viol(rep, format!("hang:{}:text", component(ENTRIES[entry.min(5)])), format!("no answer within 120 s on {:?}", trunc(text, 400)), json!({"part": "text", "text": text}));
                return;
            }
        }
    }
}

fn nest_ladder(max: usize, quick: bool) -> Vec<usize> {
    let base: &[usize] = if quick { &[16, 64, 65, 200, 500, 1000, 1500, 2000] } else { &[1, 8, 32, 63, 64, 65, 100, 150, 200, 300, 400, 600, 800, 1000, 1250, 1500, 1750, 2000, 3000] };
    let mut v: Vec<usize> = base.iter().copied().filter(|&d| d < max).collect();
    v.push(max);
    v
}

fn totality_part(args: &Args, total: &mut Report) {
    let scratch = args.scratch_dir("c15");
    let dir = scratch.path().to_path_buf();
    // ---- adversarial nesting: one child per (class, context, depth), ascending, stop at first crash
    let ctxs: Vec<usize> = if args.quick() { vec![0, 1, 2] } else { (0..NEST_CTXS.len()).collect() };
    let mut jobs: Vec<(String, usize)> = Vec::new();
    for c in NEST_CLASSES {
        if *c == "fromsub" {
            jobs.push((c.to_string(), 0));
        } else {
            for &x in &ctxs {
                jobs.push((c.to_string(), x));
            }
        }
    }
    let jobs = Arc::new(jobs);
    let quick = args.quick();
    let d2 = dir.clone();
    let j2 = jobs.clone();
    let rep = par_cases(args.threads, args.seed, jobs.len() as u64, args.budget(240, 1500), move |i, _s, r| {
        let (class, ctx) = &j2[i as usize];
        let max = nest_max_depth(class, *ctx);
        for d in nest_ladder(max, quick) {
            r.count("nest_cases", 1);
            if !nest_run(&d2, &format!("nest-{}", i), class, d, *ctx, r) {
                break;
            }
        }
    });
    total.merge(rep);
    // ---- composite nesting: every construct x every cheap filler level, one child per (pair, context)
    // running its ladder in ascending depth (stops at the first crash)
    let n_ctx = if args.quick() { 1 } else { NEST_CTXS.len() };
    let n_jobs = (composite_pairs() * n_ctx) as u64;
    let d4 = dir.clone();
    let seed = args.seed;
    let rep = par_cases(args.threads, args.seed ^ 0xC0B0, n_jobs, args.budget(60, 600), move |i, _s, r| {
        let pair = i as usize / n_ctx;
        // quick: one context per pair, rotating with the seed; thorough: all of them
        let ctx = if n_ctx == 1 { (pair + seed as usize) % NEST_CTXS.len() } else { i as usize % n_ctx };
        let ladder = composite_ladder(pair, ctx).len() as u64;
        let done = gen_batch(&d4, &format!("comp-{}", i), "composite", true, (pair * 100 + ctx) as u64, 0, ladder, None, r);
        r.count(if done { "composite_ladders_completed" } else { "composite_ladders_cut_short" }, 1);
    });
    total.merge(rep);
    // ---- random mixtures of all level kinds
    let n_mix = args.extra_u64("nestmix-inputs", args.by_tier(16_000, 600_000));
    let per_mix = 1_000u64;
    let d5 = dir.clone();
    let rep = par_cases(args.threads, args.seed ^ 0x4E57, (n_mix + per_mix - 1) / per_mix, args.budget(40, 400), move |b, _s, r| {
        gen_batch(&d5, &format!("mix-{}", b), "nestmix", false, hash_combine(seed, 0x4E57), b * per_mix, per_mix, None, r);
    });
    total.merge(rep);
    // ---- fuzz batches
    let n_inputs = args.extra_u64("fuzz-inputs", args.by_tier(400_000, 6_000_000));
    let per = 2_000u64;
    let batches = (n_inputs + per - 1) / per;
    let seed = args.seed;
    let d3 = dir.clone();
    let rep = par_cases(args.threads, args.seed ^ 0xF022, batches, args.budget(60, 600), move |b, _s, r| {
        fuzz_batch(&d3, &format!("fuzz-{}", b), hash_combine(seed, 0xF0F0), b * per, per, None, r);
    });
    total.merge(rep);
}

// ================================================================================================
// PART C — text vs direct engine call on twin engines
// ================================================================================================

use graph_engine::{Direction, GraphEngine, PropertyValue};
use relational_engine::{Column, ColumnType, Condition, RelationalEngine, Row, Schema, Value};
use vector_engine::{DistanceMetric, FilterCondition, FilterValue, VectorEngine};

#[derive(Clone, Debug, PartialEq)]
enum Lit {
    Null,
    Bool(bool),
    Int(i64),
    Float(f64),
    Str(String),
}

impl Lit {
    fn text(&self, st: &Style) -> String {
        match self {
            Lit::Null => st.kw("NULL"),
            Lit::Bool(b) => st.kw(if *b { "TRUE" } else { "FALSE" }),
            Lit::Int(i) => i.to_string(),
            Lit::Float(f) => format!("{:?}", f),
            Lit::Str(s) => quote_str(s, st.dq_strings),
        }
    }
    fn value(&self) -> Value {
        match self {
            Lit::Null => Value::Null,
            Lit::Bool(b) => Value::Bool(*b),
            Lit::Int(i) => Value::Int(*i),
            Lit::Float(f) => Value::Float(*f),
            Lit::Str(s) => Value::String(s.clone()),
        }
    }
    fn prop(&self) -> PropertyValue {
        match self {
            Lit::Null => PropertyValue::Null,
            Lit::Bool(b) => PropertyValue::Bool(*b),
            Lit::Int(i) => PropertyValue::Int(*i),
            Lit::Float(f) => PropertyValue::Float(*f),
            Lit::Str(s) => PropertyValue::String(s.clone()),
        }
    }
    fn is_neg(&self) -> bool {
        match self {
            Lit::Int(i) => *i < 0,
            Lit::Float(f) => *f < 0.0,
            _ => false,
        }
    }
}

#[derive(Clone, Copy, Debug, PartialEq)]
enum Ty {
    Int,
    Float,
    Str,
    Bool,
}

#[derive(Clone, Debug)]
struct ColM {
    name: String,
    ty: Ty,
    sql: &'static str,
    notnull: bool,
}

#[derive(Clone, Debug)]
enum Cond {
    Cmp(String, B, Lit),
    And(Box<Cond>, Box<Cond>),
    Or(Box<Cond>, Box<Cond>),
}

impl Cond {
    fn text(&self, st: &Style) -> String {
        match self {
            Cond::Cmp(c, op, l) => format!("{} {} {}", c, bin_text(*op, st), l.text(st)),
            Cond::And(a, b) => {
                let w = |x: &Cond, right: bool| match x {
                    Cond::Or(..) => format!("({})", x.text(st)),
                    Cond::And(..) if right => format!("({})", x.text(st)),
                    _ => x.text(st),
                };
                format!("{} {} {}", w(a, false), st.kw("AND"), w(b, true))
            }
            Cond::Or(a, b) => {
                let w = |x: &Cond, right: bool| match x {
                    Cond::Or(..) if right => format!("({})", x.text(st)),
                    _ => x.text(st),
                };
                format!("{} {} {}", w(a, false), st.kw("OR"), w(b, true))
            }
        }
    }
    fn direct(&self) -> Condition {
        match self {
            Cond::Cmp(c, op, l) => {
                let (c, v) = (c.clone(), l.value());
                match op {
                    B::Eq => Condition::Eq(c, v),
                    B::Ne => Condition::Ne(c, v),
                    B::Lt => Condition::Lt(c, v),
                    B::Le => Condition::Le(c, v),
                    B::Gt => Condition::Gt(c, v),
                    _ => Condition::Ge(c, v),
                }
            }
            Cond::And(a, b) => a.direct().and(b.direct()),
            Cond::Or(a, b) => a.direct().or(b.direct()),
        }
    }
    /// the same condition as a vector-engine metadata filter (SIMILAR .. WHERE)
    fn filter(&self) -> FilterCondition {
        match self {
            Cond::Cmp(c, op, l) => {
                let v = match l {
                    Lit::Int(i) => FilterValue::Int(*i),
                    Lit::Float(f) => FilterValue::Float(*f),
                    Lit::Str(x) => FilterValue::String(x.clone()),
                    Lit::Bool(b) => FilterValue::Bool(*b),
                    Lit::Null => FilterValue::Null,
                };
                let c = c.clone();
                match op {
                    B::Eq => FilterCondition::Eq(c, v),
                    B::Ne => FilterCondition::Ne(c, v),
                    B::Lt => FilterCondition::Lt(c, v),
                    B::Le => FilterCondition::Le(c, v),
                    B::Gt => FilterCondition::Gt(c, v),
                    _ => FilterCondition::Ge(c, v),
                }
            }
            Cond::And(a, b) => a.filter().and(b.filter()),
            Cond::Or(a, b) => a.filter().or(b.filter()),
        }
    }
    fn has_neg(&self) -> bool {
        match self {
            Cond::Cmp(_, _, l) => l.is_neg(),
            Cond::And(a, b) | Cond::Or(a, b) => a.has_neg() || b.has_neg(),
        }
    }
}

#[derive(Clone, Debug)]
enum Op {
    CreateTable { name: String, cols: Vec<ColM> },
    DropTable { name: String },
    CreateIndex { idx: String, table: String, col: String },
    ShowTables,
    Insert { table: String, cols: Option<Vec<String>>, schema_cols: Vec<String>, rows: Vec<Vec<Lit>> },
    Select { table: String, proj: Option<Vec<String>>, cond: Option<Cond>, order: Option<(String, bool)>, limit: Option<u64>, offset: Option<u64> },
    Update { table: String, sets: Vec<(String, Lit)>, cond: Option<Cond> },
    Delete { table: String, cond: Option<Cond> },
    NodeCreate { label: String, props: Vec<(String, Lit)> },
    NodeGet(u64),
    NodeDelete(u64),
    EdgeCreate { from: u64, to: u64, ty: String, props: Vec<(String, Lit)> },
    EdgeGet(u64),
    EdgeDelete(u64),
    Neighbors { id: u64, dir: u8, ty: Option<String> },
    Path { from: u64, to: u64, kw: bool },
    EmbedStore { key: String, vec: Vec<Lit> },
    EmbedGet(String),
    EmbedDelete(String),
    SimilarKey { key: String, k: u64, metric: Option<u8> },
    SimilarVec { vec: Vec<Lit>, k: u64, metric: Option<u8> },
    // families whose grammar has a LIMIT / OFFSET window
    NodeList { label: Option<String>, limit: Option<u64>, offset: Option<u64> },
    EdgeList { ty: Option<String>, limit: Option<u64>, offset: Option<u64> },
    FindNode { label: Option<String>, cond: Option<(String, B, i64)>, limit: Option<u64> },
    FindEdge { ty: Option<String>, limit: Option<u64> },
    ShowEmbeddings { limit: Option<u64> },
    CountEmbeddings,
    EntityCreate { key: String, props: Vec<(String, String)>, emb: Option<Vec<Lit>> },
    EntityConnect { from: String, to: String, ty: String },
    NeighborsBySimilar { key: String, vec: Vec<Lit>, limit: Option<u64> },
    SimilarConnected { key: String, to: String, limit: Option<u64> },
    // collection-qualified vector statements (`.. INTO <collection>`) and filtered similarity
    EmbedStoreIn { coll: String, key: String, vec: Vec<Lit> },
    EmbedGetIn { coll: String, key: String },
    EmbedDeleteIn { coll: String, key: String },
    EmbedBatch { coll: Option<String>, items: Vec<(String, Vec<Lit>)> },
    /// SIMILAR 'key' | [vector] LIMIT k [COSINE] [INTO coll] [WHERE filter]
    SimilarIn { coll: Option<String>, key: Option<String>, vec: Vec<Lit>, k: u64, cosine_kw: bool, filter: Option<Cond> },
    /// SELECT <group cols>, <aggregates> FROM t [WHERE ..] [GROUP BY <group cols>] [HAVING COUNT(..) op n]
    /// aggregate = (function 0 COUNT(*) 1 COUNT 2 SUM 3 AVG 4 MIN 5 MAX, column)
    Aggregate { table: String, group: Vec<String>, aggs: Vec<(u8, String)>, cond: Option<Cond>, having: Option<(usize, B, i64)> },
    /// GRAPH <algorithm> with every optional clause present or omitted.
    /// algo: 0 PAGERANK 1 BETWEENNESS CENTRALITY 2 CLOSENESS CENTRALITY 3 EIGENVECTOR CENTRALITY
    ///       4 LOUVAIN COMMUNITIES 5 LABEL PROPAGATION
    GraphAlgo { algo: u8, damping: Option<f64>, tolerance: Option<f64>, iterations: Option<u64>, sampling: Option<Lit>, resolution: Option<f64>, passes: Option<u64>, dir: Option<u8>, ety: Option<String> },
}

const ALGO_NAMES: [&str; 6] = ["pagerank", "betweenness", "closeness", "eigenvector", "louvain", "label-propagation"];

fn agg_text(a: &(u8, String), st: &Style) -> String {
    let f = match a.0 {
        0 | 1 => "COUNT",
        2 => "SUM",
        3 => "AVG",
        4 => "MIN",
        _ => "MAX",
    };
    let arg = if a.0 == 0 { "*".to_string() } else { a.1.clone() };
    if st.tight {
        format!("{}({})", st.kw(f), arg)
    } else {
        format!("{}( {} )", st.kw(f), arg)
    }
}

fn window_text(limit: &Option<u64>, offset: &Option<u64>, st: &Style) -> String {
    let mut s = String::new();
    if let Some(n) = limit {
        s.push_str(&format!(" {} {}", st.kw("LIMIT"), n));
    }
    if let Some(n) = offset {
        s.push_str(&format!(" {} {}", st.kw("OFFSET"), n));
    }
    s
}

fn props_text(props: &[(String, Lit)], st: &Style) -> String {
    let inner: Vec<String> = props.iter().map(|(k, v)| format!("{}: {}", k, v.text(st))).collect();
    format!("{{{}}}", inner.join(", "))
}
fn vec_text(v: &[Lit], st: &Style) -> String {
    format!("[{}]", v.iter().map(|l| l.text(st)).collect::<Vec<_>>().join(", "))
}
fn metric_text(m: Option<u8>, st: &Style) -> String {
    match m {
        None => String::new(),
        Some(0) => format!(" {}", st.kw("COSINE")),
        Some(1) => format!(" {}", st.kw("EUCLIDEAN")),
        _ => format!(" {}", st.kw("DOT_PRODUCT")),
    }
}
fn metric_direct(m: Option<u8>) -> DistanceMetric {
    match m {
        None | Some(0) => DistanceMetric::Cosine,
        Some(1) => DistanceMetric::Euclidean,
        _ => DistanceMetric::DotProduct,
    }
}
fn lit_f32(l: &Lit) -> f32 {
    match l {
        Lit::Int(i) => *i as f32,
        Lit::Float(f) => *f as f32,
        _ => 0.0,
    }
}

impl Op {
    fn family(&self) -> &'static str {
        match self {
            Op::CreateTable { .. } => "create-table",
            Op::DropTable { .. } => "drop-table",
            Op::CreateIndex { .. } => "create-index",
            Op::ShowTables => "show-tables",
            Op::Insert { .. } => "insert",
            Op::Select { .. } => "select",
            Op::Update { .. } => "update",
            Op::Delete { .. } => "delete",
            Op::NodeCreate { .. } => "node-create",
            Op::NodeGet(_) => "node-get",
            Op::NodeDelete(_) => "node-delete",
            Op::EdgeCreate { .. } => "edge-create",
            Op::EdgeGet(_) => "edge-get",
            Op::EdgeDelete(_) => "edge-delete",
            Op::Neighbors { .. } => "neighbors",
            Op::Path { .. } => "path",
            Op::EmbedStore { .. } => "embed-store",
            Op::EmbedGet(_) => "embed-get",
            Op::EmbedDelete(_) => "embed-delete",
            Op::SimilarKey { .. } => "similar-key",
            Op::SimilarVec { .. } => "similar-vector",
            Op::NodeList { .. } => "node-list",
            Op::EdgeList { .. } => "edge-list",
            Op::FindNode { .. } => "find-node",
            Op::FindEdge { .. } => "find-edge",
            Op::ShowEmbeddings { .. } => "show-embeddings",
            Op::CountEmbeddings => "count-embeddings",
            Op::EntityCreate { .. } => "entity-create",
            Op::EntityConnect { .. } => "entity-connect",
            Op::NeighborsBySimilar { .. } => "neighbors-by-similar",
            Op::SimilarConnected { .. } => "similar-connected",
            Op::EmbedStoreIn { .. } => "embed-store-into",
            Op::EmbedGetIn { .. } => "embed-get-into",
            Op::EmbedDeleteIn { .. } => "embed-delete-into",
            Op::EmbedBatch { coll: None, .. } => "embed-batch",
            Op::EmbedBatch { .. } => "embed-batch-into",
            Op::SimilarIn { coll: Some(_), key: Some(_), filter: None, .. } => "similar-key-into",
            Op::SimilarIn { coll: Some(_), key: Some(_), .. } => "similar-key-into-where",
            Op::SimilarIn { coll: Some(_), filter: None, .. } => "similar-vector-into",
            Op::SimilarIn { coll: Some(_), .. } => "similar-vector-into-where",
            Op::SimilarIn { key: Some(_), .. } => "similar-key-where",
            Op::SimilarIn { .. } => "similar-vector-where",
            Op::Aggregate { group, .. } if group.is_empty() => "select-aggregate",
            Op::Aggregate { .. } => "select-group-by",
            Op::GraphAlgo { algo: 0, .. } => "graph-pagerank",
            Op::GraphAlgo { algo: 1, .. } => "graph-betweenness",
            Op::GraphAlgo { algo: 2, .. } => "graph-closeness",
            Op::GraphAlgo { algo: 3, .. } => "graph-eigenvector",
            Op::GraphAlgo { algo: 4, .. } => "graph-louvain",
            Op::GraphAlgo { .. } => "graph-label-propagation",
        }
    }

    /// where a negative numeric literal occurs in the statement text, if anywhere
    fn neg_position(&self) -> Option<&'static str> {
        let cneg = |c: &Option<Cond>| c.as_ref().is_some_and(|c| c.has_neg());
        match self {
            Op::Insert { rows, .. } if rows.iter().flatten().any(|l| l.is_neg()) => Some("insert-values"),
            Op::Update { sets, .. } if sets.iter().any(|(_, l)| l.is_neg()) => Some("update-set"),
            Op::Select { cond, .. } | Op::Update { cond, .. } | Op::Delete { cond, .. } if cneg(cond) => Some("where"),
            Op::NodeCreate { props, .. } if props.iter().any(|(_, l)| l.is_neg()) => Some("node-property"),
            Op::EdgeCreate { props, .. } if props.iter().any(|(_, l)| l.is_neg()) => Some("edge-property"),
            Op::EmbedStore { vec, .. } if vec.iter().any(|l| l.is_neg()) => Some("embed-vector"),
            Op::SimilarVec { vec, .. } if vec.iter().any(|l| l.is_neg()) => Some("similar-vector"),
            Op::FindNode { cond: Some((_, _, v)), .. } if *v < 0 => Some("find-where"),
            Op::EntityCreate { emb: Some(vec), .. } if vec.iter().any(|l| l.is_neg()) => Some("entity-embedding"),
            Op::NeighborsBySimilar { vec, .. } if vec.iter().any(|l| l.is_neg()) => Some("neighbors-similar-vector"),
            Op::EmbedStoreIn { vec, .. } if vec.iter().any(|l| l.is_neg()) => Some("embed-vector"),
            Op::EmbedBatch { items, .. } if items.iter().any(|(_, v)| v.iter().any(|l| l.is_neg())) => Some("embed-vector"),
            Op::SimilarIn { key: None, vec, .. } if vec.iter().any(|l| l.is_neg()) => Some("similar-vector"),
            Op::SimilarIn { filter: Some(f), .. } if f.has_neg() => Some("similar-where"),
            Op::Aggregate { cond, .. } if cneg(cond) => Some("where"),
            _ => None,
        }
    }

    /// the statement text, following the grammar the statement parser accepts (its own unit tests)
    fn text(&self, st: &Style) -> String {
        let k = |s: &str| st.kw(s);
        let wh = |c: &Option<Cond>| c.as_ref().map(|c| format!(" {} {}", k("WHERE"), c.text(st))).unwrap_or_default();
        match self {
            Op::CreateTable { name, cols } => {
                let cs: Vec<String> = cols.iter().map(|c| format!("{} {}{}", c.name, k(c.sql), if c.notnull { format!(" {} {}", k("NOT"), k("NULL")) } else { String::new() })).collect();
                format!("{} {} {} ({})", k("CREATE"), k("TABLE"), name, cs.join(", "))
            }
            Op::DropTable { name } => format!("{} {} {}", k("DROP"), k("TABLE"), name),
            Op::CreateIndex { idx, table, col } => format!("{} {} {} {} {} ({})", k("CREATE"), k("INDEX"), idx, k("ON"), table, col),
            Op::ShowTables => format!("{} {}", k("SHOW"), k("TABLES")),
            Op::Insert { table, cols, rows, .. } => {
                let cl = cols.as_ref().map(|c| format!(" ({})", c.join(", "))).unwrap_or_default();
                let rs: Vec<String> = rows.iter().map(|r| format!("({})", r.iter().map(|l| l.text(st)).collect::<Vec<_>>().join(", "))).collect();
                format!("{} {} {}{} {} {}", k("INSERT"), k("INTO"), table, cl, k("VALUES"), rs.join(", "))
            }
            Op::Select { table, proj, cond, order, limit, offset } => {
                let p = proj.as_ref().map(|c| c.join(", ")).unwrap_or_else(|| "*".into());
                let mut s = format!("{} {} {} {}{}", k("SELECT"), p, k("FROM"), table, wh(cond));
                if let Some((c, desc)) = order {
                    s.push_str(&format!(" {} {} {}", k("ORDER"), k("BY"), c));
                    if *desc {
                        s.push_str(&format!(" {}", k("DESC")));
                    }
                }
                if let Some(n) = limit {
                    s.push_str(&format!(" {} {}", k("LIMIT"), n));
                }
                if let Some(n) = offset {
                    s.push_str(&format!(" {} {}", k("OFFSET"), n));
                }
                s
            }
            Op::Update { table, sets, cond } => {
                let ss: Vec<String> = sets.iter().map(|(c, l)| format!("{} = {}", c, l.text(st))).collect();
                format!("{} {} {} {}{}", k("UPDATE"), table, k("SET"), ss.join(", "), wh(cond))
            }
            Op::Delete { table, cond } => format!("{} {} {}{}", k("DELETE"), k("FROM"), table, wh(cond)),
            Op::NodeCreate { label, props } => format!("{} {} {} {}", k("NODE"), k("CREATE"), label, props_text(props, st)),
            Op::NodeGet(id) => format!("{} {} {}", k("NODE"), k("GET"), id),
            Op::NodeDelete(id) => format!("{} {} {}", k("NODE"), k("DELETE"), id),
            Op::EdgeCreate { from, to, ty, props } => {
                let p = if props.is_empty() && st.tight { String::new() } else { format!(" {}", props_text(props, st)) };
                format!("{} {} {} -> {} : {}{}", k("EDGE"), k("CREATE"), from, to, ty, p)
            }
            Op::EdgeGet(id) => format!("{} {} {}", k("EDGE"), k("GET"), id),
            Op::EdgeDelete(id) => format!("{} {} {}", k("EDGE"), k("DELETE"), id),
            Op::Neighbors { id, dir, ty } => {
                let d = match dir {
                    0 => "OUTGOING",
                    1 => "INCOMING",
                    _ => "BOTH",
                };
                format!("{} {} {}{}", k("NEIGHBORS"), id, k(d), ty.as_ref().map(|t| format!(" : {}", t)).unwrap_or_default())
            }
            Op::Path { from, to, kw } => format!("{}{} {} -> {}", k("PATH"), if *kw { format!(" {}", k("SHORTEST")) } else { String::new() }, from, to),
            Op::EmbedStore { key, vec } => format!("{} {} {} {}", k("EMBED"), k("STORE"), quote_str(key, st.dq_strings), vec_text(vec, st)),
            Op::EmbedGet(key) => format!("{} {} {}", k("EMBED"), k("GET"), quote_str(key, st.dq_strings)),
            Op::EmbedDelete(key) => format!("{} {} {}", k("EMBED"), k("DELETE"), quote_str(key, st.dq_strings)),
            Op::SimilarKey { key, k: n, metric } => format!("{} {} {} {}{}", k("SIMILAR"), quote_str(key, st.dq_strings), k("LIMIT"), n, metric_text(*metric, st)),
            Op::SimilarVec { vec, k: n, metric } => format!("{} {} {} {}{}", k("SIMILAR"), vec_text(vec, st), k("LIMIT"), n, metric_text(*metric, st)),
            Op::NodeList { label, limit, offset } => format!("{} {}{}{}", k("NODE"), k("LIST"), label.as_ref().map(|l| format!(" {}", l)).unwrap_or_default(), window_text(limit, offset, st)),
            Op::EdgeList { ty, limit, offset } => format!("{} {}{}{}", k("EDGE"), k("LIST"), ty.as_ref().map(|l| format!(" {}", l)).unwrap_or_default(), window_text(limit, offset, st)),
            Op::FindNode { label, cond, limit } => format!(
                "{} {}{}{}{}",
                k("FIND"),
                k("NODE"),
                label.as_ref().map(|l| format!(" {}", l)).unwrap_or_default(),
                cond.as_ref().map(|(c, op, v)| format!(" {} {} {} {}", k("WHERE"), c, bin_text(*op, st), v)).unwrap_or_default(),
                window_text(limit, &None, st)
            ),
            Op::FindEdge { ty, limit } => format!("{} {}{}{}", k("FIND"), k("EDGE"), ty.as_ref().map(|l| format!(" {}", l)).unwrap_or_default(), window_text(limit, &None, st)),
            Op::ShowEmbeddings { limit } => format!("{} {}{}", k("SHOW"), k("EMBEDDINGS"), window_text(limit, &None, st)),
            Op::CountEmbeddings => format!("{} {}", k("COUNT"), k("EMBEDDINGS")),
            Op::EntityCreate { key, props, emb } => {
                let ps: Vec<String> = props.iter().map(|(pk, pv)| format!("{}: {}", pk, quote_str(pv, st.dq_strings))).collect();
                format!(
                    "{} {} {} {{{}}}{}",
                    k("ENTITY"),
                    k("CREATE"),
                    quote_str(key, st.dq_strings),
                    ps.join(", "),
                    emb.as_ref().map(|v| format!(" {} {}", k("EMBEDDING"), vec_text(v, st))).unwrap_or_default()
                )
            }
            Op::EntityConnect { from, to, ty } => format!("{} {} {} -> {} : {}", k("ENTITY"), k("CONNECT"), quote_str(from, st.dq_strings), quote_str(to, st.dq_strings), ty),
            Op::NeighborsBySimilar { key, vec, limit } => format!("{} {} {} {} {} {}{}", k("NEIGHBORS"), quote_str(key, st.dq_strings), k("BOTH"), k("BY"), k("SIMILAR"), vec_text(vec, st), window_text(limit, &None, st)),
            Op::SimilarConnected { key, to, limit } => format!("{} {} {} {} {}{}", k("SIMILAR"), quote_str(key, st.dq_strings), k("CONNECTED"), k("TO"), quote_str(to, st.dq_strings), window_text(limit, &None, st)),
            Op::EmbedStoreIn { coll, key, vec } => format!("{} {} {} {} {} {}", k("EMBED"), k("STORE"), quote_str(key, st.dq_strings), vec_text(vec, st), k("INTO"), coll),
            Op::EmbedGetIn { coll, key } => format!("{} {} {} {} {}", k("EMBED"), k("GET"), quote_str(key, st.dq_strings), k("INTO"), coll),
            Op::EmbedDeleteIn { coll, key } => format!("{} {} {} {} {}", k("EMBED"), k("DELETE"), quote_str(key, st.dq_strings), k("INTO"), coll),
            Op::EmbedBatch { coll, items } => {
                let its: Vec<String> = items.iter().map(|(key, v)| format!("({}, {})", quote_str(key, st.dq_strings), vec_text(v, st))).collect();
                format!("{} {} [{}]{}", k("EMBED"), k("BATCH"), its.join(", "), coll.as_ref().map(|c| format!(" {} {}", k("INTO"), c)).unwrap_or_default())
            }
            Op::GraphAlgo { algo, damping, tolerance, iterations, sampling, resolution, passes, dir, ety } => {
                let head = match algo {
                    0 => k("PAGERANK"),
                    1 => format!("{} {}", k("BETWEENNESS"), k("CENTRALITY")),
                    2 => format!("{} {}", k("CLOSENESS"), k("CENTRALITY")),
                    3 => format!("{} {}", k("EIGENVECTOR"), k("CENTRALITY")),
                    4 => format!("{} {}", k("LOUVAIN"), k("COMMUNITIES")),
                    _ => format!("{} {}", k("LABEL"), k("PROPAGATION")),
                };
                let mut s = format!("{} {}", k("GRAPH"), head);
                if let Some(x) = damping {
                    s.push_str(&format!(" {} {:?}", k("DAMPING"), x));
                }
                if let Some(x) = sampling {
                    s.push_str(&format!(" {} {}", k("SAMPLING"), x.text(st)));
                }
                if let Some(x) = resolution {
                    s.push_str(&format!(" {} {:?}", k("RESOLUTION"), x));
                }
                if let Some(x) = passes {
                    s.push_str(&format!(" {} {}", k("PASSES"), x));
                }
                if let Some(x) = iterations {
                    s.push_str(&format!(" {} {}", k("ITERATIONS"), x));
                }
                if let Some(x) = tolerance {
                    s.push_str(&format!(" {} {:?}", k("TOLERANCE"), x));
                }
                if let Some(d) = dir {
                    s.push_str(&format!(" {}", k(["OUTGOING", "INCOMING", "BOTH"][*d as usize % 3])));
                }
                if let Some(t) = ety {
                    s.push_str(&format!(" {} {} {}", k("EDGE"), k("TYPE"), t));
                }
                s
            }
            Op::Aggregate { table, group, aggs, cond, having } => {
                let mut items: Vec<String> = group.clone();
                items.extend(aggs.iter().map(|a| agg_text(a, st)));
                let mut s = format!("{} {} {} {}{}", k("SELECT"), items.join(", "), k("FROM"), table, wh(cond));
                if !group.is_empty() {
                    s.push_str(&format!(" {} {} {}", k("GROUP"), k("BY"), group.join(", ")));
                }
                if let Some((i, op, n)) = having {
                    s.push_str(&format!(" {} {} {} {}", k("HAVING"), agg_text(&aggs[*i], st), bin_text(*op, st), n));
                }
                s
            }
            Op::SimilarIn { coll, key, vec, k: n, cosine_kw, filter } => format!(
                "{} {} {} {}{}{}{}",
                k("SIMILAR"),
                key.as_ref().map(|x| quote_str(x, st.dq_strings)).unwrap_or_else(|| vec_text(vec, st)),
                k("LIMIT"),
                n,
                if *cosine_kw { format!(" {}", k("COSINE")) } else { String::new() },
                coll.as_ref().map(|c| format!(" {} {}", k("INTO"), c)).unwrap_or_default(),
                filter.as_ref().map(|f| format!(" {} {}", k("WHERE"), f.text(st))).unwrap_or_default()
            ),
        }
    }
}

enum Direct {
    Unit,
    Id(u64),
    Ids(Vec<u64>),
    Count(usize),
    Rows(Vec<Row>, bool),
    Tables(Vec<String>),
    Node(graph_engine::Node),
    Edge(graph_engine::Edge),
    IdSet(Vec<u64>),
    Path(Vec<u64>),
    Vector(Vec<f32>),
    Similar(Vec<(String, f32)>, Vec<(String, f32)>),
    /// complete listing (id, label/type) and the requested window
    Listing { all: Vec<(u64, String)>, limit: Option<u64>, offset: Option<u64> },
    /// FIND: candidates (right label), ids that must / must not be returned, whether nothing is left open
    Find { cands: Vec<u64>, must: Vec<u64>, must_not: Vec<u64>, exact: bool, limit: Option<u64> },
    Keys(Vec<String>, Option<u64>),
    /// the call succeeded; `Some(s)`: the text result has to mention s
    Done(Option<String>),
    /// expected result rows of an aggregate query: group key values, then one value per aggregate
    /// (`None` = not judged); `grouped` = GROUP BY present
    Groups { n_keys: usize, rows: Vec<(Vec<Value>, Vec<Option<Value>>)>, grouped: bool },
    /// per-node scores of a graph algorithm
    Scores(Vec<(u64, f64)>),
    /// communities as a partition of the node set
    Partition(Vec<Vec<u64>>),
}

fn es<E: std::fmt::Display>(e: E) -> String {
    e.to_string()
}

/// the equivalent direct engine call(s) of an operation
fn direct(op: &Op, router: &QueryRouter) -> Result<Direct, String> {
    let (rel, g, v): (&RelationalEngine, &GraphEngine, &VectorEngine) = (router.relational(), router.graph(), router.vector());
    match op {
        Op::NodeList { label, limit, offset } => {
            let nodes = match label {
                Some(l) => g.find_nodes_by_label(l).map_err(es)?,
                None => g.all_nodes(),
            };
            Ok(Direct::Listing { all: nodes.into_iter().map(|n| (n.id, n.labels.join(":"))).collect(), limit: *limit, offset: *offset })
        }
        Op::EdgeList { ty, limit, offset } => {
            let edges = match ty {
                Some(t) => g.find_edges_by_type(t).map_err(es)?,
                None => g.all_edges(),
            };
            Ok(Direct::Listing { all: edges.into_iter().map(|e| (e.id, e.edge_type)).collect(), limit: *limit, offset: *offset })
        }
        Op::FindNode { label, cond, limit } => {
            let nodes = match label {
                Some(l) => g.find_nodes_by_label(l).map_err(es)?,
                None => g.all_nodes(),
            };
            let cands: Vec<u64> = nodes.iter().map(|n| n.id).collect();
            let (mut must, mut must_not, mut exact) = (Vec::new(), Vec::new(), true);
            for n in &nodes {
                match cond {
                    None => must.push(n.id),
                    Some((c, op, val)) => match n.properties.get(c) {
                        // only an integer property compared with an integer literal has an undisputed answer
                        Some(PropertyValue::Int(x)) => {
                            let t = match op {
                                B::Eq => x == val,
                                B::Ne => x != val,
                                B::Lt => x < val,
                                B::Le => x <= val,
                                B::Gt => x > val,
                                _ => x >= val,
                            };
                            if t {
                                must.push(n.id)
                            } else {
                                must_not.push(n.id)
                            }
                        }
                        _ => exact = false,
                    },
                }
            }
            Ok(Direct::Find { cands, must, must_not, exact, limit: *limit })
        }
        Op::FindEdge { ty, limit } => {
            let edges = match ty {
                Some(t) => g.find_edges_by_type(t).map_err(es)?,
                None => g.all_edges(),
            };
            let ids: Vec<u64> = edges.iter().map(|e| e.id).collect();
            Ok(Direct::Find { cands: ids.clone(), must: ids, must_not: vec![], exact: true, limit: *limit })
        }
        Op::ShowEmbeddings { limit } => Ok(Direct::Keys(v.list_keys(), *limit)),
        Op::CountEmbeddings => Ok(Direct::Count(v.list_keys().len())),
        Op::EntityCreate { key, props, emb } => {
            let fields: HashMap<String, String> = props.iter().cloned().collect();
            router.create_unified_entity(key, fields, emb.as_ref().map(|e| e.iter().map(lit_f32).collect())).map_err(es)?;
            Ok(Direct::Done(None))
        }
        Op::EntityConnect { from, to, ty } => router.connect_entities(from, to, ty).map(|s| Direct::Done(Some(s))).map_err(es),
        Op::NeighborsBySimilar { key, vec, limit } => {
            let q: Vec<f32> = vec.iter().map(lit_f32).collect();
            // the grammar's LIMIT is optional; the book does not name a default, the router uses 10
            let k = limit.unwrap_or(10) as usize;
            let top = router.find_neighbors_by_similarity(key, &q, k).map_err(es)?;
            let full = router.find_neighbors_by_similarity(key, &q, 100_000).map_err(es)?;
            let top: Vec<(String, f32)> = top.into_iter().map(|i| (i.id, i.score.unwrap_or(0.0))).collect();
            let full: Vec<(String, f32)> = full.into_iter().map(|i| (i.id, i.score.unwrap_or(0.0))).collect();
            Ok(Direct::Similar(top, full))
        }
        Op::EmbedStoreIn { coll, key, vec } => v.store_in_collection(coll, key, vec.iter().map(lit_f32).collect()).map(|_| Direct::Unit).map_err(es),
        Op::EmbedGetIn { coll, key } => v.get_from_collection(coll, key).map(Direct::Vector).map_err(es),
        Op::EmbedDeleteIn { coll, key } => v.delete_from_collection(coll, key).map(|_| Direct::Count(1)).map_err(es),
        Op::EmbedBatch { coll, items } => {
            let mut n = 0;
            for (key, vec) in items {
                let x: Vec<f32> = vec.iter().map(lit_f32).collect();
                match coll {
                    Some(c) => v.store_in_collection(c, key, x).map_err(es)?,
                    None => v.store_embedding(key, x).map_err(es)?,
                }
                n += 1;
            }
            Ok(Direct::Count(n))
        }
        Op::Aggregate { table, group, aggs, cond, having } => aggregate_direct(rel, table, group, aggs, cond, having),
        Op::GraphAlgo { algo, damping, tolerance, iterations, sampling, resolution, passes, dir, ety } => {
            // the engine's own default configuration; only clauses written in the statement are set
            let d = dir.map(|d| match d % 3 {
                0 => Direction::Outgoing,
                1 => Direction::Incoming,
                _ => Direction::Both,
            });
            let sorted = |m: HashMap<u64, f64>| {
                let mut v: Vec<(u64, f64)> = m.into_iter().collect();
                v.sort_by_key(|p| p.0);
                v
            };
            let parts = |m: HashMap<u64, Vec<u64>>| {
                let mut v: Vec<Vec<u64>> = m
                    .into_values()
                    .map(|mut x| {
                        x.sort_unstable();
                        x
                    })
                    .collect();
                v.sort();
                v
            };
            match algo {
                0 => {
                    let mut c = graph_engine::PageRankConfig::default();
                    if let Some(x) = damping {
                        c.damping = *x;
                    }
                    if let Some(x) = tolerance {
                        c.tolerance = *x;
                    }
                    if let Some(x) = iterations {
                        c.max_iterations = *x as usize;
                    }
                    if let Some(x) = d {
                        c.direction = x;
                    }
                    c.edge_type = ety.clone();
                    let all_default = damping.is_none() && tolerance.is_none() && iterations.is_none() && d.is_none() && ety.is_none();
                    let r = if all_default { g.pagerank(None) } else { g.pagerank(Some(c)) };
                    r.map(|r| Direct::Scores(sorted(r.scores))).map_err(es)
                }
                1 | 2 | 3 => {
                    let mut c = graph_engine::CentralityConfig::default();
                    if let Some(x) = d {
                        c.direction = x;
                    }
                    c.edge_type = ety.clone();
                    if let Some(x) = sampling {
                        c.sampling_ratio = match x {
                            Lit::Int(i) => *i as f64,
                            Lit::Float(f) => *f,
                            _ => 1.0,
                        };
                    }
                    if *algo == 3 {
                        if let Some(x) = iterations {
                            c.max_iterations = *x as usize;
                        }
                        if let Some(x) = tolerance {
                            c.tolerance = *x;
                        }
                    }
                    let r = match algo {
                        1 => g.betweenness_centrality(Some(c)),
                        2 => g.closeness_centrality(Some(c)),
                        _ => g.eigenvector_centrality(Some(c)),
                    };
                    r.map(|r| Direct::Scores(sorted(r.scores))).map_err(es)
                }
                _ => {
                    let mut c = graph_engine::CommunityConfig::default();
                    if let Some(x) = d {
                        c.direction = x;
                    }
                    c.edge_type = ety.clone();
                    if *algo == 4 {
                        if let Some(x) = resolution {
                            c.resolution = *x;
                        }
                        if let Some(x) = passes {
                            c.max_passes = *x as usize;
                        }
                    } else if let Some(x) = iterations {
                        c.max_iterations = *x as usize;
                    }
                    let r = if *algo == 4 { g.louvain_communities(Some(c)) } else { g.label_propagation(Some(c)) };
                    r.map(|r| Direct::Partition(parts(r.members))).map_err(es)
                }
            }
        }
        Op::SimilarIn { coll, key, vec, k, filter, .. } => {
            // the query names a stored key of the collection the statement targets
            let q: Vec<f32> = match (key, coll) {
                (Some(key), Some(c)) => v.get_from_collection(c, key).map_err(es)?,
                (Some(key), None) => v.get_embedding(key).map_err(es)?,
                (None, _) => vec.iter().map(lit_f32).collect(),
            };
            let f = filter.as_ref().map(|c| c.filter());
            let run = |k: usize| -> Result<Vec<(String, f32)>, String> {
                let r = match (coll, &f) {
                    (Some(c), Some(f)) => v.search_filtered_in_collection(c, &q, k, f, None),
                    (Some(c), None) => v.search_in_collection(c, &q, k),
                    (None, Some(f)) => v.search_similar_filtered(&q, k, f, None),
                    (None, None) => v.search_similar_with_metric(&q, k, DistanceMetric::Cosine),
                };
                r.map(|x| x.into_iter().map(|s| (s.key, s.score)).collect()).map_err(es)
            };
            let top = run(*k as usize)?;
            let full = run(100_000)?;
            Ok(Direct::Similar(top, full))
        }
        Op::SimilarConnected { key, to, limit } => {
            let k = limit.unwrap_or(10) as usize;
            let top = router.find_similar_connected(key, to, k).map_err(es)?;
            let full = router.find_similar_connected(key, to, 100_000).map_err(es)?;
            let top: Vec<(String, f32)> = top.into_iter().map(|i| (i.id, i.score.unwrap_or(0.0))).collect();
            let full: Vec<(String, f32)> = full.into_iter().map(|i| (i.id, i.score.unwrap_or(0.0))).collect();
            Ok(Direct::Similar(top, full))
        }
        Op::CreateTable { name, cols } => {
            let cs: Vec<Column> = cols
                .iter()
                .map(|c| {
                    let col = Column::new(
                        c.name.clone(),
                        match c.ty {
                            Ty::Int => ColumnType::Int,
                            Ty::Float => ColumnType::Float,
                            Ty::Str => ColumnType::String,
                            Ty::Bool => ColumnType::Bool,
                        },
                    );
                    if c.notnull {
                        col
                    } else {
                        col.nullable()
                    }
                })
                .collect();
            rel.create_table(name, Schema::new(cs)).map_err(es)?;
            Ok(Direct::Unit)
        }
        Op::DropTable { name } => rel.drop_table(name).map(|_| Direct::Unit).map_err(es),
        Op::CreateIndex { table, col, .. } => rel.create_index(table, col).map(|_| Direct::Unit).map_err(es),
        Op::ShowTables => Ok(Direct::Tables(rel.list_tables())),
        Op::Insert { table, cols, schema_cols, rows } => {
            let names = cols.as_ref().unwrap_or(schema_cols);
            let mut ids = Vec::new();
            for r in rows {
                let mut m = HashMap::new();
                for (c, l) in names.iter().zip(r.iter()) {
                    m.insert(c.clone(), l.value());
                }
                ids.push(rel.insert(table, m).map_err(es)?);
            }
            Ok(Direct::Ids(ids))
        }
        Op::Select { table, proj, cond, order, limit, offset } => {
            let c = cond.as_ref().map(|c| c.direct()).unwrap_or(Condition::True);
            let mut rows = rel.select(table, c).map_err(es)?;
            if let Some(p) = proj {
                for r in rows.iter_mut() {
                    r.values.retain(|(k, _)| p.contains(k));
                }
            }
            let ordered = order.is_some();
            if let Some((col, desc)) = order {
                // only generated on the unique NOT NULL integer column
                rows.sort_by_key(|r| match r.get(col) {
                    Some(Value::Int(i)) => *i,
                    _ => i64::MIN,
                });
                if *desc {
                    rows.reverse();
                }
            }
            if let Some(n) = offset {
                let n = (*n as usize).min(rows.len());
                rows.drain(..n);
            }
            if let Some(n) = limit {
                rows.truncate(*n as usize);
            }
            Ok(Direct::Rows(rows, ordered))
        }
        Op::Update { table, sets, cond } => {
            let c = cond.as_ref().map(|c| c.direct()).unwrap_or(Condition::True);
            let m: HashMap<String, Value> = sets.iter().map(|(k, l)| (k.clone(), l.value())).collect();
            rel.update(table, c, m).map(Direct::Count).map_err(es)
        }
        Op::Delete { table, cond } => {
            let c = cond.as_ref().map(|c| c.direct()).unwrap_or(Condition::True);
            rel.delete_rows(table, c).map(Direct::Count).map_err(es)
        }
        Op::NodeCreate { label, props } => {
            let m: HashMap<String, PropertyValue> = props.iter().map(|(k, l)| (k.clone(), l.prop())).collect();
            g.create_node(label.clone(), m).map(Direct::Id).map_err(es)
        }
        Op::NodeGet(id) => g.get_node(*id).map(Direct::Node).map_err(es),
        Op::NodeDelete(id) => g.delete_node(*id).map(|_| Direct::Count(1)).map_err(es),
        Op::EdgeCreate { from, to, ty, props } => {
            let m: HashMap<String, PropertyValue> = props.iter().map(|(k, l)| (k.clone(), l.prop())).collect();
            g.create_edge(*from, *to, ty.clone(), m, true).map(Direct::Id).map_err(es)
        }
        Op::EdgeGet(id) => g.get_edge(*id).map(Direct::Edge).map_err(es),
        Op::EdgeDelete(id) => g.delete_edge(*id).map(|_| Direct::Count(1)).map_err(es),
        Op::Neighbors { id, dir, ty } => {
            let d = match dir {
                0 => Direction::Outgoing,
                1 => Direction::Incoming,
                _ => Direction::Both,
            };
            let ns = g.neighbors(*id, ty.as_deref(), d, None).map_err(es)?;
            let mut ids: Vec<u64> = ns.iter().map(|n| n.id).collect();
            ids.sort_unstable();
            Ok(Direct::IdSet(ids))
        }
        Op::Path { from, to, .. } => match g.find_path(*from, *to, None) {
            Ok(p) => Ok(Direct::Path(p.nodes)),
            Err(graph_engine::GraphError::PathNotFound) => Ok(Direct::Path(vec![])),
            Err(e) => Err(es(e)),
        },
        Op::EmbedStore { key, vec } => v.store_embedding(key, vec.iter().map(lit_f32).collect()).map(|_| Direct::Unit).map_err(es),
        Op::EmbedGet(key) => v.get_embedding(key).map(Direct::Vector).map_err(es),
        Op::EmbedDelete(key) => v.delete_embedding(key).map(|_| Direct::Count(1)).map_err(es),
        Op::SimilarKey { key, k, metric } => {
            let q = v.get_embedding(key).map_err(es)?;
            similar_direct(v, &q, *k, *metric)
        }
        Op::SimilarVec { vec, k, metric } => {
            let q: Vec<f32> = vec.iter().map(lit_f32).collect();
            similar_direct(v, &q, *k, *metric)
        }
    }
}

/// the engine route of an aggregate query: the rows matching WHERE are partitioned by the group key;
/// a group whose key has no NULL is aggregated by the engine's own count / count_column / sum / avg /
/// min / max under `WHERE AND key = value`; a group with a NULL in its key (the engine has no
/// `IS NULL` condition) by a fold over the engine's rows with SQL's definition (NULLs ignored,
/// COUNT of nothing = 0, AVG/MIN/MAX of nothing = NULL; SUM of nothing is left open because the
/// un-grouped route answers 0.0 where SQL says NULL)
fn aggregate_direct(rel: &RelationalEngine, table: &str, group: &[String], aggs: &[(u8, String)], cond: &Option<Cond>, having: &Option<(usize, B, i64)>) -> Result<Direct, String> {
    let base = cond.as_ref().map(|c| c.direct()).unwrap_or(Condition::True);
    let rows = rel.select(table, base.clone()).map_err(es)?;
    let schema = rel.get_schema(table).map_err(es)?;
    for c in group.iter().chain(aggs.iter().filter(|a| a.0 != 0).map(|a| &a.1)) {
        if !schema.columns.iter().any(|x| &x.name == c) {
            return Err(format!("column {} not found", c));
        }
    }
    let cell = |r: &Row, c: &str| -> Value { r.get(c).cloned().unwrap_or(Value::Null) };
    let mut keys: Vec<Vec<Value>> = Vec::new();
    if group.is_empty() {
        keys.push(vec![]);
    } else {
        for r in &rows {
            let k: Vec<Value> = group.iter().map(|c| cell(r, c)).collect();
            if !keys.contains(&k) {
                keys.push(k);
            }
        }
    }
    let mut out: Vec<(Vec<Value>, Vec<Option<Value>>)> = Vec::new();
    for key in keys {
        let members: Vec<&Row> = rows.iter().filter(|r| group.iter().zip(key.iter()).all(|(c, v)| &cell(r, c) == v)).collect();
        let null_key = key.iter().any(|v| matches!(v, Value::Null));
        let mut vals: Vec<Option<Value>> = Vec::new();
        if !null_key {
            let mut c = base.clone();
            for (col, v) in group.iter().zip(key.iter()) {
                c = c.and(Condition::Eq(col.clone(), v.clone()));
            }
            if !group.is_empty() && rel.count(table, c.clone()).map_err(es)? != members.len() as u64 {
                // the engine's own `key = value` selection disagrees with its scan: a query-engine matter, not judged here
                return Ok(Direct::Done(None));
            }
            for (f, col) in aggs {
                vals.push(Some(match f {
                    0 => Value::Int(rel.count(table, c.clone()).map_err(es)? as i64),
                    1 => Value::Int(rel.count_column(table, col, c.clone()).map_err(es)? as i64),
                    2 => Value::Float(rel.sum(table, col, c.clone()).map_err(es)?),
                    3 => rel.avg(table, col, c.clone()).map_err(es)?.map_or(Value::Null, Value::Float),
                    4 => rel.min(table, col, c.clone()).map_err(es)?.unwrap_or(Value::Null),
                    _ => rel.max(table, col, c.clone()).map_err(es)?.unwrap_or(Value::Null),
                }));
            }
        } else {
            for (f, col) in aggs {
                let present: Vec<Value> = members.iter().map(|r| cell(r, col)).filter(|v| !matches!(v, Value::Null)).collect();
                let nums: Vec<f64> = present
                    .iter()
                    .filter_map(|v| match v {
                        Value::Int(i) => Some(*i as f64),
                        Value::Float(x) => Some(*x),
                        _ => None,
                    })
                    .collect();
                let ord = |a: &Value, b: &Value| match (a, b) {
                    (Value::Int(x), Value::Int(y)) => x.cmp(y),
                    (Value::Float(x), Value::Float(y)) => x.partial_cmp(y).unwrap_or(std::cmp::Ordering::Equal),
                    (Value::String(x), Value::String(y)) => x.cmp(y),
                    (Value::Bool(x), Value::Bool(y)) => x.cmp(y),
                    _ => std::cmp::Ordering::Equal,
                };
                vals.push(match f {
                    0 => Some(Value::Int(members.len() as i64)),
                    1 => Some(Value::Int(present.len() as i64)),
                    2 => if nums.is_empty() { None } else { Some(Value::Float(nums.iter().sum())) },
                    3 => Some(if nums.is_empty() { Value::Null } else { Value::Float(nums.iter().sum::<f64>() / nums.len() as f64) }),
                    // MIN/MAX of booleans is not something the router's fold orders; left open
                    4 | 5 if present.iter().any(|v| matches!(v, Value::Bool(_))) => None,
                    4 => Some(present.iter().cloned().min_by(|a, b| ord(a, b)).unwrap_or(Value::Null)),
                    _ => Some(present.iter().cloned().max_by(|a, b| ord(a, b)).unwrap_or(Value::Null)),
                });
            }
        }
        if let Some((i, op, n)) = having {
            let cnt = match &vals[*i] {
                Some(Value::Int(x)) => *x,
                _ => return Err("HAVING on a non-count aggregate".into()),
            };
            let keep = match op {
                B::Eq => cnt == *n,
                B::Ne => cnt != *n,
                B::Lt => cnt < *n,
                B::Le => cnt <= *n,
                B::Gt => cnt > *n,
                _ => cnt >= *n,
            };
            if !keep {
                continue;
            }
        }
        out.push((key, vals));
    }
    Ok(Direct::Groups { n_keys: group.len(), rows: out, grouped: !group.is_empty() })
}

/// same node set, scores equal up to the summation order of the per-node accumulations
fn scores_agree(a: &[(u64, f64)], b: &[(u64, f64)]) -> Result<(), String> {
    if a.len() != b.len() || a.iter().zip(b.iter()).any(|(x, y)| x.0 != y.0) {
        return Err("scored node sets differ".into());
    }
    for (x, y) in a.iter().zip(b.iter()) {
        if !(f64_eq_value(x.1, y.1) || (x.1 - y.1).abs() <= 1e-9 * (1.0 + x.1.abs().max(y.1.abs()))) {
            return Err(format!("node {} scores {} vs {}", x.0, x.1, y.1));
        }
    }
    Ok(())
}

fn value_close(a: &Value, b: &Value) -> bool {
    match (a, b) {
        // sums and averages may be accumulated in another row order
        (Value::Float(x), Value::Float(y)) => f64_eq_value(*x, *y) || (x - y).abs() <= 1e-9 * x.abs().max(y.abs()),
        _ => a == b,
    }
}

fn similar_direct(v: &VectorEngine, q: &[f32], k: u64, metric: Option<u8>) -> Result<Direct, String> {
    let m = metric_direct(metric);
    let top = v.search_similar_with_metric(q, k as usize, m).map_err(es)?;
    let full = v.search_similar_with_metric(q, 100_000, m).map_err(es)?;
    Ok(Direct::Similar(top.into_iter().map(|r| (r.key, r.score)).collect(), full.into_iter().map(|r| (r.key, r.score)).collect()))
}

fn norm_row(r: &Row) -> (u64, Vec<(String, String)>) {
    let mut v: Vec<(String, String)> = r.values.iter().filter(|(_, x)| !matches!(x, Value::Null)).map(|(k, x)| (k.clone(), format!("{:?}", x))).collect();
    v.sort();
    (r.id, v)
}

fn prop_matches(pv: &PropertyValue, s: &str) -> bool {
    match pv {
        PropertyValue::Int(i) => s.parse::<i64>() == Ok(*i),
        PropertyValue::Float(f) => s.parse::<f64>().map(|x| f64_eq_value(x, *f)).unwrap_or(false),
        PropertyValue::String(x) => s == x,
        PropertyValue::Bool(b) => s.parse::<bool>() == Ok(*b),
        _ => true,
    }
}

fn parse_f32_list(s: &str) -> Option<Vec<f32>> {
    let t = s.trim().strip_prefix('[')?.strip_suffix(']')?;
    if t.trim().is_empty() {
        return Some(vec![]);
    }
    t.split(',').map(|x| x.trim().parse::<f32>().ok()).collect()
}

/// does the router's result say the same as the direct call's result?
fn results_agree(a: &QueryResult, b: &Direct, rep: &mut Report) -> Result<(), String> {
    let bad = |what: &str| Err(format!("{}: text gave {}, direct call gave {}", what, trunc(&format!("{:?}", a), 500), trunc(&direct_dbg(b), 500)));
    match (a, b) {
        (QueryResult::Empty, Direct::Unit) => Ok(()),
        (QueryResult::Ids(x), Direct::Ids(y)) if x == y => Ok(()),
        (QueryResult::Ids(x), Direct::Id(y)) if x.len() == 1 && x[0] == *y => Ok(()),
        (QueryResult::Count(x), Direct::Count(y)) if x == y => Ok(()),
        (QueryResult::TableList(x), Direct::Tables(y)) => {
            let (mut x, mut y) = (x.clone(), y.clone());
            x.sort();
            y.sort();
            if x == y {
                Ok(())
            } else {
                bad("table lists differ")
            }
        }
        (QueryResult::Rows(x), Direct::Rows(y, ordered)) => {
            let mut nx: Vec<_> = x.iter().map(norm_row).collect();
            let mut ny: Vec<_> = y.iter().map(norm_row).collect();
            if !ordered {
                nx.sort();
                ny.sort();
            }
            if nx == ny {
                Ok(())
            } else {
                bad("rows differ")
            }
        }
        (QueryResult::Nodes(x), Direct::Node(n)) => {
            if x.len() != 1 {
                return bad("expected one node");
            }
            let r = &x[0];
            let mut ka: Vec<&String> = r.properties.keys().collect();
            let mut kb: Vec<&String> = n.properties.keys().collect();
            ka.sort();
            kb.sort();
            if r.id != n.id || r.label != n.labels.join(":") || ka != kb || !n.properties.iter().all(|(k, pv)| prop_matches(pv, &r.properties[k])) {
                return bad("node differs");
            }
            Ok(())
        }
        (QueryResult::Edges(x), Direct::Edge(e)) => {
            if x.len() == 1 && x[0].id == e.id && x[0].from == e.from && x[0].to == e.to && x[0].label == e.edge_type {
                Ok(())
            } else {
                bad("edge differs")
            }
        }
        (QueryResult::Ids(x), Direct::IdSet(y)) => {
            let mut x = x.clone();
            x.sort_unstable();
            if &x == y {
                Ok(())
            } else {
                bad("neighbor sets differ")
            }
        }
        (QueryResult::Path(x), Direct::Path(y)) => {
            if x == y {
                Ok(())
            } else if x.len() == y.len() && x.first() == y.first() && x.last() == y.last() {
                // several shortest paths of equal length: which one is returned is not specified
                rep.count("path_ties_not_judged", 1);
                Ok(())
            } else {
                bad("paths differ")
            }
        }
        (QueryResult::Value(s), Direct::Vector(v)) => match parse_f32_list(s) {
            Some(x) if x.len() == v.len() && x.iter().zip(v.iter()).all(|(p, q)| f32_eq_value(*p, *q)) => Ok(()),
            _ => bad("embedding differs"),
        },
        (QueryResult::Similar(x), Direct::Similar(top, full)) => {
            let xa: Vec<(String, u32)> = x.iter().map(|r| (r.key.clone(), r.score.to_bits())).collect();
            let ya: Vec<(String, u32)> = top.iter().map(|(k, s)| (k.clone(), s.to_bits())).collect();
            if xa == ya {
                return Ok(());
            }
            // equal scores may be ordered / cut differently: same score sequence, every key carries its score
            let sx: Vec<u32> = xa.iter().map(|p| p.1).collect();
            let sy: Vec<u32> = ya.iter().map(|p| p.1).collect();
            let fullm: HashMap<&String, u32> = full.iter().map(|(k, s)| (k, s.to_bits())).collect();
            if sx == sy && xa.iter().all(|(k, s)| fullm.get(k) == Some(s)) {
                rep.count("similar_ties_not_judged", 1);
                Ok(())
            } else {
                bad("similarity results differ")
            }
        }
        (QueryResult::Nodes(x), Direct::Listing { all, limit, offset }) => {
            let got: Vec<(u64, String)> = x.iter().map(|n| (n.id, n.label.clone())).collect();
            window_agrees(&got, all, *limit, *offset).or_else(|why| bad(&why))
        }
        (QueryResult::Edges(x), Direct::Listing { all, limit, offset }) => {
            let got: Vec<(u64, String)> = x.iter().map(|e| (e.id, e.label.clone())).collect();
            window_agrees(&got, all, *limit, *offset).or_else(|why| bad(&why))
        }
        (QueryResult::Unified(u), Direct::Find { cands, must, must_not, exact, limit }) => {
            let mut ids: Vec<u64> = Vec::new();
            for it in &u.items {
                match it.id.parse::<u64>() {
                    Ok(i) => ids.push(i),
                    Err(_) => return bad("FIND returned an item whose id is not a graph id"),
                }
            }
            let lim = limit.map(|l| l as usize).unwrap_or(usize::MAX);
            let mut sorted = ids.clone();
            sorted.sort_unstable();
            sorted.dedup();
            if sorted.len() != ids.len() || ids.len() > lim || ids.iter().any(|i| !cands.contains(i)) || ids.iter().any(|i| must_not.contains(i)) {
                return bad("FIND returned duplicates, more than LIMIT, or an element that does not qualify");
            }
            if *exact && ids.len() != must.len().min(lim) {
                return bad("FIND returned a different number of elements than qualify within LIMIT");
            }
            if ids.len() < lim && must.iter().any(|i| !ids.contains(i)) {
                return bad("FIND omitted a qualifying element although LIMIT was not reached");
            }
            Ok(())
        }
        (QueryResult::Value(s), Direct::Keys(keys, limit)) => {
            let lim = limit.map(|l| l as usize).unwrap_or(usize::MAX);
            if lim == 0 && !s.trim_end().ends_with("[]") {
                return bad("SHOW EMBEDDINGS LIMIT 0 lists something");
            }
            if lim >= keys.len() && keys.iter().any(|k| !s.contains(&format!("{:?}", k))) {
                return bad("SHOW EMBEDDINGS omits a key although LIMIT covers all keys");
            }
            Ok(())
        }
        (QueryResult::PageRank(x), Direct::Scores(y)) => {
            let mut got: Vec<(u64, f64)> = x.items.iter().map(|i| (i.node_id, i.score)).collect();
            got.sort_by_key(|p| p.0);
            scores_agree(&got, y).or_else(|why| bad(&why))
        }
        (QueryResult::Centrality(x), Direct::Scores(y)) => {
            let mut got: Vec<(u64, f64)> = x.items.iter().map(|i| (i.node_id, i.score)).collect();
            got.sort_by_key(|p| p.0);
            scores_agree(&got, y).or_else(|why| bad(&why))
        }
        (QueryResult::Communities(x), Direct::Partition(y)) => {
            let mut got: Vec<Vec<u64>> = x
                .members
                .values()
                .map(|m| {
                    let mut m = m.clone();
                    m.sort_unstable();
                    m
                })
                .collect();
            got.sort();
            // community detection visits nodes in hash order and breaks ties by it (no seed clause in the
            // grammar): two runs on equal graphs may return different, equally valid partitions. Judged:
            // both are partitions of the same node set.
            let flat = |p: &Vec<Vec<u64>>| {
                let mut v: Vec<u64> = p.iter().flatten().copied().collect();
                v.sort_unstable();
                v
            };
            let (fa, fb) = (flat(&got), flat(y));
            let mut fa_d = fa.clone();
            fa_d.dedup();
            if fa != fb || fa_d.len() != fa.len() {
                return bad("communities do not partition the same node set");
            }
            rep.count(if &got == y { "community_partitions_identical" } else { "community_partitions_differ_not_judged" }, 1);
            Ok(())
        }
        (QueryResult::Rows(_), Direct::Done(None)) => {
            rep.count("aggregate_engine_inconsistent_not_judged", 1);
            Ok(())
        }
        (QueryResult::Rows(x), Direct::Groups { n_keys, rows, grouped }) => {
            if x.len() != rows.len() {
                return bad("number of result groups differs");
            }
            let mut used = vec![false; x.len()];
            for (key, vals) in rows {
                let hit = x.iter().enumerate().position(|(i, r)| {
                    !used[i]
                        && r.values.len() == n_keys + vals.len()
                        && r.values.iter().take(*n_keys).map(|p| &p.1).zip(key.iter()).all(|(a, b)| a == b)
                        && r.values.iter().skip(*n_keys).map(|p| &p.1).zip(vals.iter()).all(|(a, e)| e.as_ref().map_or(true, |e| value_close(a, e)))
                });
                match hit {
                    Some(i) => used[i] = true,
                    None => return bad("no result row carries this group's key and aggregate values"),
                }
            }
            rep.count(if *grouped { "grouped_statements_agreed" } else { "ungrouped_aggregate_statements_agreed" }, 1);
            rep.count("groups_compared", rows.len() as u64);
            rep.count("groups_with_null_in_key_agreed", rows.iter().filter(|(k, _)| k.iter().any(|v| matches!(v, Value::Null))).count() as u64);
            if rows.is_empty() {
                rep.count("aggregate_statements_with_no_group", 1);
            }
            if *grouped && rows.len() == 1 {
                rep.count("grouped_statements_with_single_group", 1);
            }
            Ok(())
        }
        (QueryResult::Value(_), Direct::Done(None)) => Ok(()),
        (QueryResult::Value(s), Direct::Done(Some(m))) if s.contains(m.as_str()) => Ok(()),
        _ => bad("result kinds differ"),
    }
}

/// `got` must be a window of `limit` elements after `offset` of the complete listing `all`; the order
/// of a listing is not specified, so the window is judged by size and membership
fn window_agrees(got: &[(u64, String)], all: &[(u64, String)], limit: Option<u64>, offset: Option<u64>) -> Result<(), String> {
    let lim = limit.map(|l| l as usize).unwrap_or(usize::MAX);
    let off = offset.unwrap_or(0) as usize;
    let want = all.len().saturating_sub(off).min(lim);
    if got.len() != want {
        return Err(format!("listing of {} elements, LIMIT {:?} OFFSET {:?}: expected {} elements, got {}", all.len(), limit, offset, want, got.len()));
    }
    let mut ids: Vec<u64> = got.iter().map(|g| g.0).collect();
    ids.sort_unstable();
    ids.dedup();
    if ids.len() != got.len() {
        return Err("listing contains an element twice".into());
    }
    if let Some(g) = got.iter().find(|g| !all.contains(g)) {
        return Err(format!("listed element {:?} is not in the direct listing", g));
    }
    Ok(())
}

fn cond_columns(c: &Cond, out: &mut Vec<String>) {
    match c {
        Cond::Cmp(col, _, _) => out.push(col.clone()),
        Cond::And(a, b) | Cond::Or(a, b) => {
            cond_columns(a, out);
            cond_columns(b, out);
        }
    }
}

/// a SELECT whose two results differ exactly by rows that hold NULL (or nothing) in a column the
/// WHERE clause compares
fn select_differs_only_on_null_rows(op: &Op, a: &QueryResult, b: &Direct) -> bool {
    let (Op::Select { cond: Some(c), table, .. }, QueryResult::Rows(x), Direct::Rows(y, _)) = (op, a, b) else {
        return false;
    };
    let _ = table;
    let mut cols = Vec::new();
    cond_columns(c, &mut cols);
    let ids = |v: &[Row]| v.iter().map(|r| r.id).collect::<std::collections::BTreeSet<u64>>();
    let (ia, ib) = (ids(x), ids(y));
    let diff: Vec<u64> = ia.symmetric_difference(&ib).copied().collect();
    if diff.is_empty() {
        return false;
    }
    let null_in_cond = |r: &Row| cols.iter().any(|c| matches!(r.get(c), None | Some(Value::Null)));
    let common_same = x.iter().filter(|r| ib.contains(&r.id)).all(|r| y.iter().any(|q| norm_row(q) == norm_row(r)));
    common_same && x.iter().chain(y.iter()).filter(|r| diff.contains(&r.id)).all(null_in_cond)
}

fn direct_dbg(d: &Direct) -> String {
    match d {
        Direct::Unit => "()".into(),
        Direct::Id(i) => format!("id {}", i),
        Direct::Ids(v) => format!("ids {:?}", v),
        Direct::Count(n) => format!("count {}", n),
        Direct::Rows(r, o) => format!("rows(ordered={}) {:?}", o, r),
        Direct::Tables(t) => format!("tables {:?}", t),
        Direct::Node(n) => format!("{:?}", n),
        Direct::Edge(e) => format!("{:?}", e),
        Direct::IdSet(v) => format!("id set {:?}", v),
        Direct::Path(p) => format!("path {:?}", p),
        Direct::Vector(v) => format!("vector {:?}", v),
        Direct::Similar(t, _) => format!("similar {:?}", t),
        Direct::Listing { all, limit, offset } => format!("listing {:?} limit {:?} offset {:?}", all, limit, offset),
        Direct::Find { cands, must, must_not, exact, limit } => format!("find: candidates {:?}, qualifying {:?}, not qualifying {:?}, exact {}, limit {:?}", cands, must, must_not, exact, limit),
        Direct::Keys(k, l) => format!("keys {:?} limit {:?}", k, l),
        Direct::Done(x) => format!("done {:?}", x),
        Direct::Groups { rows, .. } => format!("groups {:?}", rows),
        Direct::Scores(x) => format!("scores {:?}", x),
        Direct::Partition(x) => format!("partition {:?}", x),
    }
}

// ---- workload model (only used to generate mostly-meaningful statements)

#[derive(Clone, Debug)]
struct TableM {
    name: String,
    cols: Vec<ColM>,
    next_k: i64,
    alive: bool,
}

#[derive(Default)]
struct Model {
    tables: Vec<TableM>,
    nodes: Vec<u64>,
    edges: Vec<u64>,
    keys: Vec<String>,
    dim: usize,
    idx_ctr: usize,
    ents: Vec<String>,
    /// keys stored per named collection
    ckeys: BTreeMap<String, Vec<String>>,
    /// the text-side router holds an HNSW index (QueryRouter::build_vector_index was called)
    index_built: bool,
}

// pools contain names that differ only in letter case (`users`/`Users`, `person`/`Person`, `knows`/`Knows`,
// 'alice'/'Alice'): the text must address exactly the name it spells
const TABLE_NAMES: &[&str] = &["users", "orders", "t1", "items", "log_2", "Users"];
const COL_NAMES: &[&str] = &["name", "age", "score", "flag", "qty", "note", "ratio", "city"];
const LABELS: &[&str] = &["person", "doc", "team", "Item", "Person"];
const ETYPES: &[&str] = &["knows", "owns", "FOLLOWS", "rel_2", "Knows"];
const PROP_KEYS: &[&str] = &["name", "age", "w", "active", "since", "score"];
const TEXT_POOL: &[&str] = &["alice", "Alice", "Bob", "", "it's", "a\"q", "x y", "-5", "ünï", "O'Neil -- x", "back\\slash", "line\nbreak", "NULL", "1e3"];
const SQL_TYPES: &[(&str, Ty)] = &[
    ("INT", Ty::Int), ("INTEGER", Ty::Int), ("BIGINT", Ty::Int), ("SMALLINT", Ty::Int), ("FLOAT", Ty::Float), ("DOUBLE", Ty::Float), ("REAL", Ty::Float),
    ("TEXT", Ty::Str), ("VARCHAR(40)", Ty::Str), ("BOOLEAN", Ty::Bool),
];

fn gen_int(r: &mut Rng, neg_ok: bool) -> i64 {
    let x = match r.below(12) {
        0 => i64::MAX,
        1 => 1_000_000_007,
        _ => r.range(0, 30),
    };
    if neg_ok && r.chance(1, 4) {
        -x.max(1)
    } else {
        x
    }
}
fn gen_float(r: &mut Rng, neg_ok: bool) -> f64 {
    let x = match r.below(10) {
        0 => 1e-7,
        1 => 2.5e10,
        2 => 0.0,
        _ => (r.range(0, 400) as f64) / 8.0,
    };
    if neg_ok && x != 0.0 && r.chance(1, 4) {
        -x
    } else {
        x
    }
}
fn gen_lit(r: &mut Rng, ty: Ty, nullable: bool) -> Lit {
    if nullable && r.chance(1, 10) {
        return Lit::Null;
    }
    // a few type-mismatched values: both sides must reject them
    let ty = if r.chance(1, 30) { *r.pick(&[Ty::Int, Ty::Float, Ty::Str, Ty::Bool]) } else { ty };
    match ty {
        Ty::Int => Lit::Int(gen_int(r, true)),
        Ty::Float => Lit::Float(gen_float(r, true)),
        Ty::Str => Lit::Str(r.pick(TEXT_POOL).to_string()),
        Ty::Bool => Lit::Bool(r.bool()),
    }
}
fn gen_any_lit(r: &mut Rng) -> Lit {
    let ty = *r.pick(&[Ty::Int, Ty::Float, Ty::Str, Ty::Bool]);
    gen_lit(r, ty, true)
}

fn gen_cond(r: &mut Rng, t: &TableM, depth: usize) -> Cond {
    if depth == 0 || r.chance(1, 2) {
        let c = r.pick(&t.cols);
        let op = *r.pick(&[B::Eq, B::Ne, B::Lt, B::Le, B::Gt, B::Ge]);
        let lit = if c.name == "k" { Lit::Int(r.range(-2, t.next_k.max(1))) } else { gen_lit(r, c.ty, false) };
        Cond::Cmp(c.name.clone(), op, lit)
    } else if r.bool() {
        Cond::And(Box::new(gen_cond(r, t, depth - 1)), Box::new(gen_cond(r, t, depth - 1)))
    } else {
        Cond::Or(Box::new(gen_cond(r, t, depth - 1)), Box::new(gen_cond(r, t, depth - 1)))
    }
}

fn gen_vec(r: &mut Rng, dim: usize) -> Vec<Lit> {
    (0..dim)
        .map(|_| {
            let neg = r.chance(1, 3);
            if r.chance(1, 5) {
                Lit::Int(r.range(if neg { -3 } else { 0 }, 3))
            } else {
                Lit::Float(((r.range(if neg { -64 } else { 0 }, 64) as f32) / 16.0) as f64)
            }
        })
        .collect()
}

fn gen_props(r: &mut Rng) -> Vec<(String, Lit)> {
    let n = r.below(4);
    let mut v: Vec<(String, Lit)> = Vec::new();
    for _ in 0..n {
        let k = r.pick(PROP_KEYS).to_string();
        if !v.iter().any(|(x, _)| x == &k) {
            v.push((k, gen_any_lit(r)));
        }
    }
    v
}

const COLLECTIONS: &[&str] = &["coll_a", "docs_b"];
const FIXTURE_TAGS: &[&str] = &["red", "blue", "it's"];

fn vkey(r: &mut Rng) -> String {
    format!("{}{}", r.pick(&["doc", "k:", "it's ", "ü"]), r.below(12))
}

/// a key of collection `coll` (mostly one that is stored there, sometimes one only the default
/// collection has, sometimes a missing one)
fn ckey(r: &mut Rng, m: &Model, coll: &str) -> String {
    let own = m.ckeys.get(coll).filter(|v| !v.is_empty());
    match (own, r.below(8)) {
        (Some(v), 0..=5) => r.pick(v).clone(),
        (_, 6) if !m.keys.is_empty() => r.pick(&m.keys).clone(),
        (Some(v), _) => r.pick(v).clone(),
        _ => {
            if !m.keys.is_empty() && r.bool() {
                r.pick(&m.keys).clone()
            } else {
                "missing".to_string()
            }
        }
    }
}

/// metadata filter over the fixture's fields `tag` (string) and `rank` (integer)
fn gen_filter(r: &mut Rng, depth: usize) -> Cond {
    if depth == 0 || r.chance(3, 5) {
        if r.bool() {
            Cond::Cmp("tag".into(), *r.pick(&[B::Eq, B::Ne]), Lit::Str(r.pick(FIXTURE_TAGS).to_string()))
        } else {
            Cond::Cmp("rank".into(), *r.pick(&[B::Eq, B::Ne, B::Lt, B::Le, B::Gt, B::Ge]), Lit::Int(r.range(0, 4)))
        }
    } else if r.bool() {
        Cond::And(Box::new(gen_filter(r, depth - 1)), Box::new(gen_filter(r, depth - 1)))
    } else {
        Cond::Or(Box::new(gen_filter(r, depth - 1)), Box::new(gen_filter(r, depth - 1)))
    }
}

/// the same metadata-carrying embeddings on both twins (statement text cannot attach metadata): keys
/// fx0..fx3 in the default collection and in every named collection, each with its own vector
fn seed_vector_fixture(r: &mut Rng, m: &mut Model, a: &QueryRouter, b: &QueryRouter) -> Result<(), String> {
    use tensor_store::{ScalarValue, TensorValue};
    let colls: Vec<Option<&str>> = std::iter::once(None).chain(COLLECTIONS.iter().map(|c| Some(*c))).collect();
    for i in 0..4 {
        let key = format!("fx{}", i);
        for c in &colls {
            let vec: Vec<f32> = (0..m.dim).map(|_| (r.range(-32, 32) as f32) / 8.0).collect();
            let mut meta: HashMap<String, TensorValue> = HashMap::new();
            meta.insert("tag".into(), TensorValue::Scalar(ScalarValue::String(r.pick(FIXTURE_TAGS).to_string())));
            meta.insert("rank".into(), TensorValue::Scalar(ScalarValue::Int(r.range(0, 4))));
            for rt in [a, b] {
                match c {
                    Some(c) => rt.vector().store_in_collection_with_metadata(c, &key, vec.clone(), meta.clone()).map_err(es)?,
                    None => rt.vector().store_embedding_with_metadata(&key, vec.clone(), meta.clone()).map_err(es)?,
                }
            }
            match c {
                Some(c) => m.ckeys.entry(c.to_string()).or_default().push(key.clone()),
                None => m.keys.push(key.clone()),
            }
        }
    }
    Ok(())
}

fn gen_op(r: &mut Rng, m: &mut Model) -> Op {
    let live: Vec<usize> = m.tables.iter().enumerate().filter(|(_, t)| t.alive).map(|(i, _)| i).collect();
    let pick_id = |r: &mut Rng, ids: &[u64]| -> u64 {
        if ids.is_empty() || r.chance(1, 12) {
            1 + r.below(40) as u64
        } else {
            *r.pick(ids)
        }
    };
    // LIMIT / OFFSET values: absent, the boundary 0, small, larger than any result
    let window = |r: &mut Rng| -> Option<u64> {
        match r.below(10) {
            0..=2 => None,
            3 | 4 => Some(0),
            5..=7 => Some(1 + r.below(4) as u64),
            8 => Some(10),
            _ => Some(*r.pick(&[1000u64, 1_000_000, 4_294_967_296])),
        }
    };
    let ent_key = |r: &mut Rng, m: &Model| -> String {
        if m.ents.is_empty() || r.chance(1, 4) {
            format!("ent:{}", r.below(6))
        } else {
            r.pick(&m.ents).clone()
        }
    };
    if m.index_built && r.chance(1, 5) {
        let metric = if r.chance(1, 5) { None } else { Some(r.below(3) as u8) };
        let k = 1 + r.below(6) as u64;
        if !m.keys.is_empty() && r.bool() {
            return Op::SimilarKey { key: r.pick(&m.keys).clone(), k, metric };
        }
        return Op::SimilarVec { vec: gen_vec(r, m.dim), k, metric };
    }
    loop {
        match r.below(202) {
            0..=5 => {
                let name = r.pick(TABLE_NAMES).to_string();
                let n = 1 + r.below(4);
                let mut cols = vec![ColM { name: "k".into(), ty: Ty::Int, sql: "INT", notnull: true }];
                for _ in 0..n {
                    let cn = r.pick(COL_NAMES).to_string();
                    if cols.iter().any(|c| c.name == cn) {
                        continue;
                    }
                    let (sql, ty) = *r.pick(SQL_TYPES);
                    cols.push(ColM { name: cn, ty, sql, notnull: r.chance(1, 4) });
                }
                return Op::CreateTable { name, cols };
            }
            6 if !live.is_empty() => return Op::DropTable { name: if r.chance(1, 6) { "nosuch".into() } else { m.tables[*r.pick(&live)].name.clone() } },
            7 | 8 if !live.is_empty() => {
                let t = &m.tables[*r.pick(&live)];
                m.idx_ctr += 1;
                return Op::CreateIndex { idx: format!("idx_{}", m.idx_ctr), table: t.name.clone(), col: r.pick(&t.cols).name.clone() };
            }
            9 => return Op::ShowTables,
            10..=29 if !live.is_empty() => {
                let ti = *r.pick(&live);
                let t = m.tables[ti].clone();
                let explicit = r.chance(2, 3);
                let mut names: Vec<String> = t.cols.iter().map(|c| c.name.clone()).collect();
                if explicit {
                    // any order, nullable columns may be omitted
                    r.shuffle(&mut names);
                    names.retain(|n| {
                        let c = t.cols.iter().find(|c| &c.name == n).unwrap();
                        c.notnull || !r.chance(1, 4)
                    });
                }
                let nrows = 1 + r.below(3);
                let mut rows = Vec::new();
                for _ in 0..nrows {
                    let mut row = Vec::new();
                    for n in &names {
                        let c = t.cols.iter().find(|c| &c.name == n).unwrap();
                        if n == "k" {
                            row.push(Lit::Int(m.tables[ti].next_k));
                            m.tables[ti].next_k += 1;
                        } else {
                            row.push(gen_lit(r, c.ty, !c.notnull));
                        }
                    }
                    rows.push(row);
                }
                return Op::Insert { table: t.name.clone(), cols: if explicit { Some(names) } else { None }, schema_cols: t.cols.iter().map(|c| c.name.clone()).collect(), rows };
            }
            30..=47 if !live.is_empty() => {
                let t = &m.tables[*r.pick(&live)];
                let cond = if r.chance(3, 4) { Some(gen_cond(r, t, 2)) } else { None };
                let proj = if r.chance(1, 3) {
                    let mut p: Vec<String> = t.cols.iter().map(|c| c.name.clone()).filter(|_| r.bool()).collect();
                    if !p.contains(&"k".to_string()) {
                        p.insert(0, "k".into());
                    }
                    Some(p)
                } else {
                    None
                };
                let ordered = r.chance(1, 3);
                let order = if ordered { Some(("k".to_string(), r.bool())) } else { None };
                let limit = if ordered && r.bool() { Some(if r.chance(1, 6) { 1000 } else { r.below(6) as u64 }) } else { None };
                let offset = if ordered && r.chance(1, 3) { Some(if r.chance(1, 6) { 1000 } else { r.below(4) as u64 }) } else { None };
                return Op::Select { table: if r.chance(1, 25) { "nosuch".into() } else { t.name.clone() }, proj, cond, order, limit, offset };
            }
            48..=54 if !live.is_empty() => {
                let t = &m.tables[*r.pick(&live)];
                let cands: Vec<&ColM> = t.cols.iter().filter(|c| c.name != "k").collect();
                if cands.is_empty() {
                    continue;
                }
                let n = 1 + r.below(2);
                let mut sets: Vec<(String, Lit)> = Vec::new();
                for _ in 0..n {
                    let c = *r.pick(&cands);
                    if !sets.iter().any(|(x, _)| x == &c.name) {
                        sets.push((c.name.clone(), gen_lit(r, c.ty, !c.notnull)));
                    }
                }
                return Op::Update { table: t.name.clone(), sets, cond: if r.chance(4, 5) { Some(gen_cond(r, t, 1)) } else { None } };
            }
            55..=59 if !live.is_empty() => {
                let t = &m.tables[*r.pick(&live)];
                return Op::Delete { table: t.name.clone(), cond: if r.chance(5, 6) { Some(gen_cond(r, t, 1)) } else { None } };
            }
            60..=66 => return Op::NodeCreate { label: r.pick(LABELS).to_string(), props: gen_props(r) },
            67..=69 => return Op::NodeGet(pick_id(r, &m.nodes)),
            70 => return Op::NodeDelete(pick_id(r, &m.nodes)),
            71..=77 if m.nodes.len() >= 2 => {
                return Op::EdgeCreate { from: pick_id(r, &m.nodes), to: pick_id(r, &m.nodes), ty: r.pick(ETYPES).to_string(), props: if r.bool() { gen_props(r) } else { vec![] } }
            }
            78 | 79 => return Op::EdgeGet(pick_id(r, &m.edges)),
            80 => return Op::EdgeDelete(pick_id(r, &m.edges)),
            81..=84 => return Op::Neighbors { id: pick_id(r, &m.nodes), dir: r.below(3) as u8, ty: if r.chance(1, 3) { Some(r.pick(ETYPES).to_string()) } else { None } },
            85..=87 => return Op::Path { from: pick_id(r, &m.nodes), to: pick_id(r, &m.nodes), kw: r.bool() },
            88..=92 => {
                let key = if r.chance(1, 4) && !m.keys.is_empty() { r.pick(&m.keys).clone() } else { format!("{}{}", r.pick(&["doc", "k:", "it's ", "ü"]), r.below(12)) };
                let dim = if r.chance(1, 15) { m.dim + 1 } else { m.dim };
                return Op::EmbedStore { key, vec: gen_vec(r, dim) };
            }
            93 | 94 => return Op::EmbedGet(if m.keys.is_empty() || r.chance(1, 8) { "missing".into() } else { r.pick(&m.keys).clone() }),
            95 => return Op::EmbedDelete(if m.keys.is_empty() || r.chance(1, 8) { "missing".into() } else { r.pick(&m.keys).clone() }),
            96 | 97 if !m.keys.is_empty() => return Op::SimilarKey { key: r.pick(&m.keys).clone(), k: if r.chance(1, 5) { *r.pick(&[0u64, 50, 1000]) } else { 1 + r.below(5) as u64 }, metric: if r.bool() { Some(r.below(3) as u8) } else { None } },
            100..=105 => return Op::NodeList { label: if r.bool() { Some(r.pick(LABELS).to_string()) } else { None }, limit: window(r), offset: window(r) },
            106..=110 => return Op::EdgeList { ty: if r.bool() { Some(r.pick(ETYPES).to_string()) } else { None }, limit: window(r), offset: window(r) },
            111..=116 => {
                let cond = if r.bool() { Some((r.pick(&["age", "w", "score", "since"]).to_string(), *r.pick(&[B::Eq, B::Ne, B::Lt, B::Le, B::Gt, B::Ge]), r.range(-3, 30))) } else { None };
                return Op::FindNode { label: if r.chance(2, 3) { Some(r.pick(LABELS).to_string()) } else { None }, cond, limit: window(r) };
            }
            117 | 118 => return Op::FindEdge { ty: if r.bool() { Some(r.pick(ETYPES).to_string()) } else { None }, limit: window(r) },
            119..=121 => return Op::ShowEmbeddings { limit: window(r) },
            122 => return Op::CountEmbeddings,
            123..=127 => {
                let n = r.below(3);
                let mut props: Vec<(String, String)> = Vec::new();
                for _ in 0..n {
                    let k = r.pick(&["name", "title", "city"]).to_string();
                    if !props.iter().any(|(x, _)| x == &k) {
                        props.push((k, r.pick(TEXT_POOL).to_string()));
                    }
                }
                let key = ent_key(r, m);
                return Op::EntityCreate { key, props, emb: if r.chance(4, 5) { Some(gen_vec(r, m.dim)) } else { None } };
            }
            128..=130 => return Op::EntityConnect { from: ent_key(r, m), to: ent_key(r, m), ty: r.pick(ETYPES).to_string() },
            131..=133 => return Op::NeighborsBySimilar { key: ent_key(r, m), vec: gen_vec(r, m.dim), limit: window(r) },
            136..=143 => {
                // keys overlap with the default collection on purpose (same names, other vectors)
                let coll = r.pick(COLLECTIONS).to_string();
                let key = if !m.keys.is_empty() && r.chance(2, 3) { r.pick(&m.keys).clone() } else { vkey(r) };
                let dim = if r.chance(1, 15) { m.dim + 1 } else { m.dim };
                return Op::EmbedStoreIn { coll, key, vec: gen_vec(r, dim) };
            }
            144 | 145 => {
                let coll = r.pick(COLLECTIONS).to_string();
                let key = ckey(r, m, &coll);
                return Op::EmbedGetIn { coll, key };
            }
            146 => {
                let coll = r.pick(COLLECTIONS).to_string();
                let key = ckey(r, m, &coll);
                return Op::EmbedDeleteIn { coll, key };
            }
            147..=149 => {
                let n = 1 + r.below(3);
                let items = (0..n).map(|_| (if !m.keys.is_empty() && r.bool() { r.pick(&m.keys).clone() } else { vkey(r) }, gen_vec(r, m.dim))).collect();
                return Op::EmbedBatch { coll: if r.chance(2, 3) { Some(r.pick(COLLECTIONS).to_string()) } else { None }, items };
            }
            184..=201 if m.nodes.len() >= 2 => {
                let algo = if r.chance(1, 3) { 0 } else { r.below(6) as u8 };
                let opt = |r: &mut Rng| r.chance(2, 5);
                let damping = if algo == 0 && opt(r) { Some(*r.pick(&[0.5, 0.85, 0.9, 0.25])) } else { None };
                let tolerance = if (algo == 0 || algo == 3) && opt(r) { Some(*r.pick(&[1e-6, 1e-3, 1e-9])) } else { None };
                let iterations = if (algo == 0 || algo == 3 || algo == 5) && opt(r) { Some(*r.pick(&[0u64, 1, 3, 20, 100, 500])) } else { None };
                // sampling below 1.0 draws random pivots: only the full ratio has a defined answer
                let sampling = if algo == 1 && opt(r) { Some(if r.bool() { Lit::Float(1.0) } else { Lit::Int(1) }) } else { None };
                let resolution = if algo == 4 && opt(r) { Some(*r.pick(&[0.5, 1.0, 2.0])) } else { None };
                let passes = if algo == 4 && opt(r) { Some(*r.pick(&[1u64, 2, 10])) } else { None };
                let dir = if r.chance(1, 2) { Some(r.below(3) as u8) } else { None };
                let ety = if r.chance(1, 4) { Some(r.pick(ETYPES).to_string()) } else { None };
                return Op::GraphAlgo { algo, damping, tolerance, iterations, sampling, resolution, passes, dir, ety };
            }
            166..=183 if !live.is_empty() => {
                // prefer the table that received most rows
                let fullest = *live.iter().max_by_key(|i| m.tables[**i].next_k).unwrap();
                let t = &m.tables[if r.chance(2, 3) { fullest } else { *r.pick(&live) }];
                let others: Vec<&ColM> = t.cols.iter().filter(|c| c.name != "k").collect();
                if others.is_empty() {
                    continue;
                }
                // group columns: mostly the nullable low-cardinality ones; sometimes the unique key, sometimes none
                let mut group: Vec<String> = Vec::new();
                if !r.chance(1, 6) {
                    let n = 1 + r.below(2);
                    for _ in 0..n {
                        let c = if r.chance(1, 10) { "k".to_string() } else { r.pick(&others).name.clone() };
                        if !group.contains(&c) {
                            group.push(c);
                        }
                    }
                }
                let mut aggs: Vec<(u8, String)> = Vec::new();
                let n = 1 + r.below(4);
                for _ in 0..n {
                    let f = r.below(6) as u8;
                    let c = *r.pick(&others);
                    let ok = match f {
                        0 | 1 => true,
                        2 | 3 => matches!(c.ty, Ty::Int | Ty::Float),
                        _ => !matches!(c.ty, Ty::Bool),
                    };
                    let a = (f, if f == 0 { String::new() } else { c.name.clone() });
                    if ok && !aggs.contains(&a) {
                        aggs.push(a);
                    }
                }
                if aggs.is_empty() {
                    aggs.push((0, String::new()));
                }
                let counts: Vec<usize> = aggs.iter().enumerate().filter(|(_, a)| a.0 <= 1).map(|(i, _)| i).collect();
                let having = if !group.is_empty() && !counts.is_empty() && r.chance(1, 4) { Some((*r.pick(&counts), *r.pick(&[B::Eq, B::Ne, B::Lt, B::Le, B::Gt, B::Ge]), r.range(0, 3))) } else { None };
                let cond = if r.chance(1, 3) { Some(gen_cond(r, t, 1)) } else { None };
                return Op::Aggregate { table: t.name.clone(), group, aggs, cond, having };
            }
            150..=165 => {
                let coll = if r.chance(4, 5) { Some(r.pick(COLLECTIONS).to_string()) } else { None };
                let by_key = r.chance(2, 3);
                let key = if by_key {
                    Some(match &coll {
                        Some(c) => ckey(r, m, c),
                        None => {
                            if m.keys.is_empty() {
                                "missing".to_string()
                            } else {
                                r.pick(&m.keys).clone()
                            }
                        }
                    })
                } else {
                    None
                };
                // without a collection the unfiltered form is the plain SIMILAR generated elsewhere
                let filter = if coll.is_none() || r.chance(2, 5) { Some(gen_filter(r, 1)) } else { None };
                return Op::SimilarIn { coll, key, vec: if by_key { vec![] } else { gen_vec(r, m.dim) }, k: if r.chance(1, 6) { *r.pick(&[0u64, 50, 1000]) } else { 1 + r.below(5) as u64 }, cosine_kw: r.chance(1, 3), filter };
            }
            134 | 135 => return Op::SimilarConnected { key: ent_key(r, m), to: ent_key(r, m), limit: window(r) },
            98 | 99 => return Op::SimilarVec { vec: gen_vec(r, m.dim), k: if r.chance(1, 5) { *r.pick(&[0u64, 50, 1000]) } else { 1 + r.below(5) as u64 }, metric: if r.bool() { Some(r.below(3) as u8) } else { None } },
            _ => continue,
        }
    }
}

fn model_update(m: &mut Model, op: &Op, d: &Direct) {
    match (op, d) {
        (Op::CreateTable { name, cols }, _) => {
            m.tables.retain(|t| t.name != *name || t.alive);
            m.tables.push(TableM { name: name.clone(), cols: cols.clone(), next_k: 1, alive: true });
        }
        (Op::DropTable { name }, _) => {
            for t in m.tables.iter_mut() {
                if t.name == *name {
                    t.alive = false;
                }
            }
            m.tables.retain(|t| t.alive);
        }
        (Op::NodeCreate { .. }, Direct::Id(id)) => m.nodes.push(*id),
        (Op::NodeDelete(id), _) => m.nodes.retain(|x| x != id),
        (Op::EdgeCreate { .. }, Direct::Id(id)) => m.edges.push(*id),
        (Op::EdgeDelete(id), _) => m.edges.retain(|x| x != id),
        (Op::EmbedStore { key, .. }, _) => {
            if !m.keys.contains(key) {
                m.keys.push(key.clone());
            }
        }
        (Op::EmbedDelete(key), _) => m.keys.retain(|k| k != key),
        (Op::EmbedStoreIn { coll, key, .. }, _) => {
            let e = m.ckeys.entry(coll.clone()).or_default();
            if !e.contains(key) {
                e.push(key.clone());
            }
        }
        (Op::EmbedDeleteIn { coll, key }, _) => {
            if let Some(e) = m.ckeys.get_mut(coll) {
                e.retain(|k| k != key);
            }
        }
        (Op::EmbedBatch { coll, items }, _) => {
            for (key, _) in items {
                match coll {
                    Some(c) => {
                        let e = m.ckeys.entry(c.clone()).or_default();
                        if !e.contains(key) {
                            e.push(key.clone());
                        }
                    }
                    None => {
                        if !m.keys.contains(key) {
                            m.keys.push(key.clone());
                        }
                    }
                }
            }
        }
        (Op::EntityCreate { key, .. }, _) => {
            if !m.ents.contains(key) {
                m.ents.push(key.clone());
            }
        }
        _ => {}
    }
}

fn final_states_agree(a: &QueryRouter, b: &QueryRouter, tables: &[String]) -> Result<(), (String, String)> {
    let (mut ta, mut tb) = (a.relational().list_tables(), b.relational().list_tables());
    ta.sort();
    tb.sort();
    if ta != tb {
        return Err(("relational".into(), format!("tables {:?} vs {:?}", ta, tb)));
    }
    for t in tables.iter().filter(|t| ta.contains(t)) {
        let ra = a.relational().select(t, Condition::True).map_err(|e| ("relational".to_string(), e.to_string()))?;
        let rb = b.relational().select(t, Condition::True).map_err(|e| ("relational".to_string(), e.to_string()))?;
        let (mut na, mut nb): (Vec<_>, Vec<_>) = (ra.iter().map(norm_row).collect(), rb.iter().map(norm_row).collect());
        na.sort();
        nb.sort();
        if na != nb {
            return Err(("relational".into(), format!("table {}: {:?} vs {:?}", t, na, nb)));
        }
    }
    let nodes = |r: &QueryRouter| {
        let mut v: Vec<(u64, Vec<String>, BTreeMap<String, String>)> =
            r.graph().all_nodes().into_iter().map(|n| (n.id, n.labels, n.properties.iter().map(|(k, v)| (k.clone(), format!("{:?}", v))).collect())).collect();
        v.sort();
        v
    };
    if nodes(a) != nodes(b) {
        return Err(("graph".into(), format!("nodes {:?} vs {:?}", nodes(a), nodes(b))));
    }
    let edges = |r: &QueryRouter| {
        let mut v: Vec<(u64, u64, u64, String, bool, BTreeMap<String, String>)> = r
            .graph()
            .all_edges()
            .into_iter()
            .map(|e| (e.id, e.from, e.to, e.edge_type, e.directed, e.properties.iter().map(|(k, v)| (k.clone(), format!("{:?}", v))).collect()))
            .collect();
        v.sort();
        v
    };
    if edges(a) != edges(b) {
        return Err(("graph".into(), format!("edges {:?} vs {:?}", edges(a), edges(b))));
    }
    let embs = |r: &QueryRouter| {
        let mut ks = r.vector().list_keys();
        ks.sort();
        ks.into_iter().map(|k| (k.clone(), r.vector().get_embedding(&k).ok().map(|v| v.iter().map(|x| x.to_bits()).collect::<Vec<u32>>()))).collect::<Vec<_>>()
    };
    if embs(a) != embs(b) {
        return Err(("vector".into(), format!("embeddings {:?} vs {:?}", embs(a), embs(b))));
    }
    let cembs = |r: &QueryRouter| {
        let mut out = Vec::new();
        for c in COLLECTIONS {
            let mut ks = r.vector().list_collection_keys(c);
            ks.sort();
            for k in ks {
                let v = r.vector().get_from_collection(c, &k).ok().map(|v| v.iter().map(|x| x.to_bits()).collect::<Vec<u32>>());
                out.push((c.to_string(), k, v));
            }
        }
        out
    };
    if cembs(a) != cembs(b) {
        return Err(("vector".into(), format!("collection embeddings {:?} vs {:?}", cembs(a), cembs(b))));
    }
    Ok(())
}

fn equiv_case(case_seed: u64, rep: &mut Report) {
    let mut r = Rng::new(case_seed);
    let mut a = QueryRouter::new();
    let b = QueryRouter::new();
    // in some programs the text-side router gets its HNSW index built at a random step; the
    // direct engine calls do not change with it. `index_stale`: the default collection changed since.
    let build_at = if r.chance(2, 5) { Some(3 + r.below(25)) } else { None };
    let mut index_stale = false;
    let mut m = Model { dim: *r.pick(&[2usize, 3, 4, 8]), ..Default::default() };
    if r.chance(3, 5) {
        match guard(|| seed_vector_fixture(&mut r, &mut m, &a, &b)) {
            Ok(Ok(())) => rep.count("programs_with_vector_fixture", 1),
            _ => {
                rep.inconclusive("vector fixture could not be stored by direct calls");
                return;
            }
        }
    }
    let steps = 20 + r.below(30);
    let replay = json!({"part": "equiv", "case_seed": case_seed});
    let mut trace: Vec<String> = Vec::new();
    let mut all_tables: Vec<String> = Vec::new();
    for step in 0..steps {
        if build_at == Some(step) && !m.index_built {
            // same dimension everywhere, or the index cannot be built
            if let Ok(Ok(())) = guard(|| a.build_vector_index()) {
                m.index_built = true;
                index_stale = false;
                rep.count("programs_with_hnsw_index_built", 1);
                trace.push("-- router.build_vector_index()".to_string());
            }
        }
        let op = gen_op(&mut r, &mut m);
        let st = Style::random(&mut r);
        let text = op.text(&st);
        let fam = op.family();
        trace.push(text.clone());
        let ctx = |d: String| format!("step {} `{}`: {} (previous statements: {:?})", step, trunc(&text, 300), d, trace.iter().rev().skip(1).take(6).collect::<Vec<_>>());
        // the generator must only emit statements the grammar accepts; a rejection is recorded as a
        // harness problem (inconclusive), not as a verdict about the router
        match guard(|| np::parse(&text)) {
            Ok(Ok(_)) => {}
            Ok(Err(e)) => {
                rep.inconclusive(&format!("generated {} statement rejected by the parser", fam));
                rep.sample(json!({"rejected": text, "error": e.to_string()}));
                return;
            }
            Err(p) => {
                viol(rep, pan_signature("parse", &p), ctx(format!("parse panicked at {}:{}: {}", p.file, p.line, p.msg)), replay.clone());
                return;
            }
        }
        let ra = match guard(|| a.execute_parsed(&text)) {
            Ok(x) => x.map_err(|e| e.to_string()),
            Err(p) => {
                if pan_in_scope(&p) {
                    viol(rep, pan_signature("execute_parsed", &p), ctx(format!("execute_parsed panicked at {}:{}: {}", p.file, p.line, p.msg)), replay.clone());
                } else {
                    rep.count("panics_below_router_not_judged", 1);
                    rep.samples.insert(0, json!({"panic_below_router": format!("{}:{} {}", p.file, p.line, p.msg), "statement": text, "index_built": m.index_built}));
                    eprintln!("[C15] panic below the router (not judged): {}:{} {} on `{}` (index built: {})", p.file, p.line, p.msg, trunc(&text, 200), m.index_built);
                }
                return;
            }
        };
        let rb = match guard(|| direct(&op, &b)) {
            Ok(x) => x,
            Err(p) => {
                rep.count("direct_call_panics_not_judged", 1);
                rep.sample(json!({"direct_call_panic": format!("{}:{} {}", p.file, p.line, p.msg), "statement": text}));
                return;
            }
        };
        rep.count(&format!("statements[{}]", fam), 1);
        rep.count("statements", 1);
        if op.neg_position().is_some() {
            rep.count("statements_with_negative_literal", 1);
        }
        if m.index_built && ra.is_ok() != rb.is_ok() && matches!(&op, Op::SimilarKey { metric: None | Some(0), .. } | Op::SimilarVec { metric: None | Some(0), .. } | Op::SimilarConnected { .. }) {
            // the index answers from its own copy of the vectors; validation differences are not judged
            rep.count("similar_cosine_over_index_error_mismatch_not_judged", 1);
            continue;
        }
        match (&ra, &rb) {
            (Ok(qa), Ok(db)) => {
                rep.count("both_ok", 1);
                rep.count(&format!("both_ok[{}]", fam), 1);
                if let Op::GraphAlgo { algo, dir, .. } = &op {
                    // did the graph distinguish directions (some edge a->b without b->a)?
                    let edges = b.graph().all_edges();
                    let asym = edges.iter().any(|e| e.from != e.to && !edges.iter().any(|f| f.from == e.to && f.to == e.from));
                    if asym {
                        rep.count(&format!("graph_algo_on_asymmetric_graph_agreed[{}]", ALGO_NAMES[*algo as usize % 6]), 1);
                        if dir.is_none() {
                            rep.count(&format!("graph_algo_direction_omitted_on_asymmetric_graph_agreed[{}]", ALGO_NAMES[*algo as usize % 6]), 1);
                        }
                    }
                }
                if let Op::Aggregate { table, aggs, cond, group, .. } = &op {
                    // was there a NULL in an aggregated column among the rows the query covers?
                    let c = cond.as_ref().map(|c| c.direct()).unwrap_or(Condition::True);
                    if let Ok(rows) = b.relational().select(table, c) {
                        let hit = rows.iter().any(|r| aggs.iter().any(|a| a.0 != 0 && matches!(r.get(&a.1), None | Some(Value::Null))));
                        if hit {
                            rep.count(if group.is_empty() { "ungrouped_aggregates_over_null_cells_agreed" } else { "grouped_aggregates_over_null_cells_agreed" }, 1);
                        }
                    }
                }
                if let (Op::SimilarIn { coll: Some(c), key: Some(k), .. }, QueryResult::Similar(x)) = (&op, qa) {
                    if !x.is_empty() {
                        rep.count("similar_key_into_nonempty_agreed", 1);
                        // the discriminating situation: the key also exists in the default collection with another vector
                        let other = b.vector().get_embedding(k).ok();
                        let own = b.vector().get_from_collection(c, k).ok();
                        if other.is_some() && other != own {
                            rep.count("similar_key_into_with_shadowing_default_key_agreed", 1);
                        }
                    }
                }
                if let Op::NodeList { limit, offset, .. } | Op::EdgeList { limit, offset, .. } = &op {
                    if *limit == Some(0) || *offset == Some(0) {
                        rep.count("windows_with_zero_agreed", 1);
                    }
                }
                if matches!(&op, Op::EmbedStore { .. } | Op::EmbedDelete(_) | Op::EmbedBatch { coll: None, .. } | Op::EntityCreate { .. }) {
                    index_stale = true;
                }
                // cosine over the router's HNSW index: approximate by design and blind to later writes.
                // Judged: every returned key carries its true cosine score (fresh index only).
                let mut cosine_over_index = false;
                if m.index_built {
                    if let (Op::SimilarKey { metric: None | Some(0), k, .. } | Op::SimilarVec { metric: None | Some(0), k, .. }, QueryResult::Similar(x), Direct::Similar(_, full)) = (&op, qa, db) {
                        cosine_over_index = true;
                        // the query vector of this statement (the stored vector of the key, or the literal)
                        let query: Option<Vec<f32>> = match &op {
                            Op::SimilarKey { key, .. } => b.vector().get_embedding(key).ok(),
                            Op::SimilarVec { vec, .. } => Some(vec.iter().map(lit_f32).collect()),
                            _ => None,
                        };
                        let zero_query = query.as_ref().map_or(true, |q| q.iter().all(|x| *x == 0.0));
                        if index_stale {
                            rep.count("similar_cosine_over_stale_index_not_judged", 1);
                        } else if zero_query {
                            // cosine against a zero vector is undefined (0/0): the exact route answers
                            // nothing, the index answers something with score 0 - no score to compare
                            rep.count("similar_cosine_with_zero_query_not_judged", 1);
                        } else {
                            let truth: HashMap<&String, f32> = full.iter().map(|(k, s)| (k, *s)).collect();
                            let wrong = x.iter().find(|r| truth.get(&r.key).map_or(true, |s| (s - r.score).abs() > 1e-4));
                            if x.len() > *k as usize || wrong.is_some() {
                                viol(rep, format!("equivalence:result-differs:{}", fam), ctx(format!("over the HNSW index a returned key does not carry its cosine score: {:?} vs exact ranking {:?}", x, full)), replay.clone());
                                return;
                            }
                            rep.count("similar_cosine_over_fresh_index_agreed", 1);
                        }
                    }
                    if let Op::SimilarKey { metric: Some(mm @ (1 | 2)), .. } | Op::SimilarVec { metric: Some(mm @ (1 | 2)), .. } = &op {
                        rep.count(if *mm == 1 { "similar_euclidean_with_index_built" } else { "similar_dot_product_with_index_built" }, 1);
                    }
                }
                if m.index_built && matches!(&op, Op::SimilarConnected { .. }) {
                    // find_similar_connected takes its candidates from the HNSW index once one exists
                    // (approximate, blind to later writes): not comparable with the exact route
                    rep.count("similar_connected_over_index_not_judged", 1);
                    cosine_over_index = true;
                }
                if cosine_over_index {
                    model_update(&mut m, &op, db);
                    continue;
                }
                if let Err(why) = results_agree(qa, db, rep) {
                    // with LIMIT/OFFSET the window shifts; classify on the same SELECT without them
                    let unwindowed = match &op {
                        Op::Select { table, proj, cond, order, limit, offset } if limit.is_some() || offset.is_some() => {
                            let op2 = Op::Select { table: table.clone(), proj: proj.clone(), cond: cond.clone(), order: order.clone(), limit: None, offset: None };
                            let qa2 = guard(|| a.execute_parsed(&op2.text(&Style::plain())));
                            let db2 = guard(|| direct(&op2, &b));
                            match (qa2, db2) {
                                (Ok(Ok(x)), Ok(Ok(y))) => select_differs_only_on_null_rows(&op2, &x, &y),
                                _ => false,
                            }
                        }
                        _ => false,
                    };
                    let sig = if unwindowed || select_differs_only_on_null_rows(&op, qa, db) {
                        "equivalence:select-differs-on-rows-with-null-in-compared-column".to_string()
                    } else {
                        format!("equivalence:result-differs:{}", fam)
                    };
                    viol(rep, sig, ctx(why), replay.clone());
                    return;
                }
                model_update(&mut m, &op, db);
                if let Op::CreateTable { name, .. } = &op {
                    if !all_tables.contains(name) {
                        all_tables.push(name.clone());
                    }
                }
            }
            (Err(ea), Err(_)) => {
                rep.count("both_rejected", 1);
                // a multi-row INSERT applies the rows before the offending one; when the two sides may
                // have stopped at different rows (the text side also stops at a negative literal) the
                // twins cannot be compared any further
                if matches!(&op, Op::Insert { rows, .. } if rows.len() > 1) && op.neg_position().is_some() && ea.contains("Unary(Neg") {
                    rep.count("programs_cut_short", 1);
                    return;
                }
            }
            (Err(ea), Ok(db)) => {
                let neg = op.neg_position().filter(|_| ea.contains("Unary(Neg") || ea.contains("Expected number"));
                let sig = match neg {
                    Some(pos) => format!("equivalence:negative-literal-rejected:{}", pos),
                    None => format!("equivalence:text-fails-direct-succeeds:{}", fam),
                };
                viol(rep, sig, ctx(format!("the text is rejected with `{}` while the equivalent direct call succeeds with {}", trunc(ea, 300), trunc(&direct_dbg(db), 200))), replay.clone());
                // a multi-row INSERT is executed row by row by the router, so the text side may have
                // applied a prefix of the rows before it failed: the twins cannot be re-synchronised
                if matches!(&op, Op::Insert { rows, .. } if rows.len() > 1) {
                    rep.count("programs_cut_short", 1);
                    return;
                }
                // re-synchronise the twins: apply the direct call to the text-side engines as well
                match guard(|| direct(&op, &a)) {
                    Ok(Ok(_)) => {
                        model_update(&mut m, &op, db);
                        if let Op::CreateTable { name, .. } = &op {
                            if !all_tables.contains(name) {
                                all_tables.push(name.clone());
                            }
                        }
                    }
                    _ => return,
                }
            }
            (Ok(qa), Err(eb)) => {
                viol(rep, 
                    format!("equivalence:text-succeeds-direct-fails:{}", fam),
                    ctx(format!("the text succeeds with {} while the equivalent direct call fails with `{}`", trunc(&format!("{:?}", qa), 300), trunc(eb, 300))),
                    replay.clone(),
                );
                return;
            }
        }
    }
    match guard(|| final_states_agree(&a, &b, &all_tables)) {
        Ok(Ok(())) => {}
        Ok(Err((engine, d))) => {
            viol(rep, format!("equivalence:final-state-differs:{}", engine), format!("after {:?}: {}", trace, trunc(&d, 1500)), replay.clone());
            return;
        }
        Err(p) => {
            rep.count("direct_call_panics_not_judged", 1);
            rep.sample(json!({"final_state_panic": format!("{}:{} {}", p.file, p.line, p.msg)}));
            return;
        }
    }
    rep.count("programs_completed", 1);
    rep.eval(hash_str(&trace.join(";")), true);
    if rep.want_sample() && case_seed % 5 == 0 {
        rep.sample(json!({"part": "equiv", "statements": trace.iter().take(8).collect::<Vec<_>>()}));
    }
}

// ================================================================================================
// PART D — a text means the same whatever was lexed / parsed before it (history independence)
// ================================================================================================
//
// One case = one SESSION: 2-5 base texts (statement templates whose names are several spellings of a
// few words, statements of the parser's own tests, printed expression trees, hostile inputs, nesting
// around the limit), each with 1-3 re-spelled variants (letter case of words, suffixes, whitespace,
// literals), every text 2-3 times, shuffled, pushed through tokenize / parse_expr / parse / parse_all
// on ONE new thread. Reference = the same text alone on a thread that has never run the parser.
//  * every result in the session must equal the reference of its text (tokens with spans, AST with
//    spans, error kind and span);
//  * every identifier token must be spelled exactly as the source text at its span.

type Four = (Result<Vec<np::Token>, Pan>, Result<np::ParseResult<Expr>, Pan>, Result<np::ParseResult<Statement>, Pan>, Result<np::ParseResult<Vec<Statement>>, Pan>);

const HIST_MAX_TEXT: usize = 1024;
const HIST_ENTRIES: [&str; 4] = ["tokenize", "parse_expr", "parse", "parse_all"];

fn parse_four(s: &str) -> Four {
    (guard(|| np::tokenize(s)), guard(|| np::parse_expr(s)), guard(|| np::parse(s)), guard(|| np::parse_all(s)))
}

/// runs `f` on a brand-new thread (virgin thread-local state, 16 MiB stack: texts are <= 1 KiB)
fn on_new_thread<R: Send + 'static>(f: impl FnOnce() -> R + Send + 'static) -> Option<R> {
    std::thread::Builder::new().name("c15-hist".into()).stack_size(16 << 20).spawn(f).ok()?.join().ok()
}

const HIST_WORDS: &[&str] = &["users", "name", "email", "accounts", "id", "zeta_col", "person", "knows", "docs", "v", "x1", "total", "t", "my_fn"];
/// $0..$3 are names; the same word may stand behind several of them in different spellings
const HIST_TEMPLATES: &[&str] = &[
    "SELECT $0, $1 FROM $2 JOIN $3 ON $2.$0 = $3.$1",
    "SELECT $0 FROM $2 WHERE $1 = 1 AND $0 > $1",
    "SELECT $0, $1, $0 FROM $2, $3",
    "SELECT COUNT($0) FROM $2 GROUP BY $1",
    "SELECT $0 AS $1 FROM $2 ORDER BY $1 DESC LIMIT 3",
    "SELECT $0 FROM $2 WHERE $1 IN (SELECT $1 FROM $3)",
    "CREATE TABLE $2 ($0 INT, $1 TEXT)",
    "CREATE INDEX $3 ON $2 ($0)",
    "DROP TABLE $2",
    "INSERT INTO $2 ($0, $1) VALUES (1, '$1')",
    "UPDATE $2 SET $0 = $1 + 1 WHERE $1 < 3",
    "DELETE FROM $2 WHERE $0 = '$0'",
    "NODE CREATE $2 {$0: 1, $1: 'a'}",
    "EDGE CREATE 1 -> 2 : $3 {$0: 2}",
    "NODE LIST $2",
    "FIND NODE $2 WHERE $0 = 1",
    "NEIGHBORS 1 OUTGOING : $3",
    "EMBED STORE '$0' [1.0, 2.0]",
    "SIMILAR '$1' LIMIT 3",
    "$0 + $1 * $0",
    "$2.$0 = $3.$1 AND $0 IS NOT NULL",
    "$3($0, $1) || $2",
    "CASE $0 WHEN $1 THEN $2 ELSE $3 END",
];

fn respell_word(r: &mut Rng, w: &str) -> String {
    match r.below(8) {
        0 => w.to_ascii_lowercase(),
        1 | 2 => w.to_ascii_uppercase(),
        3 => {
            let mut c = w.chars();
            match c.next() {
                Some(f) => f.to_ascii_uppercase().to_string() + c.as_str(),
                None => String::new(),
            }
        }
        4 | 5 => w.chars().map(|c| if r.bool() { c.to_ascii_uppercase() } else { c.to_ascii_lowercase() }).collect(),
        6 => format!("{}{}", w, r.below(3)),
        _ => format!("_{}", w),
    }
}

/// a variant of `text`: some ASCII words re-spelled (letter case, suffix, prefix), some blanks widened
fn respell_text(r: &mut Rng, text: &str) -> String {
    let mut out = String::with_capacity(text.len() + 16);
    let p_word = *r.pick(&[2u32, 4, 8]);
    let widen = r.chance(1, 3);
    let cs: Vec<char> = text.chars().collect();
    let mut i = 0;
    while i < cs.len() {
        let c = cs[i];
        if c.is_ascii_alphabetic() || c == '_' {
            let mut j = i;
            while j < cs.len() && (cs[j].is_ascii_alphanumeric() || cs[j] == '_') {
                j += 1;
            }
            let w: String = cs[i..j].iter().collect();
            if r.chance(p_word, 8) {
                out.push_str(&respell_word(r, &w));
            } else {
                out.push_str(&w);
            }
            i = j;
        } else {
            out.push(c);
            if c == ' ' && widen && r.chance(1, 4) {
                out.push_str(*r.pick(&[" ", "\n", "\t ", "/* c */ "]));
            }
            i += 1;
        }
    }
    out
}

/// appends `suffix` to every identifier token (located with the real lexer; only shapes the input)
fn salt_identifiers(text: &str, suffix: &str) -> String {
    let toks = match guard(|| np::tokenize(text)) {
        Ok(t) => t,
        Err(_) => return text.to_string(),
    };
    let mut s = text.to_string();
    let mut ends: Vec<usize> = toks.iter().filter(|t| matches!(t.kind, np::TokenKind::Ident(_))).map(|t| t.span.end.0 as usize).collect();
    ends.sort_unstable();
    for e in ends.into_iter().rev() {
        if e <= s.len() && s.is_char_boundary(e) {
            s.insert_str(e, suffix);
        }
    }
    s
}

fn hist_clip(mut s: String) -> String {
    if s.len() > HIST_MAX_TEXT {
        let mut e = HIST_MAX_TEXT;
        while !s.is_char_boundary(e) {
            e -= 1;
        }
        s.truncate(e);
    }
    s
}

fn hist_base(r: &mut Rng) -> (&'static str, String) {
    match r.weighted(&[45, 20, 15, 10, 10]) {
        0 => {
            // names: 1-3 words, each placeholder gets one of them in its own spelling
            let nw = 1 + r.below(3);
            let words: Vec<&str> = (0..nw).map(|_| *r.pick(HIST_WORDS)).collect();
            let mut t = r.pick(HIST_TEMPLATES).to_string();
            for k in 0..4 {
                let w = words[r.below(words.len())];
                let sp = if r.chance(1, 3) { w.to_string() } else { respell_word(r, w) };
                t = t.replace(&format!("${}", k), &sp);
            }
            ("template", t)
        }
        1 => ("corpus", CORPUS[r.below(CORPUS.len())].to_string()),
        2 => {
            let d = 2 + r.below(4);
            let t = gen_tree(r, d, false);
            let st = Style::random(r);
            let e = print_tree(&t, if r.bool() { Mode::Min } else { Mode::Full }, &st);
            ("tree", ALL_PCTX[r.below(ALL_PCTX.len())].wrap(&e, &st))
        }
        3 => ("hostile", fuzz_input(r.next_u64(), r.below(1000) as u64).1),
        _ => {
            // nesting around the documented limit: an error in between must leave nothing behind
            let class = *r.pick(&NEST_CLASSES[..14]);
            let d = 56 + r.below(16);
            let ctx = r.below(NEST_CTXS.len());
            let (bare, stmt) = nest_case(class, d, ctx);
            ("nest-at-limit", if r.bool() { bare.unwrap_or(stmt) } else { stmt })
        }
    }
}

/// (session order as indices into the distinct texts, the distinct texts, their sources)
fn hist_session(case_seed: u64) -> (Vec<usize>, Vec<String>, Vec<&'static str>) {
    let mut r = Rng::new(case_seed ^ 0x4157);
    let mut texts: Vec<String> = Vec::new();
    let mut src: Vec<&'static str> = Vec::new();
    // identifiers no earlier session of this process has used (a process-wide table would otherwise
    // already hold them when the reference is taken)
    let salt = if r.bool() { Some(format!("_{:x}", case_seed & 0xF_FFFF)) } else { None };
    let nb = 2 + r.below(4);
    for _ in 0..nb {
        let (s, base) = hist_base(&mut r);
        let base = match &salt {
            Some(sfx) if s != "hostile" => salt_identifiers(&base, sfx),
            _ => base,
        };
        let nv = 1 + r.below(3);
        let mut fam = vec![hist_clip(base.clone())];
        for _ in 0..nv {
            fam.push(hist_clip(respell_text(&mut r, &base)));
        }
        for t in fam {
            if !texts.contains(&t) {
                texts.push(t);
                src.push(s);
            }
        }
    }
    let mut order: Vec<usize> = Vec::new();
    for i in 0..texts.len() {
        for _ in 0..2 + r.below(2) {
            order.push(i);
        }
    }
    r.shuffle(&mut order);
    (order, texts, src)
}

fn four_same(a: &Four, b: &Four) -> [bool; 4] {
    fn same<X: PartialEq + std::fmt::Debug>(a: &Result<np::ParseResult<X>, Pan>, b: &Result<np::ParseResult<X>, Pan>) -> bool {
        match (a, b) {
            (Ok(Ok(x)), Ok(Ok(y))) => x == y || format!("{:?}", x) == format!("{:?}", y),
            (Ok(Err(x)), Ok(Err(y))) => same_err(x, y),
            (Err(p), Err(q)) => p.file == q.file && panic_class(&p.msg) == panic_class(&q.msg),
            _ => false,
        }
    }
    let tok = match (&a.0, &b.0) {
        (Ok(x), Ok(y)) => x == y || format!("{:?}", x) == format!("{:?}", y),
        (Err(p), Err(q)) => p.file == q.file && panic_class(&p.msg) == panic_class(&q.msg),
        _ => false,
    };
    [tok, same(&a.1, &b.1), same(&a.2, &b.2), same(&a.3, &b.3)]
}

fn four_dbg(f: &Four, entry: usize) -> String {
    fn d<X: std::fmt::Debug>(x: &Result<X, Pan>) -> String {
        match x {
            Ok(v) => format!("{:?}", v),
            Err(p) => format!("panic at {}:{}: {}", p.file, p.line, p.msg),
        }
    }
    match entry {
        0 => d(&f.0),
        1 => d(&f.1),
        2 => d(&f.2),
        _ => d(&f.3),
    }
}

/// where two debug renderings start to differ (a window around the first differing byte)
fn diff_window(a: &str, b: &str) -> (String, String) {
    let p = a.bytes().zip(b.bytes()).position(|(x, y)| x != y).unwrap_or(a.len().min(b.len()));
    let cut = |s: &str| {
        let mut st = p.saturating_sub(60);
        while !s.is_char_boundary(st) {
            st -= 1;
        }
        let mut e = (p + 100).min(s.len());
        while !s.is_char_boundary(e) {
            e -= 1;
        }
        s[st..e].to_string()
    };
    (cut(a), cut(b))
}

fn history_case(case_seed: u64, rep: &mut Report) {
    let (order, texts, src) = hist_session(case_seed);
    let replay = json!({"part": "history", "case_seed": case_seed});
    // ---- references: every text alone on a thread that has never lexed anything
    let mut refs: Vec<Four> = Vec::with_capacity(texts.len());
    for t in &texts {
        let t2 = t.clone();
        match on_new_thread(move || parse_four(&t2)) {
            Some(f) => refs.push(f),
            None => {
                rep.inconclusive("history: reference thread could not be run");
                return;
            }
        }
    }
    // ---- the session: all texts in order on one new thread
    let sess_texts: Vec<String> = order.iter().map(|&i| texts[i].clone()).collect();
    let sess: Vec<Four> = match on_new_thread(move || sess_texts.iter().map(|t| parse_four(t)).collect::<Vec<Four>>()) {
        Some(v) => v,
        None => {
            rep.inconclusive("history: session thread could not be run");
            return;
        }
    };
    let mut ok = true;
    // ---- oracle 1: identifier tokens are spelled as the text at their span (references and session)
    let ident_check = |f: &Four, text: &str, when: &str, rep: &mut Report| -> bool {
        let mut good = true;
        if let Ok(toks) = &f.0 {
            for t in toks {
                if let np::TokenKind::Ident(name) = &t.kind {
                    rep.count("history_identifier_tokens_checked", 1);
                    let slice = text.get(t.span.start.0 as usize..t.span.end.0 as usize);
                    if slice != Some(name.as_str()) && good {
                        good = false;
                        viol(
                            rep,
                            "tokenize:identifier-token-differs-from-source-text",
                            format!("{}: the identifier token at bytes {}..{} is Ident({:?}) but the text there reads {:?} (text {:?})", when, t.span.start.0, t.span.end.0, name, slice, trunc(text, 300)),
                            replay.clone(),
                        );
                    }
                }
            }
        }
        good
    };
    for (i, t) in texts.iter().enumerate() {
        ok &= ident_check(&refs[i], t, "parsed alone on a new thread", rep);
    }
    // ---- oracle 2: the session's results equal the references
    let mut seen: HashMap<String, Vec<String>> = HashMap::new();
    let mut respelled = 0u64;
    let mut after_error = 0u64;
    let mut prev_was_error = false;
    for (pos, &ti) in order.iter().enumerate() {
        let text = &texts[ti];
        let same = four_same(&refs[ti], &sess[pos]);
        rep.count("history_results_compared", 4);
        if prev_was_error {
            after_error += 1;
        }
        for e in 0..4 {
            if same[e] {
                continue;
            }
            ok = false;
            // a panic that only happens in the session is reported as the panic it is
            let sess_pan = match (e, &sess[pos]) {
                (0, (Err(p), ..)) | (1, (_, Err(p), ..)) | (2, (_, _, Err(p), _)) | (3, (.., Err(p))) => Some(p.clone()),
                _ => None,
            };
            if let Some(p) = sess_pan.filter(pan_in_scope) {
                viol(rep, pan_signature(HIST_ENTRIES[e], &p), format!("{} panicked at {}:{}: {} on {:?} after {} earlier texts on the thread", HIST_ENTRIES[e], p.file, p.line, p.msg, trunc(text, 300), pos), replay.clone());
                continue;
            }
            let (a, b) = (four_dbg(&refs[ti], e), four_dbg(&sess[pos], e));
            let (wa, wb) = diff_window(&a, &b);
            let earlier: Vec<String> = order[..pos].iter().rev().take(4).map(|&k| trunc(&texts[k], 120)).collect();
            viol(
                rep,
                format!("determinism:depends-on-earlier-input:{}", HIST_ENTRIES[e]),
                format!(
                    "{} of {:?} gives another result as text #{} of a thread's session than alone on a new thread: alone ..{}.. / in session ..{}.. (texts before it, latest first: {:?})",
                    HIST_ENTRIES[e], trunc(text, 300), pos + 1, wa, wb, earlier
                ),
                replay.clone(),
            );
        }
        ok &= ident_check(&sess[pos], text, &format!("text #{} of a session", pos + 1), rep);
        // what this position exercised: an identifier the thread has seen before in another letter case
        if let Ok(toks) = &refs[ti].0 {
            for t in toks {
                if let np::TokenKind::Ident(name) = &t.kind {
                    let e = seen.entry(name.to_ascii_lowercase()).or_default();
                    if !e.is_empty() && !e.contains(name) {
                        respelled += 1;
                    }
                    if !e.contains(name) {
                        e.push(name.clone());
                    }
                }
            }
        }
        prev_was_error = matches!(&refs[ti].2, Ok(Err(_)));
        if matches!(&refs[ti].2, Ok(Err(e)) if matches!(e.kind, ParseErrorKind::TooDeep)) {
            rep.count("history_too_deep_answers_in_sessions", 1);
        }
    }
    if !ok {
        return;
    }
    rep.count("history_sessions", 1);
    rep.count("history_texts", order.len() as u64);
    rep.count("history_identifiers_met_again_in_another_letter_case", respelled);
    rep.count("history_texts_parsed_right_after_an_error", after_error);
    for s in &src {
        rep.count(&format!("history_texts_by_source[{}]", s), 1);
    }
    rep.eval(hash_str(&order.iter().map(|&i| texts[i].as_str()).collect::<Vec<_>>().join("\u{1}")), respelled > 0);
    if rep.want_sample() && case_seed % 211 == 0 {
        rep.sample(json!({"part": "history", "session": order.iter().take(6).map(|&i| trunc(&texts[i], 100)).collect::<Vec<_>>(), "identifiers_met_again_in_another_case": respelled}));
    }
}

// ================================================================================================
// main
// ================================================================================================

fn replay_case(args: &Args, rp: &J, total: &mut Report) {
    let scratch = args.scratch_dir("c15r");
    match rp["part"].as_str().unwrap_or("") {
        "tree" => tree_case_random(rp["case_seed"].as_u64().unwrap_or(0), total),
        "tree-wide" => tree_case_wide(rp["case_seed"].as_u64().unwrap_or(0), total),
        "tree-small" => tree_case_small(rp["index"].as_u64().unwrap_or(0), total),
        "equiv" => equiv_case(rp["case_seed"].as_u64().unwrap_or(0), total),
        "history" => history_case(rp["case_seed"].as_u64().unwrap_or(0), total),
        "nest" => {
            let class = rp["class"].as_str().unwrap_or("paren").to_string();
            nest_run(scratch.path(), "replay", &class, rp["depth"].as_u64().unwrap_or(1) as usize, rp["ctx"].as_u64().unwrap_or(0) as usize, total);
        }
        "fuzz" => {
            let (bs, from, idx) = (rp["batch_seed"].as_u64().unwrap_or(0), rp["from"].as_u64().unwrap_or(0), rp["index"].as_u64().unwrap_or(0));
            let gen = rp["gen"].as_str().unwrap_or("fuzz").to_string();
            gen_batch(scratch.path(), "replay", &gen, false, bs, from, (idx + 1).saturating_sub(from), Some(idx), total);
        }
        "text" => text_run(scratch.path(), rp["text"].as_str().unwrap_or(""), total),
        other => total.inconclusive(&format!("unknown replay part {:?}", other)),
    }
}

fn main() {
    let args = Args::parse();
    if args.rest.first().map(|s| s.as_str()) == Some("child") {
        child_main(args);
        return;
    }
    let started = Instant::now();
    install_panic_hook();
    let mut total = Report::new();
    total.max_samples = 12;

    if let Err(e) = pools_are_identifiers() {
        total.inconclusive(&e);
    }

    if let Some(p) = &args.replay {
        let v: J = serde_json::from_str(&std::fs::read_to_string(p).expect("replay file")).expect("json");
        let rp = if v.get("replay").is_some() { v["replay"].clone() } else { v.clone() };
        replay_case(&args, &rp, &mut total);
    } else {
        let only = args.extra.get("part").cloned();
        let want = |p: &str| only.as_deref().map_or(true, |o| o == p);
        // ---- precedence (in process)
        if want("tree") {
            let n_small = small_tree_count(true);
            let rep = par_cases(args.threads, args.seed, n_small, args.budget(120, 600), |i, _s, r| tree_case_small(i, r));
            total.count("small_trees_complete", (rep.counters.get("budget_stops").copied().unwrap_or(0) == 0) as u64);
            total.merge(rep);
            let n = args.extra_u64("trees", args.by_tier(120_000, 2_500_000));
            let rep = par_cases(args.threads, args.seed ^ 0x7EE, n, args.budget(40, 300), |_i, s, r| tree_case_random(s, r));
            total.merge(rep);
            let n = args.extra_u64("wide-trees", args.by_tier(3_000, 120_000));
            let rep = par_cases(args.threads, args.seed ^ 0x71DE, n, args.budget(30, 240), |_i, s, r| tree_case_wide(s, r));
            total.merge(rep);
        }
        // ---- equivalence (in process)
        if want("equiv") {
            let n = args.extra_u64("programs", args.by_tier(300, 8_000));
            let rep = par_cases(args.threads, args.seed ^ 0xE9, n, args.budget(60, 420), |_i, s, r| equiv_case(s, r));
            total.merge(rep);
        }
        // ---- history independence (in process, every session on threads of its own)
        if want("history") {
            let n = args.extra_u64("sessions", args.by_tier(3_000, 300_000));
            let rep = par_cases(args.threads, args.seed ^ 0x4157, n, args.budget(25, 300), |_i, s, r| history_case(s, r));
            total.merge(rep);
        }
        // ---- totality (child processes)
        if want("totality") {
            totality_part(&args, &mut total);
        }
    }

    {
        // witnesses: all signatures, WITNESSES_PER_SIGNATURE each (par_cases' own entries stay)
        let c = COLLECT.lock().unwrap_or_else(|e| e.into_inner());
        for (_, vs) in c.iter() {
            for v in vs {
                total.violations.push(v.clone());
            }
        }
        total.count("distinct_violation_signatures", c.len() as u64);
    }
    let floors: Vec<(&'static str, u64)> = if args.replay.is_some() || args.extra.contains_key("part") {
        vec![]
    } else {
        vec![
            ("inputs", args.by_tier(20_000, 200_000)),
            ("parse_ok", 1_000),
            ("parse_err", 5_000),
            ("error_spans_checked", 10_000),
            ("calls[execute]", 5_000),
            ("calls[execute_parsed]", 5_000),
            ("nest_cases", 60),
            ("inputs[nest-composite]", 2_000),
            ("composite_ladders_completed", 150),
            ("inputs[nest-mix]", args.by_tier(4_000, 60_000)),
            ("history_sessions", args.by_tier(600, 30_000)),
            ("history_results_compared", args.by_tier(40_000, 1_000_000)),
            ("history_identifiers_met_again_in_another_letter_case", args.by_tier(2_000, 60_000)),
            ("history_texts_parsed_right_after_an_error", args.by_tier(1_000, 20_000)),
            ("trees_small", 900),
            ("trees_random", args.by_tier(5_000, 50_000)),
            ("trees_wide", args.by_tier(1_000, 20_000)),
            ("statements", args.by_tier(1_000, 20_000)),
            ("both_ok", 500),
            ("statements[select-group-by]", 100),
            ("statements[graph-pagerank]", 20),
            ("programs_with_hnsw_index_built", 20),
            ("similar_dot_product_with_index_built", 10),
            ("groups_compared", 150),
            ("grouped_aggregates_over_null_cells_agreed", 15),
            ("groups_with_null_in_key_agreed", 15),
        ]
    };
    let meta = Meta {
        property: "C15",
        rule: "totality: one evaluation = one input string (<= 4096 bytes: random bytes, printable ASCII, unicode incl. characters whose uppercase has another length, keyword/operator soup, 1-4 token-level mutations of ~870 statements taken from the parser's and the router's own tests, nesting of 19 kinds up to the depth that fits in 4 KiB; composite nesting - each of 31 constructs (subqueries behind EXISTS / IN / NOT IN / FROM / HAVING / ORDER BY and as scalar, CASE operand/WHEN/THEN/ELSE, CAST, calls, aggregates, IN lists and their left side, BETWEEN bounds, LIKE, tuples, arrays) holding runs of 1, 3, 15, 31, 62, 63, 64 levels of each of 9 cheap fillers, 2, 4, 16, 64 ... as many repetitions as fit in 4 KiB, in ascending ladders; random periodic and aperiodic mixtures of all 31 level kinds) pushed through tokenize, parse_expr, parse, parse_all (each twice) and, when execution stays inside the engines, QueryRouter::execute_parsed and ::execute, on a 2 MiB-stack thread of a child process; distinct by hash of the text, non-trivial if it lexes to >= 2 tokens. history: one evaluation = one session of 2-5 base texts (templates of SELECT/JOIN/CREATE/INSERT/UPDATE/DELETE/NODE/EDGE/FIND/EMBED/SIMILAR statements and bare expressions whose names are several spellings of 1-3 words, statements of the parser's own tests, printed expression trees, hostile inputs, nesting of 56-71 levels around the limit; <= 1 KiB each) with 1-3 re-spelled variants each (ASCII letter case of words, digit suffix, underscore prefix, widened blanks; in half of the sessions all identifiers carry a suffix unique to the session), every text 2-3 times, shuffled, run through tokenize, parse_expr, parse, parse_all on one new thread; every result (tokens with spans, AST with spans, error kind and span) must equal that of the same text alone on a new thread, and every identifier token must equal the source text at its span; distinct by hash of the session, non-trivial if some identifier is met again in another letter case. precedence: one evaluation = one expression tree (all 722 two-operator, 180 unary/binary and 34 295 three-operator trees; random trees of height 2-8 over all 19 binary and 3 unary operators plus IS NULL/IN/BETWEEN/LIKE/calls/CASE/arrays/tuples; wide flat expressions of 20-450 operands - one-level chains, sums of products, AND-ed comparisons, all operators mixed - whose expected tree is the documented table's grouping and for which `nesting too deep` counts as a wrong parse) whose minimal-parentheses and fully-parenthesised prints both parse back to it through parse_expr and through the statement parser in SELECT-item, WHERE and UPDATE-SET position; distinct by hash of the minimal print, non-trivial with >= 2 operators. equivalence: one evaluation = one completed program of 20-49 generated statements (CREATE/DROP TABLE, CREATE INDEX, SHOW TABLES, INSERT, SELECT with projection/ORDER BY/LIMIT/OFFSET, SELECT COUNT(*)/COUNT/SUM/AVG/MIN/MAX [GROUP BY 1-2 columns] [HAVING COUNT..], GRAPH PAGERANK / BETWEENNESS|CLOSENESS|EIGENVECTOR CENTRALITY / LOUVAIN COMMUNITIES / LABEL PROPAGATION with each optional clause present or omitted against the engine call with its default configuration, UPDATE, DELETE, NODE/EDGE CREATE/GET/DELETE/LIST, NEIGHBORS [BY SIMILAR], PATH, FIND NODE/EDGE, EMBED STORE/GET/DELETE/BATCH [INTO collection], SHOW/COUNT EMBEDDINGS, SIMILAR key|vector [COSINE] [INTO collection] [WHERE metadata filter] [CONNECTED TO], ENTITY CREATE/CONNECT; every LIMIT/OFFSET is drawn from {absent, 0, 1-4, 10, larger than any result}) run as text on one router and as direct calls on a twin, compared after every statement and on the final engine states; distinct by hash of the statement texts.",
        assumptions: vec![
            "the documented table is expr.rs:7-18 / the book's Binding Power Table: OR < AND < comparison < | < ^ < & < shifts < + - || < * / % < unary NOT - ~ < postfix, binary operators left-associative; where it is silent (a compound operand of IS NULL / IN / BETWEEN / LIKE, bounds of BETWEEN, LIKE pattern) the printer always writes parentheses".into(),
            "expr.rs answering TooDeep (its documented nesting limit of 64) is an error, not a regrouping; such prints are skipped and counted".into(),
            "statements are generated in the syntax the statement parser accepts (its own unit tests: PATH a -> b, SIMILAR .. LIMIT n COSINE); the book's PATH .. TO .. / METRIC spellings are not judged".into(),
            "router execution in the totality part is limited to statement kinds that stay inside the relational/graph/vector engines; panics whose location is outside neumann_parser/query_router are counted, not judged".into(),
            "results are compared up to representation: NULL vs absent column, row order without ORDER BY, neighbour order, equal-length shortest paths, equal-score similarity ties, property values by typed value; a LIMIT/OFFSET window over a listing whose order is unspecified (NODE LIST, EDGE LIST, FIND) is judged by its size, by membership in the direct listing and by absence of duplicates; FIND .. WHERE is only judged on elements whose property is an integer".into(),
            "an error is required to be an error on both sides; error texts are not compared".into(),
            "history: the lexer produces identifier tokens only for unquoted words (lexer.rs scan_ident), so an identifier token denotes exactly the characters at its span; identifiers are case-sensitive (the engines keep `T` and `t` apart). The reference of a text is taken on a thread that has never called the parser; state shared by all threads of the process is defeated only by the per-session identifier suffix and the spelling clause".into(),
            "composite nesting judges what the homogeneous ladders judge (no signal, no panic, error spans inside the input, equal repeated parses); whether a deep text is refused or accepted is not judged".into(),
            "a COSINE SIMILAR answered from the router's HNSW index is judged on the scores of the returned keys (fresh index only); a zero query vector has no defined cosine score and is not judged".into(),
        ],
        floors,
        exhaustive: false,
    };
    write_result(&args, &meta, &total, started);
}

/// statements harvested from neumann_parser's own unit tests (valid and a few invalid ones): seeds
/// for the mutation generator
const CORPUS: &[&str] = &[
    "/* unterminated comment",
    ";;;SELECT * FROM users;;",
    "AGGREGATE EDGE PROPERTY weight AVG",
    "AGGREGATE EDGE PROPERTY weight AVG BY TYPE knows",
    "AGGREGATE EDGE PROPERTY weight AVG ON FOLLOWS",
    "AGGREGATE EDGE PROPERTY weight COUNT BY TYPE follows WHERE weight > 0",
    "AGGREGATE EDGE PROPERTY weight SUM",
    "AGGREGATE EDGE PROPERTY weight SUM BY TYPE knows",
    "AGGREGATE INVALID",
    "AGGREGATE NODE PROPERTY age SUM",
    "AGGREGATE NODE PROPERTY age SUM BY LABEL Person",
    "AGGREGATE NODE PROPERTY age SUM ON Person WHERE age > 18",
    "AGGREGATE NODE PROPERTY age SUM WHERE age > 18",
    "AGGREGATE NODE PROPERTY salary AVG",
    "AGGREGATE NODE PROPERTY score SUM ON Person",
    "ANALYZE CODEBOOK TRANSITIONS",
    "BATCH CREATE EDGES []",
    "BATCH CREATE EDGES [{from: 1, to: 2, type: follows, weight: 1.0}]",
    "BATCH CREATE EDGES [{from: 1, to: 2, type: knows, weight: 0.5}]",
    "BATCH CREATE NODES []",
    "BATCH CREATE NODES [{labels: [Person], name: 'Alice'}]",
    "BATCH CREATE NODES [{labels: [person, employee], name: 'Alice', age: 30}]",
    "BATCH DELETE EDGES [10, 20]",
    "BATCH DELETE NODES [1, 2, 3]",
    "BATCH INVALID",
    "BATCH UPDATE NODES []",
    "BATCH UPDATE NODES [{id: 1, name: 'Alice Updated'}]",
    "BATCH UPDATE NODES [{id: 1, name: 'Alice'}, {id: 2, name: 'Bob'}]",
    "BATCH UPDATE NODES [{id: 1, name: 'Alice'}]",
    "BEGIN CHAIN TRANSACTION",
    "BLOB DELETE 'artifact123'",
    "BLOB DELETE 'hash123'",
    "BLOB GC",
    "BLOB GC FULL",
    "BLOB GET 'artifact123'",
    "BLOB GET 'artifact123' TO '/output/file.txt'",
    "BLOB GET 'hash123'",
    "BLOB INFO 'artifact123'",
    "BLOB INFO 'hash123'",
    "BLOB INIT",
    "BLOB INVALID",
    "BLOB INVALID_OP",
    "BLOB LINK 'artifact123' TO 'entity456'",
    "BLOB LINK 'hash123' TO 'entity1'",
    "BLOB LINKS 'artifact123'",
    "BLOB META GET 'artifact123' 'description'",
    "BLOB META INVALID",
    "BLOB META SET 'artifact123' 'description' 'A test file'",
    "BLOB PUT 'doc.pdf' FROM '/path' LINK 'entity1' TAG 'important'",
    "BLOB PUT 'file.txt'",
    "BLOB PUT 'file.txt' FROM '/path/to/file'",
    "BLOB PUT 'myfile.txt' 'inline data here'",
    "BLOB PUT 'myfile.txt' FROM '/path/to/file'",
    "BLOB REPAIR",
    "BLOB STATS",
    "BLOB TAG 'artifact123' 'important'",
    "BLOB UNLINK 'artifact123' FROM 'entity456'",
    "BLOB UNTAG 'artifact123' 'important'",
    "BLOB VERIFY 'artifact123'",
    "BLOBS",
    "BLOBS '*.txt'",
    "BLOBS BY TAG 'important'",
    "BLOBS FOR 'entity1'",
    "BLOBS FOR 'entity123'",
    "BLOBS SIMILAR TO 'artifact123'",
    "BLOBS SIMILAR TO 'artifact123' LIMIT 10",
    "BLOBS SIMILAR TO 'hash123' LIMIT 5",
    "BLOBS WHERE TYPE = 'application/pdf'",
    "BLOBS WHERE TYPE = 'image/png'",
    "CACHE CLEAR",
    "CACHE EVICT",
    "CACHE EVICT 100",
    "CACHE GET 'mykey'",
    "CACHE INIT",
    "CACHE INVALID",
    "CACHE PUT 'mykey' 'myvalue'",
    "CACHE SEMANTIC GET 'query text'",
    "CACHE SEMANTIC GET 'query' THRESHOLD 0.85",
    "CACHE SEMANTIC INVALID",
    "CACHE SEMANTIC PUT 'q' 'r' EMBEDDING [1.0, 2.0, 3.0, 4.0, 5.0]",
    "CACHE SEMANTIC PUT 'query' 'response' EMBEDDING [1.0, 0.0]",
    "CACHE SEMANTIC PUT 'query' 'response' EMBEDDING []",
    "CACHE STATS",
    "CACHE STATS;",
    "CHAIN BLOCK 42",
    "CHAIN DRIFT FROM 0 TO 100",
    "CHAIN DRIFT FROM 0 TO 1000",
    "CHAIN HEIGHT",
    "CHAIN HISTORY 'users:123'",
    "CHAIN INVALID",
    "CHAIN INVALID_OP",
    "CHAIN SIMILAR [1.0, 2.0, 3.0]",
    "CHAIN SIMILAR [1.0, 2.0, 3.0] LIMIT 10",
    "CHAIN SIMILAR [1.0, 2.0] LIMIT 5",
    "CHAIN TIP",
    "CHAIN VERIFY",
    "CHECKPOINT",
    "CHECKPOINT 'backup1'",
    "CHECKPOINT 'my-checkpoint'",
    "CHECKPOINT 'my_checkpoint'",
    "CHECKPOINTS",
    "CHECKPOINTS LIMIT 10",
    "CHECKPOINTS LIMIT 5",
    "CLUSTER CONNECT '127.0.0.1:8080'",
    "CLUSTER CONNECT '127.0.0.1:9000'",
    "CLUSTER DISCONNECT",
    "CLUSTER INVALID",
    "CLUSTER LEADER",
    "CLUSTER NODES",
    "CLUSTER STATUS",
    "COMMIT CHAIN",
    "CONSTRAINT CREATE age_int ON NODE PROPERTY age TYPE int",
    "CONSTRAINT CREATE c ON EDGE PROPERTY name UNIQUE",
    "CONSTRAINT CREATE email_unique ON NODE User PROPERTY email UNIQUE",
    "CONSTRAINT CREATE name_required ON NODE PROPERTY name EXISTS",
    "CONSTRAINT CREATE weight_exists ON EDGE knows PROPERTY weight EXISTS",
    "CONSTRAINT DROP email_unique",
    "CONSTRAINT GET my_constraint",
    "CONSTRAINT INVALID",
    "CONSTRAINT LIST",
    "COUNT EMBEDDINGS",
    "COUNT INVALID",
    "CREATE INDEX IF NOT EXISTS idx ON t (x)",
    "CREATE INDEX IF NOT EXISTS idx ON users (email)",
    "CREATE INDEX idx ON t (a, b, c)",
    "CREATE INDEX idx ON users (first_name, last_name)",
    "CREATE INDEX idx_name ON users (name)",
    "CREATE INVALID",
    "CREATE TABLE IF NOT EXISTS users (id INT)",
    "CREATE TABLE orders (user_id INT REFERENCES users(id))",
    "CREATE TABLE t (a INT, b INT, FOREIGN KEY (a, b) REFERENCES other)",
    "CREATE TABLE t (a INT, b INT, PRIMARY KEY (a, b))",
    "CREATE TABLE t (a INT, b INT, UNIQUE (a, b))",
    "CREATE TABLE t (a INT, b INT, c INT, PRIMARY KEY (a, b, c))",
    "CREATE TABLE t (a INT, b VARCHAR(255), c DECIMAL(10, 2), d BOOLEAN)",
    "CREATE TABLE t (active BOOLEAN DEFAULT TRUE)",
    "CREATE TABLE t (age INT CHECK (age > 0))",
    "CREATE TABLE t (age INT CHECK (age >= 0))",
    "CREATE TABLE t (age INT, CHECK (age >= 0))",
    "CREATE TABLE t (amount DECIMAL)",
    "CREATE TABLE t (bio TEXT)",
    "CREATE TABLE t (created TIMESTAMP)",
    "CREATE TABLE t (email VARCHAR(100) UNIQUE)",
    "CREATE TABLE t (id INT, CHECK (id > 0))",
    "CREATE TABLE t (id INT, INVALID_CONSTRAINT)",
    "CREATE TABLE t (id INT, name TEXT, PRIMARY KEY (id), UNIQUE (name))",
    "CREATE TABLE t (name VARCHAR NULL)",
    "CREATE TABLE t (name VARCHAR(100))",
    "CREATE TABLE t (name VARCHAR(255))",
    "CREATE TABLE t (price DECIMAL(10))",
    "CREATE TABLE t (price DECIMAL(10, 2))",
    "CREATE TABLE t (price DECIMAL)",
    "CREATE TABLE t (user_id INT REFERENCES users)",
    "CREATE TABLE t (val DECIMAL(10, 2))",
    "CREATE TABLE t (value NUMERIC(10))",
    "CREATE TABLE t (x 123)",
    "CREATE TABLE t (x BIGINT)",
    "CREATE TABLE t (x BLOB)",
    "CREATE TABLE t (x CHAR(10))",
    "CREATE TABLE t (x DATE)",
    "CREATE TABLE t (x DOUBLE)",
    "CREATE TABLE t (x INT CHECK (x > 0))",
    "CREATE TABLE t (x INT DEFAULT 0)",
    "CREATE TABLE t (x INT NOT NULL)",
    "CREATE TABLE t (x INT NULL)",
    "CREATE TABLE t (x INT REFERENCES other(id))",
    "CREATE TABLE t (x INT UNIQUE)",
    "CREATE TABLE t (x INT, CHECK (x > 0))",
    "CREATE TABLE t (x INT, CONSTRAINT chk CHECK (x > 0))",
    "CREATE TABLE t (x INT, CONSTRAINT pk PRIMARY KEY (x))",
    "CREATE TABLE t (x INT, CONSTRAINT uq UNIQUE (x))",
    "CREATE TABLE t (x INT, FOREIGN KEY (x) REFERENCES other(id))",
    "CREATE TABLE t (x INT, FOREIGN KEY (x) REFERENCES other)",
    "CREATE TABLE t (x INT, INVALID constraint)",
    "CREATE TABLE t (x INT, INVALID)",
    "CREATE TABLE t (x JSON)",
    "CREATE TABLE t (x NUMERIC(10, 2))",
    "CREATE TABLE t (x NUMERIC(5, 2))",
    "CREATE TABLE t (x REAL)",
    "CREATE TABLE t (x SMALLINT)",
    "CREATE TABLE t (x TIME)",
    "CREATE TABLE t (x UUID)",
    "CREATE TABLE t (x VARCHAR(255))",
    "CREATE TABLE t (x my_custom_type)",
    "CREATE TABLE users (id INT PRIMARY KEY, name VARCHAR(100) NOT NULL)",
    "CREATE UNIQUE INDEX IF NOT EXISTS idx ON t (x)",
    "CREATE UNIQUE INDEX idx ON users (email)",
    "CREATE UNIQUE INDEX idx_email ON users (email)",
    "DELETE FROM t WHERE a = 1 AND b = 2 OR c = 3",
    "DELETE FROM users",
    "DELETE FROM users WHERE id = 1",
    "DESCRIBE EDGE follows",
    "DESCRIBE INVALID",
    "DESCRIBE NODE person",
    "DESCRIBE TABLE users",
    "DROP DATABASE foo",
    "DROP INDEX IF EXISTS ON products(sku)",
    "DROP INDEX IF EXISTS idx",
    "DROP INDEX IF EXISTS idx_name",
    "DROP INDEX ON users(name)",
    "DROP INDEX idx",
    "DROP TABLE IF EXISTS users",
    "DROP TABLE IF EXISTS users CASCADE",
    "DROP TABLE users",
    "DROP VIEW test",
    "EDGE BATCH CREATE [{from: 1, to: 2}]",
    "EDGE BATCH CREATE [{from: 1, type: FOLLOWS}]",
    "EDGE BATCH CREATE [{to: 2, type: FOLLOWS}]",
    "EDGE CREATE 1 -> 2 : FOLLOWS {since: 2020}",
    "EDGE CREATE 1 -> 2 : FOLLOWS {since: 2023, weight: 0.8}",
    "EDGE CREATE 1 -> 2 : follows",
    "EDGE CREATE 1 -> 2 : knows {since: 2020}",
    "EDGE CREATE 1 -> 2 : knows {}",
    "EDGE CREATE 1 -> 2 type",
    "EDGE CREATE 1 2",
    "EDGE DELETE 1",
    "EDGE DELETE 42",
    "EDGE GET 1",
    "EDGE GET 42",
    "EDGE INVALID",
    "EDGE INVALID_OP",
    "EDGE LIST",
    "EDGE LIST FOLLOWS",
    "EDGE LIST FOLLOWS LIMIT 10",
    "EDGE LIST FOLLOWS LIMIT 25 OFFSET 50",
    "EDGE UPDATE 1",
    "EMBED BATCH [('doc1', [1.0, 0.0]), ('doc2', [0.0, 1.0])]",
    "EMBED BATCH [('k1', [1.0]), ('k2', [2.0])] INTO batch_coll",
    "EMBED BATCH [('key', [1.0, 2.0, 3.0])]",
    "EMBED BATCH [('key1', [])]",
    "EMBED BATCH []",
    "EMBED BUILD INDEX",
    "EMBED DELETE 'doc1'",
    "EMBED DELETE 'doc1' INTO my_collection",
    "EMBED DELETE 'mykey'",
    "EMBED GET 'doc1'",
    "EMBED GET 'doc1' INTO my_collection",
    "EMBED GET 'mykey'",
    "EMBED INVALID",
    "EMBED STORE 'doc1' [0.1, 0.2, 0.3]",
    "EMBED STORE 'doc1' [1.0, 2.0, 3.0]",
    "EMBED STORE 'doc1' [1.0, 2.0, 3.0] INTO my_collection",
    "EMBED STORE 'doc1' [1.0, 2.0]",
    "EMBED STORE 'key' []",
    "ENTITY BATCH CREATE []",
    "ENTITY BATCH CREATE [{key: 'k1', from: 'source'}]",
    "ENTITY BATCH CREATE [{key: 'u1', name: 'Alice'}, {key: 'u2', name: 'Bob'}]",
    "ENTITY CONNECT 'from' -> 'to' : follows",
    "ENTITY CREATE 'doc:1' { title: 'Test' } EMBEDDING [1.0, 0.0]",
    "ENTITY CREATE 'user:1' { name: 'Alice' }",
    "ENTITY DELETE 'user:1'",
    "ENTITY DELETE 'user:123'",
    "ENTITY GET 'user:1'",
    "ENTITY GET 'user:123'",
    "ENTITY INVALID",
    "ENTITY INVALID_OP",
    "ENTITY UPDATE 'user:1' { name: 'Bob' }",
    "ENTITY UPDATE 'user:1' {name: 'Bob'} EMBEDDING [1.0, 2.0]",
    "ENTITY UPDATE 'user:123' { name: 'Bob' }",
    "FIND EDGE FOLLOWS",
    "FIND EDGE FOLLOWS WHERE weight > 0.5",
    "FIND EDGE WHERE weight > 0.5",
    "FIND EDGE follows WHERE weight > 0.5",
    "FIND EDGE knows WHERE weight > 0.5",
    "FIND NODE Person LIMIT 10",
    "FIND NODE Person WHERE age > 18",
    "FIND NODE WHERE active = TRUE",
    "FIND NODE person WHERE age > 18",
    "FIND NODE user RETURN name, age",
    "FIND NODE user WHERE age > 18 LIMIT 10",
    "FIND ROWS FROM users WHERE age > 18",
    "FIND VERTEX person",
    "FIND WHERE x > 1",
    "GRAPH BETWEENNESS CENTRALITY",
    "GRAPH BETWEENNESS CENTRALITY EDGE TYPE 123",
    "GRAPH BETWEENNESS CENTRALITY EDGE TYPE follows",
    "GRAPH BETWEENNESS CENTRALITY INCOMING",
    "GRAPH BETWEENNESS CENTRALITY OUTGOING",
    "GRAPH BETWEENNESS CENTRALITY SAMPLING 0.5",
    "GRAPH CLOSENESS CENTRALITY",
    "GRAPH CLOSENESS CENTRALITY EDGE TYPE knows",
    "GRAPH CLOSENESS CENTRALITY INCOMING",
    "GRAPH EIGENVECTOR CENTRALITY",
    "GRAPH EIGENVECTOR CENTRALITY BOTH",
    "GRAPH EIGENVECTOR CENTRALITY EDGE TYPE follows",
    "GRAPH EIGENVECTOR CENTRALITY EDGE TYPE likes",
    "GRAPH EIGENVECTOR CENTRALITY ITERATIONS 100",
    "GRAPH EIGENVECTOR CENTRALITY ITERATIONS 50 TOLERANCE 0.0001",
    "GRAPH EIGENVECTOR CENTRALITY TOLERANCE 0.001",
    "GRAPH INDEX CREATE ON EDGE PROPERTY weight",
    "GRAPH INDEX CREATE ON EDGE TYPE",
    "GRAPH INDEX CREATE ON INVALID",
    "GRAPH INDEX CREATE ON LABEL",
    "GRAPH INDEX CREATE ON NODE PROPERTY name",
    "GRAPH INDEX DROP ON EDGE PROPERTY weight",
    "GRAPH INDEX DROP ON INVALID",
    "GRAPH INDEX DROP ON NODE PROPERTY age",
    "GRAPH INDEX INVALID",
    "GRAPH INDEX SHOW ON EDGE",
    "GRAPH INDEX SHOW ON INVALID",
    "GRAPH INDEX SHOW ON NODE",
    "GRAPH INVALID",
    "GRAPH INVALID_OP",
    "GRAPH LABEL PROPAGATION",
    "GRAPH LABEL PROPAGATION EDGE TYPE connects",
    "GRAPH LABEL PROPAGATION EDGE TYPE knows",
    "GRAPH LABEL PROPAGATION INCOMING",
    "GRAPH LABEL PROPAGATION ITERATIONS 20",
    "GRAPH LABEL PROPAGATION ITERATIONS 50",
    "GRAPH LOUVAIN COMMUNITIES",
    "GRAPH LOUVAIN COMMUNITIES EDGE TYPE friend",
    "GRAPH LOUVAIN COMMUNITIES EDGE TYPE friends",
    "GRAPH LOUVAIN COMMUNITIES OUTGOING",
    "GRAPH LOUVAIN COMMUNITIES PASSES 10",
    "GRAPH LOUVAIN COMMUNITIES RESOLUTION 1.5",
    "GRAPH LOUVAIN COMMUNITIES RESOLUTION 1.5 BOTH EDGE TYPE friend PASSES 20",
    "GRAPH LOUVAIN COMMUNITIES RESOLUTION 1.5 PASSES 10",
    "GRAPH PAGERANK",
    "GRAPH PAGERANK DAMPING 0.85",
    "GRAPH PAGERANK DAMPING 0.85 ITERATIONS 100 TOLERANCE 0.001 OUTGOING",
    "GRAPH PAGERANK DAMPING 0.9 ITERATIONS 20",
    "GRAPH PAGERANK EDGE TYPE follows",
    "GRAPH PAGERANK OUTGOING",
    "INSERT INTO archive (name) SELECT name FROM users",
    "INSERT INTO archive SELECT * FROM users WHERE active = false",
    "INSERT INTO dst SELECT * FROM src",
    "INSERT INTO t (a, b) FROM x",
    "INSERT INTO t (a, b) SELECT x, y FROM s",
    "INSERT INTO t (a, b) VALUES (1, 2), (3, 4)",
    "INSERT INTO t (a, b) VALUES (1, 2), (3, 4), (5, 6)",
    "INSERT INTO t SELECT * FROM other",
    "INSERT INTO t VALUES (1)",
    "INSERT INTO target SELECT * FROM source",
    "INSERT INTO tbl GARBAGE",
    "INSERT INTO users (name)",
    "INSERT INTO users (name) VALUES ('Alice'), ('Bob'), ('Carol')",
    "INSERT INTO users (name, age) VALUES ('Bob', 25), ('Carol', 30)",
    "INSERT INTO users (name, email) VALUES ('Alice', 'alice@example.com')",
    "INVALID STATEMENT",
    "NEIGHBORS 'entity' BY SIMILAR [1.0, 0.0] LIMIT 5",
    "NEIGHBORS 1",
    "NEIGHBORS 1 : FOLLOWS",
    "NEIGHBORS 1 : friends",
    "NEIGHBORS 1 BOTH",
    "NEIGHBORS 1 BOTH LIMIT 5",
    "NEIGHBORS 1 INCOMING",
    "NEIGHBORS 1 LIMIT 10",
    "NEIGHBORS 1 LIMIT 5",
    "NEIGHBORS 1 OUTGOING",
    "NEIGHBORS 1 OUTGOING : FOLLOWS",
    "NEIGHBORS 123 OUTGOING LIMIT 20",
    "NODE CREATE person",
    "NODE CREATE person {name: 'Alice'}",
    "NODE CREATE user {name: 'Alice', age: 30}",
    "NODE CREATE user {}",
    "NODE DELETE 1",
    "NODE DELETE 123",
    "NODE GET 1",
    "NODE GET 123",
    "NODE INVALID",
    "NODE INVALID_OP",
    "NODE LIST",
    "NODE LIST LIMIT 10",
    "NODE LIST Person LIMIT 10 OFFSET 5",
    "NODE LIST user",
    "NODE LIST user LIMIT 50 OFFSET 100",
    "NODE UPDATE 1",
    "PATH 1 -> 10 LIMIT 5",
    "PATH 1 -> 2",
    "PATH 1 -> 2 LIMIT 5",
    "PATH SHORTEST 1 -> 10",
    "PATH SHORTEST 1 -> 2 LIMIT 5",
    "ROLLBACK CHAIN TO 100",
    "ROLLBACK TO 'checkpoint-id'",
    "ROLLBACK TO 'checkpoint1'",
    "SELCT * FROM users",
    "SELECT",
    "SELECT !false",
    "SELECT 'hello' FROM t",
    "SELECT (((a + b) - c) * d) / e FROM t",
    "SELECT ((1 + 2) * 3) FROM t",
    "SELECT ((a + b) * (c - d)) / e FROM t",
    "SELECT ()",
    "SELECT () FROM t",
    "SELECT (1 + 2",
    "SELECT (1 + 2) * 3 FROM t",
    "SELECT (1+2).* FROM t",
    "SELECT (1, 2, 3) FROM t",
    "SELECT * FROM (SELECT * FROM (SELECT 1 AS x) inner_sub) outer_sub",
    "SELECT * FROM (SELECT 1 AS x) AS sub",
    "SELECT * FROM (SELECT a FROM t) AS sub",
    "SELECT * FROM (SELECT id FROM users) AS sub",
    "SELECT * FROM a CROSS JOIN b",
    "SELECT * FROM a FULL OUTER JOIN b ON a.id = b.id",
    "SELECT * FROM a INNER JOIN b ON a.id = b.id",
    "SELECT * FROM a JOIN b",
    "SELECT * FROM a JOIN b ON a.id = b.a_id JOIN c ON b.id = c.b_id",
    "SELECT * FROM a JOIN b ON a.id = b.id",
    "SELECT * FROM a JOIN b ON a.id = b.id JOIN c ON b.id = c.id",
    "SELECT * FROM a JOIN b USING (id)",
    "SELECT * FROM a JOIN b USING (id, name)",
    "SELECT * FROM a JOIN b USING (x, y, z)",
    "SELECT * FROM a LEFT OUTER JOIN b ON a.id = b.id",
    "SELECT * FROM a NATURAL JOIN b",
    "SELECT * FROM a RIGHT JOIN b ON a.id = b.id",
    "SELECT * FROM a RIGHT OUTER JOIN b ON a.id = b.id",
    "SELECT * FROM t LIMIT 10",
    "SELECT * FROM t LIMIT 10 OFFSET 5",
    "SELECT * FROM t OFFSET 10",
    "SELECT * FROM t ORDER BY a ASC, b DESC",
    "SELECT * FROM t ORDER BY a ASC, b DESC, c",
    "SELECT * FROM t ORDER BY x ASC",
    "SELECT * FROM t ORDER BY x DESC",
    "SELECT * FROM t ORDER BY x DESC NULLS LAST",
    "SELECT * FROM t ORDER BY x NULLS FIRST",
    "SELECT * FROM t ORDER BY x NULLS LAST",
    "SELECT * FROM t WHERE (a > 1 AND b < 2) OR (c = 3 AND d != 4)",
    "SELECT * FROM t WHERE (a, b) = (1, 2)",
    "SELECT * FROM t WHERE EXISTS (SELECT 1 FROM s)",
    "SELECT * FROM t WHERE EXISTS (SELECT 1 FROM u)",
    "SELECT * FROM t WHERE a != b",
    "SELECT * FROM t WHERE a <= b",
    "SELECT * FROM t WHERE a <> b",
    "SELECT * FROM t WHERE a = 1 AND b = 2 OR c = 3",
    "SELECT * FROM t WHERE a >= b",
    "SELECT * FROM t WHERE age NOT BETWEEN 10 AND 20",
    "SELECT * FROM t WHERE id IN (1, 2, 3)",
    "SELECT * FROM t WHERE id NOT IN (1, 2)",
    "SELECT * FROM t WHERE id NOT IN (1, 2, 3)",
    "SELECT * FROM t WHERE name IS NOT NULL",
    "SELECT * FROM t WHERE name LIKE '%foo%'",
    "SELECT * FROM t WHERE name LIKE '%test%'",
    "SELECT * FROM t WHERE name NOT LIKE '%bar%'",
    "SELECT * FROM t WHERE name NOT LIKE '%test%'",
    "SELECT * FROM t WHERE name NOT LIKE 'test%'",
    "SELECT * FROM t WHERE t.x = 1",
    "SELECT * FROM t WHERE val BETWEEN 1 AND 10",
    "SELECT * FROM t WHERE x = 1",
    "SELECT * FROM t WHERE x BETWEEN 1 AND 10",
    "SELECT * FROM t WHERE x IN ()",
    "SELECT * FROM t WHERE x IN (1, 2, 3)",
    "SELECT * FROM t WHERE x IN (SELECT y FROM s)",
    "SELECT * FROM t WHERE x IS NOT NULL",
    "SELECT * FROM t WHERE x IS NULL",
    "SELECT * FROM t WHERE x NOT BETWEEN 1 AND 10",
    "SELECT * FROM t WHERE x NOT IN (1, 2, 3)",
    "SELECT * FROM t WHERE x NOT IN (SELECT y FROM s)",
    "SELECT * FROM t WHERE x NOT LIKE '%test%'",
    "SELECT * FROM users",
    "SELECT * FROM users AS u",
    "SELECT * FROM users FULL OUTER JOIN orders ON users.id = orders.user_id",
    "SELECT * FROM users JOIN orders ON users.id = orders.user_id",
    "SELECT * FROM users LEFT JOIN orders ON users.id = orders.user_id",
    "SELECT * FROM users LIMIT 10 OFFSET 5",
    "SELECT * FROM users ORDER BY",
    "SELECT * FROM users ORDER BY name ASC",
    "SELECT * FROM users WHERE EXISTS (SELECT 1 FROM orders)",
    "SELECT * FROM users WHERE NOT active",
    "SELECT * FROM users WHERE age NOT BETWEEN 18 AND 65",
    "SELECT * FROM users WHERE email IS NOT NULL",
    "SELECT * FROM users WHERE id = 1",
    "SELECT * FROM users WHERE id IN (SELECT user_id FROM orders)",
    "SELECT * FROM users WHERE id NOT IN (1, 2, 3)",
    "SELECT * FROM users WHERE name NOT LIKE '%admin%'",
    "SELECT * FROM users u",
    "SELECT * FROM users u JOIN orders o ON u.id = o.user_id",
    "SELECT * WHERE x = 1",
    "SELECT , FROM t",
    "SELECT -1 FROM dual",
    "SELECT -1 FROM t",
    "SELECT -42 FROM t",
    "SELECT -5",
    "SELECT -x FROM t",
    "SELECT 1",
    "SELECT 1 & 2",
    "SELECT 1 + 2",
    "SELECT 1 << 2",
    "SELECT 1 >> 2",
    "SELECT 1 UNION SELECT 2",
    "SELECT 1 ^ 2",
    "SELECT 1 | 2",
    "SELECT 1.*",
    "SELECT 1.5e10 FROM t",
    "SELECT 10 % 3 FROM dual",
    "SELECT 3.14 FROM t",
    "SELECT 42 FROM t",
    "SELECT ALL * FROM t",
    "SELECT ALL x FROM t",
    "SELECT AVG(x) FROM t",
    "SELECT CASE END FROM t",
    "SELECT CASE WHEN THEN 1 END FROM t",
    "SELECT CASE WHEN a THEN 1 WHEN b THEN 2 WHEN c THEN 3 END FROM t",
    "SELECT CASE WHEN age > 18 THEN 'adult' ELSE 'minor' END FROM users",
    "SELECT CASE WHEN x > 0 THEN 'pos' ELSE 'neg' END FROM t",
    "SELECT CASE WHEN x > 0 THEN 'positive' ELSE 'negative' END FROM t",
    "SELECT CASE WHEN x > 0 THEN 1 END FROM t",
    "SELECT CASE WHEN x > 1 THEN 'big' ELSE 'small' END FROM t",
    "SELECT CASE x WHEN 1 THEN 'a' WHEN 2 THEN 'b' ELSE 'c' END FROM t",
    "SELECT CASE x WHEN 1 THEN 'one' WHEN 2 THEN 'two' ELSE 'other' END",
    "SELECT CAST(age AS VARCHAR) FROM users",
    "SELECT CAST(x AS DECIMAL(10, 2)) FROM t",
    "SELECT CAST(x AS INT) FROM t",
    "SELECT CAST(x AS VARCHAR(100)) FROM t",
    "SELECT CAST(x AS VARCHAR(255)) FROM t",
    "SELECT COALESCE(a, b, c, d) FROM t",
    "SELECT COUNT(*), SUM(amount), AVG(price) FROM orders",
    "SELECT COUNT(DISTINCT name) FROM users",
    "SELECT COUNT(DISTINCT x) FROM t",
    "SELECT DISTINCT name FROM users",
    "SELECT FALSE FROM t",
    "SELECT FROM t",
    "SELECT MAX(x) FROM t",
    "SELECT MIN(x) FROM t",
    "SELECT NOT true",
    "SELECT NOT x FROM t",
    "SELECT NOW() FROM dual",
    "SELECT NULL FROM t",
    "SELECT SUM(x) FROM t",
    "SELECT TRUE FROM t",
    "SELECT UPPER(name) FROM t",
    "SELECT [1, 2, 3] FROM t",
    "SELECT []",
    "SELECT [] FROM t",
    "SELECT a % b FROM t",
    "SELECT a * b FROM t",
    "SELECT a + b * c - d / e FROM t",
    "SELECT a + b + c + d + e FROM t",
    "SELECT a + b FROM t",
    "SELECT a - b FROM t",
    "SELECT a / b FROM t",
    "SELECT a FROM t1 EXCEPT SELECT b FROM t2",
    "SELECT a FROM t1 INTERSECT SELECT b FROM t2",
    "SELECT a FROM t1 UNION SELECT b FROM t2",
    "SELECT a FROM users WHERE id = 1",
    "SELECT a FROM users u",
    "SELECT a || b FROM t",
    "SELECT a, COUNT(*) FROM t GROUP BY a",
    "SELECT a, b, COUNT(*) FROM t GROUP BY a, b",
    "SELECT a, b, c FROM t",
    "SELECT a, b, c, d, e FROM t",
    "SELECT arr[0]",
    "SELECT id, name, email FROM users",
    "SELECT name AS user_name FROM users",
    "SELECT name FROM users EXCEPT SELECT name FROM banned",
    "SELECT name FROM users INTERSECT SELECT name FROM admins",
    "SELECT name FROM users UNION ALL SELECT name FROM admins",
    "SELECT name FROM users UNION SELECT name FROM admins",
    "SELECT name, COUNT(*) FROM users GROUP BY name HAVING COUNT(*) > 1",
    "SELECT sub.x FROM (SELECT 1 AS x) sub",
    "SELECT t.* FROM t",
    "SELECT t.name FROM t",
    "SELECT t.x FROM t",
    "SELECT t.x FROM users t",
    "SELECT u.name FROM users AS u WHERE u.id = 1",
    "SELECT u.name FROM users u",
    "SELECT x AS y FROM t",
    "SELECT x alias FROM t",
    "SELECT x y FROM t WHERE y = 1",
    "SELECT ~1",
    "SELECT ~x FROM t",
    "SHOW",
    "SHOW CODEBOOK GLOBAL",
    "SHOW CODEBOOK INVALID",
    "SHOW CODEBOOK LOCAL 'users'",
    "SHOW COLUMNS",
    "SHOW EMBEDDINGS",
    "SHOW EMBEDDINGS LIMIT 10",
    "SHOW INVALID",
    "SHOW TABLES",
    "SHOW TABLES;",
    "SHOW VECTOR INDEX",
    "SIMILAR 'doc' DOT_PRODUCT",
    "SIMILAR 'doc' EUCLIDEAN",
    "SIMILAR 'doc1' LIMIT 10 COSINE",
    "SIMILAR 'doc1' LIMIT 10 WHERE category = 'tech' AND score > 5",
    "SIMILAR 'entity' CONNECTED TO 'hub' LIMIT 5",
    "SIMILAR 'key' CONNECTED TO 'hub' LIMIT 10",
    "SIMILAR 'query'",
    "SIMILAR 'query' DOT_PRODUCT LIMIT 5",
    "SIMILAR 'query' LIMIT 10",
    "SIMILAR [0.1, 0.2] LIMIT 5",
    "SIMILAR [1.0, 2.0, 3.0] LIMIT 5",
    "SIMILAR [1.0, 2.0]",
    "SIMILAR [1.0, 2.0] LIMIT 10 EUCLIDEAN",
    "SIMILAR [1.0, 2.0] LIMIT 10 INTO my_collection",
    "SIMILAR [1.0, 2.0] LIMIT 10 WHERE category = 'science'",
    "SIMILAR [1.0, 2.0] LIMIT 5 COSINE",
    "SIMILAR [1.0, 2.0] LIMIT 5 DOT_PRODUCT",
    "SIMILAR [1.0, 2.0] LIMIT 5 EUCLIDEAN",
    "SIMILAR [1.0, 2.0] LIMIT 5 INTO docs WHERE author = 'Alice'",
    "SIMILAR [1.0] WHERE status = 'active' OR status = 'pending'",
    "SIMILAR [] LIMIT 5",
    "UNKNOWNXYZ",
    "UPDATE t SET a = 1, b = 2, c = 3 WHERE id = 1",
    "UPDATE users SET active = TRUE",
    "UPDATE users SET name = 'Bob' WHERE id = 1",
    "UPDATE users SET name = 'Bob', age = 30, active = TRUE WHERE id = 1",
    "VAULT DELETE 'mykey'",
    "VAULT GET 'mykey'",
    "VAULT GET 'mysecret'",
    "VAULT GRANT 'user123' ON 'secret/key'",
    "VAULT INVALID",
    "VAULT LIST",
    "VAULT LIST 'secret*'",
    "VAULT REVOKE 'user123' ON 'secret/key'",
    "VAULT ROTATE 'mykey' 'newvalue'",
    "VAULT SET 'key1' 'value1'",
    "cache init",
    "show tables",
    // command strings of query_router's own tests for the legacy `execute` splitter
    "-- this is a comment",
    "AGGREGATE EDGE PROPERTY prop COUNT",
    "AGGREGATE EDGE PROPERTY score MIN",
    "AGGREGATE EDGE PROPERTY value MAX",
    "AGGREGATE EDGE PROPERTY weight AVG",
    "AGGREGATE NODE PROPERTY age AVG",
    "AGGREGATE NODE PROPERTY age SUM",
    "BATCH CREATE NODES [{labels: [Person], name: 'Alice'}, {labels: [Person], name: 'Bob'}]",
    "BEGIN",
    "BUILD HNSW",
    "COMMIT",
    "CONSTRAINT ADD person name UNIQUE",
    "CONSTRAINT CREATE email_unique ON NODE PROPERTY email UNIQUE",
    "CONSTRAINT DROP email_unique",
    "CONSTRAINT GET email_unique",
    "CONSTRAINT LIST",
    "CONSTRAINT REMOVE person name",
    "CREATE INDEX indexed col",
    "CREATE INDEX indexed name",
    "CREATE INDEX t",
    "CREATE SOMETHING bad",
    "CREATE TABLE agg (category:string, value:int)",
    "CREATE TABLE bad (invalid)",
    "CREATE TABLE bad (x:unknowntype)",
    "CREATE TABLE bad x:int",
    "DELETE",
    "DELETE del",
    "DELETE deltest WHERE id = 2",
    "DELETE missing_table",
    "DELETE temp WHERE id = 1",
    "DELETE temp WHERE id=1",
    "DELETE users WHERE id = 1",
    "DESCRIBE missing_table",
    "DROP INDEX indexed col",
    "DROP INDEX indexed name",
    "DROP INDEX t",
    "DROP SOMETHING bad",
    "DROP TABLE dropme",
    "DROP TABLE missing_table",
    "DROP TABLE to_drop",
    "DROP TABLE todrop",
    "EDGE",
    "EDGE CREATE",
    "EDGE CREATE 1 2 label",
    "EDGE CREATE notanumber -> 1",
    "EDGE GET",
    "EDGE GET notanumber",
    "EDGE UNKNOWN 1",
    "EMBED",
    "EMBED a [1.0, 0.0]",
    "EMBED a [1.0]",
    "EMBED b [0.0, 1.0]",
    "EMBED b [2.0]",
    "EMBED bad [not,a,vector]",
    "EMBED coll_vec1 [1.0, 0.0, 0.0]",
    "EMBED cos_a [1.0, 0.0]",
    "EMBED cos_b [0.0, 1.0]",
    "EMBED cos_c [0.707, 0.707]",
    "EMBED doc1 [1.0, 0.0, 0.0]",
    "EMBED doc2 [0.0, 1.0, 0.0]",
    "EMBED doc3 [0.9, 0.1, 0.0]",
    "EMBED dot_a [1.0, 0.0]",
    "EMBED dot_b [2.0, 0.0]",
    "EMBED dot_c [0.5, 0.0]",
    "EMBED emptykey []",
    "EMBED euc_a [1.0, 0.0]",
    "EMBED euc_b [2.0, 0.0]",
    "EMBED euc_c [10.0, 0.0]",
    "EMBED h1 [1.0, 0.0, 0.0]",
    "EMBED h2 [0.0, 1.0, 0.0]",
    "EMBED hnsw_a [1.0, 0.0]",
    "EMBED hnsw_b [2.0, 0.0]",
    "EMBED item1 [1.0, 0.0, 0.0]",
    "EMBED item2 [0.9, 0.1, 0.0]",
    "EMBED key []",
    "EMBED key [not, valid]",
    "EMBED meta_vec [1.0, 0.0]",
    "EMBED mykey [1.0, 2.0]",
    "EMBED post [1.0, 0.0, 0.0]",
    "EMBED synckey [1.0, 2.0]",
    "EMBED test [1.0]",
    "EMBED testkey [1.0, 2.0, 3.0]",
    "EMBED todelete [1.0, 2.0]",
    "EMBED v [1.0, 2.0]",
    "EMBED v [1.0]",
    "EMBED v1 [1.0, 0.0, 0.0]",
    "EMBED v1 [1.0, 0.0]",
    "EMBED v2 [0.0, 1.0, 0.0]",
    "EMBED v2 [0.0, 1.0]",
    "EMBED v3 [0.0, 0.0, 1.0]",
    "EMBED vec1 [1.0, 0.0, 0.0]",
    "EMBED vec1 [1.0, 0.0]",
    "EMBED vec1 [1.0, 2.0, 3.0]",
    "EMBED vec2 [0.0, 1.0, 0.0]",
    "EMBED vec2 [0.9, 0.1, 0.0]",
    "EMBED vec3 [0.0, 1.0, 0.0]",
    "EMBED vec4 [0.0, 0.0, 1.0]",
    "EMBED x [1.0]",
    "EMBED zero_far [10.0, 0.0]",
    "EMBED zero_origin [0.0, 0.0]",
    "EMBED zero_unit [1.0, 0.0]",
    "ENTITY BATCH CREATE [{key: 'batch:1', name: 'First'}, {key: 'batch:2', name: 'Second'}]",
    "ENTITY CONNECT 'user:alice' -> 'user:bob' : follows",
    "ENTITY CREATE 'doc:1' { title: 'Test' } EMBEDDING [0.1, 0.2, 0.3]",
    "ENTITY CREATE 'user:1' { name: 'Alice', age: '30' }",
    "ENTITY CREATE 'user:alice' { name: 'Alice' }",
    "ENTITY CREATE 'user:bob' { name: 'Bob' }",
    "ENTITY DELETE 'user:1'",
    "ENTITY GET 'batch:1'",
    "ENTITY GET 'doc:1'",
    "ENTITY GET 'user:1'",
    "ENTITY UPDATE 'user:1' { name: 'Alicia', age: '31' }",
    "EXPLAIN SELECT explained",
    "FIND",
    "FIND EDGES",
    "FIND EDGES authored",
    "FIND NODES findtest",
    "FIND NODES item WHERE x > 5",
    "FIND NODES post",
    "FIND ROWS FROM findrows",
    "FOOBAR xyz",
    "GRAPH BETWEENNESS CENTRALITY",
    "GRAPH CLOSENESS CENTRALITY",
    "GRAPH EIGENVECTOR CENTRALITY",
    "GRAPH EIGENVECTOR CENTRALITY ITERATIONS 50 TOLERANCE 0.001",
    "GRAPH INDEX CREATE ON EDGE PROPERTY weight",
    "GRAPH INDEX CREATE ON EDGE TYPE",
    "GRAPH INDEX CREATE ON LABEL",
    "GRAPH INDEX CREATE ON NODE PROPERTY email",
    "GRAPH LABEL PROPAGATION",
    "GRAPH LOUVAIN COMMUNITIES",
    "GRAPH PAGERANK",
    "GRAPH PAGERANK DAMPING 0.85 ITERATIONS 50",
    "INSERT",
    "INSERT INTO missing_table (id) VALUES (1)",
    "INSERT agg category='A', value=10",
    "INSERT agg category='A', value=20",
    "INSERT agg category='B', value=30",
    "INSERT counted id=1",
    "INSERT counted id=2",
    "INSERT data a=1, b=2",
    "INSERT data a=3, b=4",
    "INSERT data a=5, b=6",
    "INSERT del x=1",
    "INSERT del x=2",
    "INSERT deltest id=1, name='A'",
    "INSERT deltest id=2, name='B'",
    "INSERT deltest id=3, name='C'",
    "INSERT dropme id=1",
    "INSERT dups cat='A'",
    "INSERT dups cat='B'",
    "INSERT findrows x=1",
    "INSERT items id=1",
    "INSERT items id=1, active=true",
    "INSERT items id=2",
    "INSERT items id=2, active=false",
    "INSERT left_t id=1, val='a'",
    "INSERT left_t id=2, val='b'",
    "INSERT logic a=1, b=1",
    "INSERT logic a=1, b=2",
    "INSERT logic a=2, b=1",
    "INSERT multi a=1, b=1",
    "INSERT multi a=1, b=2",
    "INSERT multi a=2, b=1",
    "INSERT nulltest id=1, name=NULL",
    "INSERT nums val=3.14",
    "INSERT ops id=1, val=10",
    "INSERT ops id=2, val=20",
    "INSERT ops id=3, val=30",
    "INSERT ops x=5",
    "INSERT ordered id=1, name='C', score=30",
    "INSERT ordered id=2, name='A', score=10",
    "INSERT ordered id=3, name='B', score=20",
    "INSERT products id=1, price=100",
    "INSERT products id=2, price=200",
    "INSERT right_t id=1, data='x'",
    "INSERT right_t id=3, data='y'",
    "INSERT scores id=1, val=10",
    "INSERT shared id=1",
    "INSERT t",
    "INSERT t flag=FALSE",
    "INSERT t invalid",
    "INSERT t s='hello'",
    "INSERT temp id=1",
    "INSERT temp id=2",
    "INSERT temps id=1",
    "INSERT temps id=2",
    "INSERT to_drop id=1",
    "INSERT updtest id=1, status='pending'",
    "INSERT updtest id=2, status='pending'",
    "INSERT vals id=1, x=10",
    "INSERT vals id=2, x=20",
    "INSERT vals id=3, x=30",
    "NEIGHBORS",
    "NEIGHBORS notanumber",
    "NODE",
    "NODE CREATE Node",
    "NODE CREATE Page",
    "NODE CREATE Person age=20",
    "NODE CREATE Person age=25",
    "NODE DELETE",
    "NODE GET",
    "NODE GET 99999",
    "NODE GET notanumber",
    "NODE UNKNOWN label",
    "PATH 1",
    "PATH 1 -> notanumber",
    "PATH 99999 -> 99998",
    "PATH notanumber -> 1",
    "SELECT",
    "SELECT * FROM missing_table",
    "SELECT AVG(value) FROM agg",
    "SELECT COUNT(*) FROM agg",
    "SELECT COUNT(*) FROM counted",
    "SELECT DISTINCT cat FROM dups",
    "SELECT FROM",
    "SELECT MAX(value) FROM agg",
    "SELECT MIN(value) FROM agg",
    "SELECT SUM(value) FROM agg",
    "SELECT data WHERE a = 1 OR a = 5",
    "SELECT data WHERE a > 2 AND b < 6",
    "SELECT deltest",
    "SELECT dropme",
    "SELECT flags",
    "SELECT items WHERE qty > 15",
    "SELECT logic WHERE a = 1 AND b = 1",
    "SELECT logic WHERE a = 1 OR b = 1",
    "SELECT nonexistent",
    "SELECT nullable",
    "SELECT nulltest",
    "SELECT nums",
    "SELECT ops WHERE val != 20",
    "SELECT ops WHERE val < 25",
    "SELECT ops WHERE val <= 20",
    "SELECT ops WHERE val >= 20",
    "SELECT products",
    "SELECT shared",
    "SELECT t",
    "SELECT t WHERE invalid",
    "SELECT updtest WHERE id = 1",
    "SELECT users",
    "SELECT users WHERE id = 1",
    "SELECT vals",
    "SHOW TABLES",
    "SHOW VECTOR INDEX",
    "SIMILAR",
    "SIMILAR [0.9, 0.1, 0.0] TOP 1",
    "SIMILAR [1.0, 0.0, 0.0] IN test_coll TOP 5",
    "SIMILAR [1.0, 0.0, 0.0] TOP 2",
    "SIMILAR [1.0, 0.0] TOP 1",
    "SIMILAR a TOP 2",
    "SIMILAR doc1 TOP 2",
    "SIMILAR nonexistent TOP 5",
    "SIMILAR v TOP notanumber",
    "SIMILAR vec1 TOP 3",
    "UNKNOWN something",
    "UPDATE missing_table SET val = 1",
    "UPDATE t SET x=99",
    "UPDATE t x=2",
    "UPDATE updtest SET status='done' WHERE id = 1",
    "VECTOR COLLECTION ADD test_coll coll_vec1",
    "VECTOR COLLECTION CREATE test_coll",
    "VECTOR META GET meta_vec",
    "VECTOR META SET meta_vec category='test'",
];
