//! C06 — similarity search returns the true nearest stored vectors.
//!
//! One case = one random program against a fresh real `VectorEngine` (default collection + named
//! collections), mirrored by a small shadow model (key -> vector + metadata, per collection). Every
//! search answer of the engine is judged by an f64 reference scorer over the model:
//!
//!  * exhaustive mode (no approximate index may legitimately answer): the result must be exactly the k
//!    (or all, if fewer) stored vectors of the query's dimension (matching the filter, if any) with the
//!    best score under the chosen metric — set compared modulo eps-ties at the k-th boundary — best
//!    first, each with its correct score, no deleted key, no overwritten vector, no duplicates.
//!  * cached-index mode (an HNSW index was cached and *nothing changed since*): every returned key is
//!    currently stored (= indexed), reported with the true score of the current vector, no duplicates,
//!    ordered, at most k. The engine is free not to use the index (an exact answer passes this check).
//!  * the index must never be consulted after the data it was built from changed: as soon as the model
//!    saw a vector mutation after a build, the oracle is the exhaustive one again. A failure in that
//!    state is diagnosed against the real code: `invalidate_hnsw_cache` + the same search again; when
//!    that answer is exact the failure is reported as `stale-index:<slot>:after:<first mutation API>`.
//!  * read-back: `get_embedding` / `get_from_collection` return the stored vector (value equality,
//!    -0 == +0), whichever representation (dense / sparse) the engine chose.
//!
//! parts: `program` (above), `alias` (a named collection called "_default" next to a cached default
//! index; skipped when the engine refuses that name), `rerank` (`search_with_hnsw_and_metric` on a
//! just-built index with every extended metric — cosine, angular, geodesic, Jaccard, overlap, weighted
//! Jaccard, Euclidean, Manhattan, composite — over one-hot / zero / prefix- and suffix-supported stored
//! vectors and queries with negative tails and heads, judged with the cached-index oracle under the f64
//! reference of the documented score formula of that metric), `concurrent` (stores / overwrites /
//! deletes — every mutation API of the default collection and of a named collection — executed by a
//! mutator thread while 2-5 other threads are searching through the index that was cached just before;
//! all calls are bracketed by ticks of one logical clock. After the threads were joined, sequential
//! searches are judged as in `program` (the data changed after the build: exhaustive oracle, stale-index
//! diagnosis, signature `stale-index:<slot>:after:<api>[during-searches]`). The searches recorded in
//! flight are judged from their brackets: one that began after a mutation had returned and overlapped
//! no other mutation must be exact over that state (`inflight:<api>:after:<first mutation>:<what>`),
//! one that ran before the first mutation satisfies the cached-index oracle (`…:index-fresh:…`), one that
//! overlapped mutations may only return keys with the true score of a vector the key held between its
//! start and its end (`…:overlapping-mutation:…`)), `buildrace` (`build_and_cache_index` running while
//! another thread stores / overwrites / deletes in the default collection; after both were joined every
//! answer must satisfy the cached-index oracle over the final data — a deleted key or an overwritten
//! vector's score means an index that missed a completed mutation is being consulted:
//! `stale-index:default:build_and_cache_index-overlapped-mutations`; `--probe 10` is the minimal witness),
//! `partial` (operations that FAIL after part of their writes took effect, issued while an index is
//! cached: `batch_store_embeddings` with an element longer than `VectorEngineConfig::max_dimension` at
//! any position, in the sequential and in the rayon branch; `load_index` / `load_index_binary` of a file
//! written by another engine that holds such an entry; single stores that are refused; batches refused
//! by the up-front validation. The statement does not make a failing operation atomic, so after every
//! `Err` the model follows the engine: each key the operation named is read back (`get_embedding`,
//! `get_metadata`) and must hold either the vector it held before or the vector the operation was
//! writing (`readback:<api>[failed]:value-never-written|stored-vector-lost` otherwise); a key whose
//! vector changed is a data change like any other — the index cached before it must not be consulted
//! (`stale-index:default:after:<api>[failed]`). Part `program` does the same after every refused store
//! in the third of its programs that configure `max_dimension`), `bigk` (every k: the searches of all
//! APIs — exhaustive, through the cached index of the default and of a named collection, through an
//! explicit index incl. the re-ranking search, and `HNSWIndex::search` / `search_with_ef` directly —
//! with k and ef far above the number of stored vectors: 10^5 … 2^31, 2^32+1, 2^40, 2^59, 2^60, usize::MAX/16,
//! usize::MAX/2, usize::MAX-1, usize::MAX, judged by the same oracles ("the k, or all if fewer"). A work
//! buffer sized from k ends in an allocation failure that no `catch_unwind` sees, so these cases run in
//! child processes of this binary (`child-bigk`, address space limited to 4 GB): the child records the
//! call it is about to make; a child that dies inside a search is reported as
//! `huge-k:<api>:process-killed`, a child that does not finish is inconclusive. Every case is executed
//! twice, first with the values from 2^59 up only — a request for that many elements is refused with
//! a panic, which the usual oracles report as `cached:<api>:panic` / `hnsw:search:panic` — then with
//! the whole list).
//!
//! Failure classes carry their own signature (`stale-index:<slot>:after:<api>`,
//! `cached:<api>:<what>`, `exact:<api>:<what>`, `readback:<api>:<what>`); three by-products of the
//! oracle are classified against the real code before they are reported: an exact-but-short answer of
//! the post-filter strategy (`…:post-filter-returns-fewer-than-k-matching`), an answer that is the
//! exact *cosine* ranking in a collection configured with another metric
//! (`…:scored-with-cosine-instead-of-collection-metric`) and a key whose storage prefix was removed
//! twice (`…:key-prefix-stripped-twice`).
//!
//! development aids: `--case-seed N [--part alias] --verbose 1`, `--sig-filter <substring>`.

use common::*;
use serde_json::{json, Value};
use std::collections::{BTreeMap, BTreeSet, HashMap};
use std::panic::{catch_unwind, AssertUnwindSafe};
use std::sync::Arc;
use std::time::Instant;
use tensor_store::{HNSWDistanceMetric, ScalarValue, TensorValue};
use vector_engine::{
    DistanceMetric, EmbeddingInput, ExtendedDistanceMetric, FilterCondition, GeometricConfig, FilterStrategy, FilterValue, FilteredSearchConfig, HNSWBuildOptions, HNSWConfig,
    HNSWIndex, HNSWStorageStrategy, SearchResult, VectorCollectionConfig, VectorEngine, VectorEngineConfig,
};

// ------------------------------------------------------------------------------------------------
// model
// ------------------------------------------------------------------------------------------------

#[derive(Clone, Debug, PartialEq)]
enum MV {
    Int(i64),
    Str(String),
}
type Md = BTreeMap<String, MV>;

#[derive(Clone, Debug)]
struct Entry {
    v: Vec<f32>,
    meta: Md,
}

#[derive(Clone, Copy, Debug, PartialEq, Eq)]
enum Metric {
    Cos,
    Euc,
    Dot,
}
impl Metric {
    fn name(self) -> &'static str {
        match self {
            Metric::Cos => "cosine",
            Metric::Euc => "euclidean",
            Metric::Dot => "dot",
        }
    }
    fn engine(self) -> DistanceMetric {
        match self {
            Metric::Cos => DistanceMetric::Cosine,
            Metric::Euc => DistanceMetric::Euclidean,
            Metric::Dot => DistanceMetric::DotProduct,
        }
    }
    fn hnsw(self) -> HNSWDistanceMetric {
        match self {
            Metric::Cos => HNSWDistanceMetric::Cosine,
            Metric::Euc => HNSWDistanceMetric::Euclidean,
            Metric::Dot => HNSWDistanceMetric::DotProduct,
        }
    }
}

#[derive(Clone, Debug, PartialEq)]
enum Cache {
    /// no index cached by the program since the last observed invalidation
    Absent,
    /// an index was cached and no vector of this collection changed since: using it is legitimate
    Fresh,
    /// an index was cached and the data changed afterwards through the named API (first such call)
    Stale(&'static str),
}

#[derive(Clone, Debug)]
struct Space {
    data: BTreeMap<String, Entry>,
    cache: Cache,
    deleted: BTreeSet<String>,
    /// earlier vectors of keys that were overwritten (classification only)
    old: HashMap<String, Vec<Vec<f32>>>,
    /// storage-key prefix of this collection (classification only)
    prefix: String,
}
impl Space {
    fn new(prefix: &str) -> Space {
        Space { data: BTreeMap::new(), cache: Cache::Absent, deleted: BTreeSet::new(), old: HashMap::new(), prefix: prefix.to_string() }
    }
    fn mutated(&mut self, api: &'static str) {
        if self.cache == Cache::Fresh {
            self.cache = Cache::Stale(api);
        }
    }
    /// returns true when the stored data changed
    fn put(&mut self, key: &str, v: Vec<f32>, meta: Md, api: &'static str) {
        let changed = match self.data.get(key) {
            Some(e) => !vec_value_eq(&e.v, &v),
            None => true,
        };
        if let Some(e) = self.data.get(key) {
            if changed {
                let o = self.old.entry(key.to_string()).or_default();
                if o.len() < 4 {
                    o.push(e.v.clone());
                }
            }
        }
        self.deleted.remove(key);
        self.data.insert(key.to_string(), Entry { v, meta });
        if changed {
            self.mutated(api);
        }
    }
    fn del(&mut self, key: &str, api: &'static str) -> bool {
        if self.data.remove(key).is_some() {
            self.deleted.insert(key.to_string());
            self.mutated(api);
            true
        } else {
            false
        }
    }
    fn dims(&self) -> BTreeSet<usize> {
        self.data.values().map(|e| e.v.len()).collect()
    }
}

struct Named {
    space: Space,
    created: bool,
    dim: Option<usize>,
    metric: Metric,
}

fn vec_value_eq(a: &[f32], b: &[f32]) -> bool {
    a.len() == b.len() && a.iter().zip(b).all(|(x, y)| x == y)
}

// ------------------------------------------------------------------------------------------------
// reference scorer (f64)
// ------------------------------------------------------------------------------------------------

/// (true score, tolerance). Tolerance = 1e-4 relative + 1e-6 absolute, where "relative" is taken
/// against the larger of |score| and the size of the f32 computation that produces it (sum of
/// |q_i v_i|, normalised for cosine): an f32 SIMD dot product with cancellation is only accurate
/// relative to that, not relative to the (possibly tiny) result.
fn ref_score(m: Metric, q: &[f32], v: &[f32]) -> (f64, f64) {
    debug_assert_eq!(q.len(), v.len());
    let mut dot = 0f64;
    let mut absdot = 0f64;
    let mut nq = 0f64;
    let mut nv = 0f64;
    let mut d2 = 0f64;
    for (a, b) in q.iter().zip(v) {
        let (a, b) = (*a as f64, *b as f64);
        dot += a * b;
        absdot += (a * b).abs();
        nq += a * a;
        nv += b * b;
        d2 += (a - b) * (a - b);
    }
    match m {
        Metric::Cos => {
            if nq == 0.0 || nv == 0.0 {
                (0.0, 1e-6)
            } else {
                let den = nq.sqrt() * nv.sqrt();
                let s = dot / den;
                let cond = absdot / den;
                (s, 1e-4 * s.abs().max(cond) + 1e-6)
            }
        }
        Metric::Dot => (dot, 1e-4 * dot.abs().max(absdot) + 1e-6),
        Metric::Euc => {
            let s = 1.0 / (1.0 + d2.sqrt());
            (s, 1e-4 * s + 1e-6)
        }
    }
}

// ------------------------------------------------------------------------------------------------
// extended metrics of the index-assisted re-rank path (search_with_hnsw_and_metric): f64 reference
// of the documented raw value (tensor_store::DistanceMetric / SparseVector docs) and of the
// documented conversion to a similarity (DistanceMetric::to_similarity)
// ------------------------------------------------------------------------------------------------

#[derive(Clone, Debug, PartialEq)]
enum XM {
    Cosine,
    Angular,
    Geodesic,
    Jaccard,
    Overlap,
    WeightedJaccard,
    Euclidean,
    Manhattan,
    /// (cosine, structural, magnitude) weights
    Composite(f32, f32, f32),
}

impl XM {
    fn name(&self) -> &'static str {
        match self {
            XM::Cosine => "cosine",
            XM::Angular => "angular",
            XM::Geodesic => "geodesic",
            XM::Jaccard => "jaccard",
            XM::Overlap => "overlap",
            XM::WeightedJaccard => "weighted-jaccard",
            XM::Euclidean => "euclidean",
            XM::Manhattan => "manhattan",
            XM::Composite(..) => "composite",
        }
    }
    fn engine(&self) -> ExtendedDistanceMetric {
        match self {
            XM::Cosine => ExtendedDistanceMetric::Cosine,
            XM::Angular => ExtendedDistanceMetric::Angular,
            XM::Geodesic => ExtendedDistanceMetric::Geodesic,
            XM::Jaccard => ExtendedDistanceMetric::Jaccard,
            XM::Overlap => ExtendedDistanceMetric::Overlap,
            XM::WeightedJaccard => ExtendedDistanceMetric::WeightedJaccard,
            XM::Euclidean => ExtendedDistanceMetric::Euclidean,
            XM::Manhattan => ExtendedDistanceMetric::Manhattan,
            XM::Composite(c, s, m) => ExtendedDistanceMetric::Composite(GeometricConfig { cosine_weight: *c, structural_weight: *s, magnitude_weight: *m }),
        }
    }
    /// (true similarity, tolerance). The engine computes the raw values in f64 and rounds to f32, so
    /// 1e-4 relative + 1e-6 absolute is ample; only the angular metrics need more near cos = +-1,
    /// where acos amplifies the f32 rounding of the cosine (d acos = d cos / sqrt(1 - cos^2)).
    fn score(&self, q: &[f32], v: &[f32]) -> (f64, f64) {
        debug_assert_eq!(q.len(), v.len());
        let (mut dot, mut nq, mut nv, mut d2, mut l1) = (0f64, 0f64, 0f64, 0f64, 0f64);
        let (mut inter, mut cq, mut cv) = (0usize, 0usize, 0usize);
        let (mut min_sum, mut max_sum) = (0f64, 0f64);
        for (a, b) in q.iter().zip(v) {
            // "non-zero position" = a component that does not compare equal to 0 (-0.0 is zero)
            let (za, zb) = (*a != 0.0, *b != 0.0);
            cq += za as usize;
            cv += zb as usize;
            inter += (za && zb) as usize;
            let (a, b) = (*a as f64, *b as f64);
            dot += a * b;
            nq += a * a;
            nv += b * b;
            d2 += (a - b) * (a - b);
            l1 += (a - b).abs();
            min_sum += a.abs().min(b.abs());
            max_sum += a.abs().max(b.abs());
        }
        let cos = if nq == 0.0 || nv == 0.0 { 0.0 } else { (dot / (nq.sqrt() * nv.sqrt())).clamp(-1.0, 1.0) };
        let jaccard = if cq == 0 && cv == 0 {
            1.0
        } else if cq == 0 || cv == 0 {
            0.0
        } else {
            inter as f64 / (cq + cv - inter) as f64
        };
        let plain = |s: f64| (s, 1e-4 * s.abs() + 1e-6);
        match self {
            XM::Cosine => plain((cos + 1.0) / 2.0),
            XM::Angular | XM::Geodesic => {
                let a = cos.acos();
                let delta = 3e-7;
                let lo = (cos + delta).min(1.0).acos();
                let hi = (cos - delta).max(-1.0).acos();
                let tol_angle = (a - lo).max(hi - a) + 1e-6;
                (1.0 - a / std::f64::consts::PI, tol_angle / std::f64::consts::PI + 2e-6)
            }
            XM::Jaccard => plain(jaccard),
            XM::Overlap => plain(if cq == 0 || cv == 0 { 0.0 } else { inter as f64 / cq.min(cv) as f64 }),
            XM::WeightedJaccard => plain(if max_sum == 0.0 { 1.0 } else { min_sum / max_sum }),
            XM::Euclidean => plain(1.0 / (1.0 + d2.sqrt())),
            XM::Manhattan => plain(1.0 / (1.0 + l1)),
            XM::Composite(c, s, m) => {
                let (c, s, m) = (*c as f64, *s as f64, *m as f64);
                let total = c + s + m;
                if total == 0.0 {
                    (0.0, 1e-6)
                } else {
                    plain((c * (cos + 1.0) / 2.0 + s * jaccard + m / (1.0 + d2.sqrt())) / total)
                }
            }
        }
    }
}

/// which reference judges a result list
#[derive(Clone, Debug)]
enum Sc {
    Basic(Metric),
    Ext(XM),
}
impl From<Metric> for Sc {
    fn from(m: Metric) -> Sc {
        Sc::Basic(m)
    }
}
impl From<XM> for Sc {
    fn from(m: XM) -> Sc {
        Sc::Ext(m)
    }
}
impl Sc {
    fn name(&self) -> &'static str {
        match self {
            Sc::Basic(m) => m.name(),
            Sc::Ext(x) => x.name(),
        }
    }
    fn score(&self, q: &[f32], v: &[f32]) -> (f64, f64) {
        match self {
            Sc::Basic(m) => ref_score(*m, q, v),
            Sc::Ext(x) => x.score(q, v),
        }
    }
}

fn gen_xm(rng: &mut Rng) -> XM {
    match rng.below(10) {
        0 => XM::Cosine,
        1 => XM::Angular,
        2 => XM::Geodesic,
        3 => XM::Jaccard,
        4 => XM::Overlap,
        5 => XM::WeightedJaccard,
        6 => XM::Euclidean,
        7 | 8 => XM::Manhattan,
        _ => gen_composite(rng),
    }
}

fn gen_composite(rng: &mut Rng) -> XM {
    match rng.below(6) {
        0 => {
            let g = GeometricConfig::default();
            XM::Composite(g.cosine_weight, g.structural_weight, g.magnitude_weight)
        }
        1 => {
            let g = GeometricConfig::angular_heavy();
            XM::Composite(g.cosine_weight, g.structural_weight, g.magnitude_weight)
        }
        2 => {
            let g = GeometricConfig::structural_heavy();
            XM::Composite(g.cosine_weight, g.structural_weight, g.magnitude_weight)
        }
        3 => XM::Composite(0.0, 0.0, 1.0),
        4 => XM::Composite(0.0, 0.0, 0.0),
        _ => {
            let w = [0.0f32, 0.1, 0.25, 0.5, 1.0];
            XM::Composite(*rng.pick(&w), *rng.pick(&w), *rng.pick(&w))
        }
    }
}

// ------------------------------------------------------------------------------------------------
// filters
// ------------------------------------------------------------------------------------------------

#[derive(Clone, Debug)]
enum F {
    True,
    EqI(i64),
    LtI(i64),
    LeI(i64),
    GtI(i64),
    GeI(i64),
    InI(Vec<i64>),
    EqS(String),
    StartsS(String),
    ContainsS(String),
    Exists(String),
    And(Box<F>, Box<F>),
    Or(Box<F>, Box<F>),
}

const TAGS: [&str; 5] = ["red", "green", "blue", "grey", "black"];

impl F {
    fn cond(&self) -> FilterCondition {
        let c = "cat".to_string();
        let t = "tag".to_string();
        match self {
            F::True => FilterCondition::True,
            F::EqI(i) => FilterCondition::Eq(c, FilterValue::Int(*i)),
            F::LtI(i) => FilterCondition::Lt(c, FilterValue::Int(*i)),
            F::LeI(i) => FilterCondition::Le(c, FilterValue::Int(*i)),
            F::GtI(i) => FilterCondition::Gt(c, FilterValue::Int(*i)),
            F::GeI(i) => FilterCondition::Ge(c, FilterValue::Int(*i)),
            F::InI(v) => FilterCondition::In(c, v.iter().map(|i| FilterValue::Int(*i)).collect()),
            F::EqS(s) => FilterCondition::Eq(t, FilterValue::String(s.clone())),
            F::StartsS(s) => FilterCondition::StartsWith(t, s.clone()),
            F::ContainsS(s) => FilterCondition::Contains(t, s.clone()),
            F::Exists(f) => FilterCondition::Exists(f.clone()),
            F::And(a, b) => a.cond().and(b.cond()),
            F::Or(a, b) => a.cond().or(b.cond()),
        }
    }
    /// a vector without the field does not satisfy any comparison on it
    fn eval(&self, m: &Md) -> bool {
        let cat = match m.get("cat") {
            Some(MV::Int(i)) => Some(*i),
            _ => None,
        };
        let tag = match m.get("tag") {
            Some(MV::Str(s)) => Some(s.as_str()),
            _ => None,
        };
        match self {
            F::True => true,
            F::EqI(i) => cat.map_or(false, |c| c == *i),
            F::LtI(i) => cat.map_or(false, |c| c < *i),
            F::LeI(i) => cat.map_or(false, |c| c <= *i),
            F::GtI(i) => cat.map_or(false, |c| c > *i),
            F::GeI(i) => cat.map_or(false, |c| c >= *i),
            F::InI(v) => cat.map_or(false, |c| v.contains(&c)),
            F::EqS(s) => tag.map_or(false, |t| t == s),
            F::StartsS(s) => tag.map_or(false, |t| t.starts_with(s.as_str())),
            F::ContainsS(s) => tag.map_or(false, |t| t.contains(s.as_str())),
            F::Exists(f) => m.contains_key(f),
            F::And(a, b) => a.eval(m) && b.eval(m),
            F::Or(a, b) => a.eval(m) || b.eval(m),
        }
    }
}

fn gen_filter(rng: &mut Rng, depth: u32) -> F {
    let n = if depth == 0 { 13 } else { 11 };
    match rng.below(n) {
        0 => F::True,
        1 => F::EqI(rng.range(0, 5)),
        2 => F::LtI(rng.range(0, 5)),
        3 => F::LeI(rng.range(0, 5)),
        4 => F::GtI(rng.range(0, 5)),
        5 => F::GeI(rng.range(0, 5)),
        6 => {
            let n = 1 + rng.below(3);
            F::InI((0..n).map(|_| rng.range(0, 5)).collect())
        }
        7 => F::EqS(rng.pick(&TAGS).to_string()),
        8 => F::StartsS(rng.pick(&["gr", "b", "re", "x"]).to_string()),
        9 => F::ContainsS(rng.pick(&["e", "l", "ee", "ck", "z"]).to_string()),
        10 => F::Exists(rng.pick(&["cat", "tag", "nope"]).to_string()),
        11 => F::And(Box::new(gen_filter(rng, depth + 1)), Box::new(gen_filter(rng, depth + 1))),
        _ => F::Or(Box::new(gen_filter(rng, depth + 1)), Box::new(gen_filter(rng, depth + 1))),
    }
}

fn gen_meta(rng: &mut Rng) -> Md {
    let mut m = Md::new();
    if rng.chance(9, 10) {
        m.insert("cat".into(), MV::Int(rng.range(0, 5)));
    }
    if rng.chance(8, 10) {
        m.insert("tag".into(), MV::Str(rng.pick(&TAGS).to_string()));
    }
    m
}

fn meta_to_engine(m: &Md) -> HashMap<String, TensorValue> {
    m.iter()
        .map(|(k, v)| {
            (
                k.clone(),
                match v {
                    MV::Int(i) => TensorValue::Scalar(ScalarValue::Int(*i)),
                    MV::Str(s) => TensorValue::Scalar(ScalarValue::String(s.clone())),
                },
            )
        })
        .collect()
}

// ------------------------------------------------------------------------------------------------
// vector / query generation (no NaN / inf; every non-zero vector has a component of normal size so
// that its f32 norm neither underflows nor overflows)
// ------------------------------------------------------------------------------------------------

const TINY: [f32; 7] = [1e-7, -1e-7, 5e-7, 1e-30, -1e-30, 1e-40, -0.0];

fn ensure_normal(v: &mut [f32], scale: f32, rng: &mut Rng) {
    if !v.iter().any(|x| x.abs() >= 1e-3 * scale) {
        let i = rng.below(v.len());
        v[i] = if rng.bool() { scale } else { -scale };
    }
}

fn gen_vec(rng: &mut Rng, dim: usize, pool: &[Vec<f32>]) -> (Vec<f32>, &'static str) {
    let scale: f32 = match rng.below(10) {
        0 => 0.01,
        1 => 100.0,
        _ => 1.0,
    };
    let kind = rng.weighted(&[28, 30, 4, 8, 5, 5, 15, 5]);
    match kind {
        0 => {
            let mut v: Vec<f32> = (0..dim).map(|_| (rng.f64_in(-1.0, 1.0) as f32) * scale).collect();
            ensure_normal(&mut v, scale, rng);
            (v, "dense")
        }
        1 => {
            let z = rng.f64_in(0.5, 0.97);
            let nnz = (((dim as f64) * (1.0 - z)).round() as usize).clamp(1, dim);
            let mut v = vec![0f32; dim];
            for _ in 0..nnz {
                let i = rng.below(dim);
                v[i] = (rng.f64_in(-1.0, 1.0) as f32) * scale;
            }
            ensure_normal(&mut v, scale, rng);
            (v, "sparse")
        }
        2 => {
            let mut v = vec![0f32; dim];
            if rng.bool() {
                let i = rng.below(dim);
                v[i] = -0.0;
            }
            (v, "zero")
        }
        3 if !pool.is_empty() => (rng.pick(pool).clone(), "dup"),
        4 if !pool.is_empty() => {
            let c = *rng.pick(&[2.0f32, 0.5, 3.0, 4.0]);
            (rng.pick(pool).iter().map(|x| x * c).collect(), "scaled-dup")
        }
        5 => {
            let mut v = vec![0f32; dim];
            let i = rng.below(dim);
            v[i] = if rng.bool() { scale } else { -scale };
            (v, "onehot")
        }
        6 | 3 | 4 => {
            let v: Vec<f32> = (0..dim).map(|_| rng.range(-2, 2) as f32).collect();
            (v, "smallint")
        }
        _ => {
            let mut v: Vec<f32> = (0..dim).map(|_| (rng.f64_in(-1.0, 1.0) as f32) * scale).collect();
            let n = 1 + rng.below(dim.min(6));
            for _ in 0..n {
                let i = rng.below(dim);
                v[i] = *rng.pick(&TINY);
            }
            ensure_normal(&mut v, scale, rng);
            (v, "tiny-sprinkled")
        }
    }
}

fn gen_query(rng: &mut Rng, dim: usize, pool: &[Vec<f32>]) -> Vec<f32> {
    let kind = rng.weighted(&[40, 20, 15, 15, 10]);
    let mut q: Vec<f32> = match kind {
        0 => (0..dim).map(|_| rng.f64_in(-1.0, 1.0) as f32).collect(),
        1 => {
            let mut v = vec![0f32; dim];
            let nnz = 1 + rng.below((dim / 3).max(1));
            for _ in 0..nnz {
                let i = rng.below(dim);
                v[i] = rng.f64_in(-1.0, 1.0) as f32;
            }
            v
        }
        2 if !pool.is_empty() => rng.pick(pool).clone(),
        3 | 2 => (0..dim).map(|_| rng.range(-2, 2) as f32).collect(),
        _ => {
            let mut v = vec![0f32; dim];
            let i = rng.below(dim);
            v[i] = 1.0;
            v
        }
    };
    // a query must be non-zero (statement) with a norm representable in f32
    let scale = q.iter().fold(0f32, |m, x| m.max(x.abs()));
    if scale < 1e-3 {
        let i = rng.below(dim);
        q[i] = 1.0;
    }
    q
}

// ------------------------------------------------------------------------------------------------
// judging
// ------------------------------------------------------------------------------------------------

struct Bad {
    what: String,
    detail: String,
}

fn fmt_res(res: &[SearchResult]) -> String {
    let v: Vec<String> = res.iter().take(12).map(|r| format!("{}:{:.6}", r.key, r.score)).collect();
    format!("[{}{}]", v.join(", "), if res.len() > 12 { ", …" } else { "" })
}

/// what is wrong with a returned key that is not an eligible candidate
fn classify_key(space: &Space, key: &str, qdim: usize, filter: Option<&F>) -> &'static str {
    // a stored key that itself starts with the collection's storage prefix, reported with that
    // prefix removed (the cached-index path strips the prefix from already stripped keys)
    if space.data.contains_key(&format!("{}{}", space.prefix, key)) {
        return "key-prefix-stripped-twice";
    }
    if let Some(e) = space.data.get(key) {
        if e.v.len() != qdim {
            return "other-dimension-returned";
        }
        if let Some(f) = filter {
            if !f.eval(&e.meta) {
                return "filter-mismatch";
            }
        }
        return "ineligible-key";
    }
    if space.deleted.contains(key) {
        return "deleted-key-returned";
    }
    "unknown-key-returned"
}

/// checks shared by both modes: keys eligible, no duplicates, true score of the current vector,
/// at most k, engine's scores non-increasing. Returns the true scores (and tolerances) of the result.
fn judge_common(
    res: &[SearchResult],
    space: &Space,
    q: &[f32],
    k: usize,
    metric: impl Into<Sc>,
    filter: Option<&F>,
) -> Result<Vec<(f64, f64)>, Bad> {
    let metric: Sc = metric.into();
    if res.len() > k {
        return Err(Bad { what: "more-than-k".into(), detail: format!("{} results for k={}", res.len(), k) });
    }
    let mut seen = BTreeSet::new();
    let mut trues = Vec::with_capacity(res.len());
    for r in res {
        if !seen.insert(r.key.as_str()) {
            let what = if space.data.contains_key(&format!("{}{}", space.prefix, r.key)) { "key-prefix-stripped-twice" } else { "duplicate-key" };
            return Err(Bad { what: what.into(), detail: format!("key {:?} returned twice in {}", r.key, fmt_res(res)) });
        }
        let eligible = space.data.get(&r.key).filter(|e| e.v.len() == q.len() && filter.map_or(true, |f| f.eval(&e.meta)));
        let Some(e) = eligible else {
            let what = classify_key(space, &r.key, q.len(), filter);
            return Err(Bad {
                what: what.into(),
                detail: format!("returned key {:?} (score {}) is not a stored vector of dimension {}{} — {}", r.key, r.score, q.len(), if filter.is_some() { " matching the filter" } else { "" }, fmt_res(res)),
            });
        };
        let (s, tol) = metric.score(q, &e.v);
        let got = r.score as f64;
        if !(got.is_finite()) || (got - s).abs() > tol {
            // does it match a vector this key held earlier?
            let mut what = "wrong-score";
            if let Some(e2) = space.data.get(&format!("{}{}", space.prefix, r.key)) {
                if e2.v.len() == q.len() {
                    let (s2, t2) = metric.score(q, &e2.v);
                    if (got - s2).abs() <= t2 {
                        what = "key-prefix-stripped-twice";
                    }
                }
            }
            if let Some(olds) = space.old.get(&r.key).filter(|_| what == "wrong-score") {
                for o in olds {
                    if o.len() == q.len() {
                        let (so, to) = metric.score(q, o);
                        if (got - so).abs() <= to {
                            what = "overwritten-vector-score";
                        }
                    }
                }
            }
            return Err(Bad {
                what: what.into(),
                detail: format!("key {:?}: reported {} but the {} score of the stored vector is {:.9} (tolerance {:.2e}); stored={:?} query={:?}", r.key, r.score, metric.name(), s, tol, short(&e.v), short(q)),
            });
        }
        trues.push((s, tol));
    }
    for w in res.windows(2) {
        if !(w[0].score >= w[1].score) {
            return Err(Bad { what: "unordered".into(), detail: format!("reported scores not best-first: {}", fmt_res(res)) });
        }
    }
    for i in 1..trues.len() {
        if trues[i - 1].0 < trues[i].0 - (trues[i - 1].1 + trues[i].1) {
            return Err(Bad { what: "unordered".into(), detail: format!("true scores not best-first at position {}: {}", i, fmt_res(res)) });
        }
    }
    Ok(trues)
}

struct ExactInfo {
    eligible: usize,
    boundary_tie: bool,
}

/// exhaustive-mode oracle
fn judge_exact(res: &[SearchResult], space: &Space, q: &[f32], k: usize, metric: Metric, filter: Option<&F>) -> Result<ExactInfo, Bad> {
    let trues = judge_common(res, space, q, k, metric, filter)?;
    let elig: Vec<(&String, &Entry)> = space.data.iter().filter(|(_, e)| e.v.len() == q.len() && filter.map_or(true, |f| f.eval(&e.meta))).collect();
    let want = k.min(elig.len());
    if res.len() < want {
        return Err(Bad {
            what: "too-few-results".into(),
            detail: format!("{} results, but {} stored vectors of dimension {} are eligible and k={}: {}", res.len(), elig.len(), q.len(), k, fmt_res(res)),
        });
    }
    let mut boundary_tie = false;
    if !res.is_empty() {
        let (mut min_s, mut min_tol) = (f64::INFINITY, 0.0);
        for (s, t) in &trues {
            if *s < min_s {
                min_s = *s;
                min_tol = *t;
            }
        }
        let returned: BTreeSet<&str> = res.iter().map(|r| r.key.as_str()).collect();
        for (key, e) in &elig {
            if returned.contains(key.as_str()) {
                continue;
            }
            let (s, t) = ref_score(metric, q, &e.v);
            if s > min_s + t + min_tol {
                return Err(Bad {
                    what: "missed-better-vector".into(),
                    detail: format!("stored key {:?} has {} score {:.9}, better than the worst returned {:.9}, but is absent from {}", key, metric.name(), s, min_s, fmt_res(res)),
                });
            }
            if (s - min_s).abs() <= t + min_tol {
                boundary_tie = true;
            }
        }
    }
    Ok(ExactInfo { eligible: elig.len(), boundary_tie })
}

fn short(v: &[f32]) -> Vec<f32> {
    v.iter().take(10).copied().collect()
}

// ------------------------------------------------------------------------------------------------
// one program
// ------------------------------------------------------------------------------------------------

static SIG_FILTER: std::sync::OnceLock<String> = std::sync::OnceLock::new();

/// child-process mode (part `bigk`): the file that names the search call in progress
static PROGRESS: std::sync::OnceLock<std::path::PathBuf> = std::sync::OnceLock::new();

fn progress(state: &str, case_seed: u64, api: &str, k: usize) {
    if let Some(p) = PROGRESS.get() {
        let _ = std::fs::write(p, format!("{}\t{}\t{}\t{}", state, case_seed, api, k));
    }
}

/// k (or ef) far above anything that is stored
const HUGE: usize = 1 << 31;

const HOSTILE_KEYS: [&str; 6] = ["emb:k0", "emb:k1", "", "a:b", "ключ", "coll:c0:emb:k0"];

struct Ctx<'a> {
    r: &'a mut Report,
    case_seed: u64,
    part: &'static str,
    trace: Vec<String>,
    verbose: bool,
    step: u64,
}
impl<'a> Ctx<'a> {
    fn log(&mut self, s: String) {
        if self.verbose {
            eprintln!("  [{}] {}", self.step, s);
        }
        self.trace.push(s);
    }
    fn violation(&mut self, sig: String, detail: String) {
        let tail: Vec<&String> = self.trace.iter().rev().take(14).collect::<Vec<_>>().into_iter().rev().collect();
        let d = format!("{} || last operations: {:?}", detail, tail);
        if self.verbose {
            eprintln!("  VIOLATION {} — {}", sig, detail);
        }
        self.r.count(&format!("violation[{}]", sig), 1);
        if let Some(f) = SIG_FILTER.get() {
            // development aid (--sig-filter): keep only witnesses of matching signatures
            if !sig.contains(f.as_str()) {
                return;
            }
        }
        self.r.violation(sig, d, json!({"part": self.part, "case_seed": self.case_seed}));
    }
    fn eval(&mut self, nontrivial: bool) {
        let h = hash_combine(self.case_seed, self.step);
        self.r.eval(h, nontrivial);
    }
}

/// Runs a search, judges it in the mode the model's cache state allows and, for failures in the
/// stale state, diagnoses them against the real code (invalidate + same search again).
#[allow(clippy::too_many_arguments)]
fn judged_search(
    cx: &mut Ctx,
    engine: &VectorEngine,
    api: &'static str,
    slot_kind: &'static str,
    cache_slot: &str,
    space: &mut Space,
    uses_cache: bool,
    q: &[f32],
    k: usize,
    metric: Metric,
    filter: Option<&F>,
    post_filter: bool,
    run: &dyn Fn() -> vector_engine::Result<Vec<SearchResult>>,
) {
    cx.r.count(&format!("search:{}", api), 1);
    let n_same_dim = space.data.values().filter(|e| e.v.len() == q.len()).count();
    if !space.deleted.is_empty() {
        cx.r.count("searches_with_deleted_keys_in_history", 1);
    }
    if !space.old.is_empty() {
        cx.r.count("searches_with_overwritten_vectors_in_history", 1);
    }
    if space.dims().len() > 1 {
        cx.r.count("searches_over_mixed_dimensions", 1);
    }
    let fresh = uses_cache && space.cache == Cache::Fresh;
    let stored_dims = space.dims();
    if k >= HUGE {
        cx.r.count(if fresh { "huge-k:cached-mode" } else { "huge-k:exhaustive-mode" }, 1);
    }
    let case_seed = cx.case_seed;
    let attempt = |cx: &mut Ctx, space: &Space, first: bool| -> Result<Vec<SearchResult>, Bad> {
        progress("calling", case_seed, api, k);
        let out = catch_unwind(AssertUnwindSafe(run));
        progress("returned", case_seed, api, k);
        match out {
            Err(p) => {
                let msg = panic_msg(&p);
                let what = if !stored_dims.contains(&q.len()) { "panic-on-query-of-other-dimension" } else { "panic" };
                Err(Bad { what: what.into(), detail: format!("{} panicked: {} (query dimension {}, stored dimensions {:?}, k={})", api, first_line(&msg), q.len(), stored_dims, k) })
            }
            Ok(Err(e)) => Err(Bad { what: format!("error-{}", first_line(&format!("{:?}", e)).split(|c: char| !c.is_alphanumeric()).next().unwrap_or("")), detail: format!("{} failed on a valid query: {}", api, e) }),
            Ok(Ok(r)) => {
                cx.log(format!("{}{} k={} metric={} dim={} filter={:?} cache={:?} -> {}", if first { "" } else { "(again) " }, api, k, metric.name(), q.len(), filter, space.cache, fmt_res(&r)));
                Ok(r)
            }
        }
    };
    let out = attempt(cx, space, true);
    cx.eval(n_same_dim >= 2);
    if fresh {
        cx.r.count("judged:cached-mode", 1);
        let verdict = out.and_then(|res| {
            cx.r.count("cached-mode:results", res.len() as u64);
            judge_common(&res, space, q, k, metric, filter).map(|_| ())
        });
        if let Err(b) = verdict {
            // the filtered wrappers only filter the answer of the underlying cached search
            let sig_api = if b.what == "filter-mismatch" { api } else if slot_kind == "default" { "search_similar" } else { "search_in_collection" };
            cx.violation(format!("cached:{}:{}", sig_api, b.what), format!("{}: index cached and data unchanged since; {}", api, b.detail));
        }
        return;
    }
    cx.r.count("judged:exhaustive-mode", 1);
    let verdict = |out: Result<Vec<SearchResult>, Bad>, space: &Space| -> Result<(Vec<SearchResult>, ExactInfo), (Option<Vec<SearchResult>>, Bad)> {
        match out {
            Err(b) => Err((None, b)),
            Ok(res) => match judge_exact(&res, space, q, k, metric, filter) {
                Ok(i) => Ok((res, i)),
                Err(b) => Err((Some(res), b)),
            },
        }
    };
    let (mut res_opt, mut b) = match verdict(out, space) {
        Ok((res, info)) => {
            if info.boundary_tie {
                cx.r.count("exhaustive:boundary-ties", 1);
            }
            if info.eligible > k {
                cx.r.count("exhaustive:truncating", 1);
            }
            cx.r.count("exhaustive:results", res.len() as u64);
            return;
        }
        Err(x) => x,
    };
    // post-filter oversampling: an exact but short answer (the true top-|answer| of the matching
    // vectors, fewer than k although more match). Decided before the stale-index diagnosis because
    // which candidates survive depends on the order of exactly tied scores, which differs run to run.
    if post_filter && b.what == "too-few-results" {
        if let Some(res) = &res_opt {
            if res.is_empty() || judge_exact(res, space, q, res.len(), metric, filter).is_ok() {
                let base = api.split('[').next().unwrap_or(api);
                cx.violation(format!("exact:{}:post-filter-returns-fewer-than-k-matching", base), format!("{}: {}", api, b.detail));
                return;
            }
        }
    }
    // stale index? ask the real code: drop the cached index and search again
    if uses_cache {
        if let Cache::Stale(op) = space.cache.clone() {
            engine.invalidate_hnsw_cache(cache_slot);
            space.cache = Cache::Absent;
            let again = attempt(cx, space, false);
            let again_txt = match &again {
                Ok(r) => fmt_res(r),
                Err(b2) => b2.what.clone(),
            };
            let v2 = verdict(again, space);
            let cured = match &v2 {
                Ok(_) => true,
                Err((_, b2)) => b2.what != b.what,
            };
            if cured {
                cx.violation(
                    format!("stale-index:{}:after:{}", slot_kind, op),
                    format!("{} consulted an index cached before {} changed the data ({}: {}); after invalidate_hnsw_cache the same search gives {}", api, op, b.what, b.detail, again_txt),
                );
            }
            match v2 {
                Ok(_) => return,
                Err((r2, b2)) => {
                    res_opt = r2;
                    b = b2;
                }
            }
        }
    }
    if post_filter && b.what == "too-few-results" {
        // (the answer after the invalidation)
        if let Some(res) = &res_opt {
            if res.is_empty() || judge_exact(res, space, q, res.len(), metric, filter).is_ok() {
                let base = api.split('[').next().unwrap_or(api);
                cx.violation(format!("exact:{}:post-filter-returns-fewer-than-k-matching", base), format!("{}: {}", api, b.detail));
                return;
            }
        }
    }
    if let Some(res) = &res_opt {
        // pre-filter path scoring with cosine although the collection's metric is another one
        if metric != Metric::Cos && filter.is_some() && judge_exact(res, space, q, k, Metric::Cos, filter).is_ok() {
            cx.violation(
                format!("exact:{}:scored-with-cosine-instead-of-collection-metric", api),
                format!("collection metric is {} but the answer is the exact cosine ranking with cosine scores ({}: {})", metric.name(), b.what, b.detail),
            );
            return;
        }
    }
    cx.violation(format!("exact:{}:{}", api, b.what), b.detail);
}

/// One `search_with_hnsw_and_metric` call on an index that was built just before (the data cannot
/// have changed): every returned key is stored, reported with the documented similarity of the
/// chosen metric for the current vector, no duplicates, best first, at most k.
fn judged_rerank(cx: &mut Ctx, engine: &VectorEngine, index: &HNSWIndex, mapping: &[String], space: &Space, q: &[f32], k: usize, xm: &XM) {
    let api = "search_with_hnsw_and_metric";
    cx.r.count(&format!("search:{}", api), 1);
    let n_same = space.data.values().filter(|e| e.v.len() == q.len()).count();
    let em = xm.engine();
    if k >= HUGE {
        cx.r.count("huge-k:search_with_hnsw_and_metric", 1);
    }
    progress("calling", cx.case_seed, api, k);
    let out = catch_unwind(AssertUnwindSafe(|| engine.search_with_hnsw_and_metric(index, mapping, q, k, &em)));
    progress("returned", cx.case_seed, api, k);
    cx.eval(n_same >= 2);
    match out {
        Err(p) => cx.violation(format!("rerank:{}:{}:panic", api, xm.name()), format!("{} panicked: {} (metric {:?}, query {:?})", api, first_line(&panic_msg(&p)), xm, short(q))),
        Ok(Err(e)) => cx.violation(format!("rerank:{}:{}:error", api, xm.name()), format!("{} failed on a valid query: {}", api, e)),
        Ok(Ok(res)) => {
            cx.log(format!("{}[{:?}] k={} over {} nodes query={:?} -> {}", api, xm, k, mapping.len(), short(q), fmt_res(&res)));
            cx.r.count("judged:rerank", 1);
            cx.r.count(&format!("rerank:{}", xm.name()), 1);
            cx.r.count("rerank:results", res.len() as u64);
            // shapes observed among the judged results: one vector has components (negative ones in
            // particular) beyond the other's last / before the other's first non-zero
            let last_nz = |v: &[f32]| v.iter().rposition(|x| *x != 0.0);
            let first_nz = |v: &[f32]| v.iter().position(|x| *x != 0.0);
            let neg_after = |v: &[f32], i: Option<usize>| v.iter().enumerate().any(|(j, x)| *x < 0.0 && i.map_or(true, |i| j > i));
            let neg_before = |v: &[f32], i: Option<usize>| v.iter().enumerate().any(|(j, x)| *x < 0.0 && i.map_or(true, |i| j < i));
            for r in &res {
                if let Some(e) = space.data.get(&r.key) {
                    if e.v.len() != q.len() {
                        continue;
                    }
                    if neg_after(q, last_nz(&e.v)) {
                        cx.r.count("rerank:shape:query-negative-after-stored-last-nonzero", 1);
                    }
                    if neg_after(&e.v, last_nz(q)) {
                        cx.r.count("rerank:shape:stored-negative-after-query-last-nonzero", 1);
                    }
                    if neg_before(q, first_nz(&e.v)) {
                        cx.r.count("rerank:shape:query-negative-before-stored-first-nonzero", 1);
                    }
                    if neg_before(&e.v, first_nz(q)) {
                        cx.r.count("rerank:shape:stored-negative-before-query-first-nonzero", 1);
                    }
                    if last_nz(&e.v).is_none() {
                        cx.r.count("rerank:shape:stored-zero-vector", 1);
                    }
                }
            }
            if let Err(b) = judge_common(&res, space, q, k, xm.clone(), None) {
                cx.violation(format!("rerank:{}:{}:{}", api, xm.name(), b.what), format!("index just built, re-rank metric {:?}; {}", xm, b.detail));
            }
        }
    }
}

/// A query whose dimension no indexed / stored vector has (shorter, longer, or empty): no score is
/// defined, so the search must not panic and must not return any key — an empty answer (what the
/// exhaustive search gives) or a DimensionMismatch / EmptyVector error.
fn judged_offdim(cx: &mut Ctx, api: &'static str, shape: &'static str, n_indexed: usize, q: &[f32], run: &dyn Fn() -> vector_engine::Result<Vec<SearchResult>>) {
    cx.r.count(&format!("offdim:{}", api), 1);
    cx.r.count(&format!("offdim:{}", shape), 1);
    cx.eval(n_indexed >= 2);
    match catch_unwind(AssertUnwindSafe(run)) {
        Err(p) => {
            let msg = panic_msg(&p);
            cx.log(format!("{} with a {} query (dimension {}) -> PANIC {}", api, shape, q.len(), first_line(&msg)));
            cx.violation(
                format!("cached:{}:panic-on-query-of-other-dimension", api),
                format!("{} panicked on a {} query: {} (query dimension {}, {} indexed vectors)", api, shape, msg.lines().next().unwrap_or(""), q.len(), n_indexed),
            );
        }
        Ok(Err(e)) => {
            cx.log(format!("{} with a {} query (dimension {}) -> Err({})", api, shape, q.len(), e));
            match e {
                vector_engine::VectorError::DimensionMismatch { .. } | vector_engine::VectorError::EmptyVector => cx.r.count("offdim:answered-with-error", 1),
                other => cx.violation(format!("cached:{}:unexpected-error-on-query-of-other-dimension", api), format!("{} on a {} query of dimension {}: {}", api, shape, q.len(), other)),
            }
        }
        Ok(Ok(res)) => {
            cx.log(format!("{} with a {} query (dimension {}) -> {}", api, shape, q.len(), fmt_res(&res)));
            if res.is_empty() {
                cx.r.count("offdim:answered-empty", 1);
            } else {
                cx.violation(
                    format!("cached:{}:other-dimension-returned", api),
                    format!("{} on a {} query of dimension {} returned keys although no indexed vector has that dimension: {}", api, shape, q.len(), fmt_res(&res)),
                );
            }
        }
    }
}

/// shorter / longer / empty query for vectors of dimension `dim`
fn gen_offdim_query(rng: &mut Rng, dim: usize) -> (Vec<f32>, &'static str) {
    match rng.below(7) {
        0 => (Vec::new(), "empty"),
        1 | 2 | 3 if dim > 1 => {
            let d = 1 + rng.below(dim - 1);
            (gen_query(rng, d, &[]), "shorter")
        }
        _ => {
            let d = dim + 1 + rng.below(9);
            (gen_query(rng, d, &[]), "longer")
        }
    }
}

/// the explicit-index APIs with queries of another dimension
fn offdim_on_explicit_index(cx: &mut Ctx, rng: &mut Rng, engine: &VectorEngine, index: &HNSWIndex, mapping: &[String], dim: usize, rounds: usize) {
    for _ in 0..rounds {
        let (q, shape) = gen_offdim_query(rng, dim);
        let k = 1 + rng.below(12);
        judged_offdim(cx, "search_with_hnsw", shape, mapping.len(), &q, &|| engine.search_with_hnsw(index, mapping, &q, k));
        let xm = gen_xm(rng);
        let em = xm.engine();
        judged_offdim(cx, "search_with_hnsw_and_metric", shape, mapping.len(), &q, &|| engine.search_with_hnsw_and_metric(index, mapping, &q, k, &em));
    }
}

fn check_readback(cx: &mut Ctx, api: &'static str, key: &str, got: vector_engine::Result<Vec<f32>>, want: &[f32]) {
    cx.r.count(&format!("readback:{}", api), 1);
    match got {
        Err(e) => cx.violation(format!("readback:{}:not-found", api), format!("stored key {:?} reads back as error {}", key, e)),
        Ok(v) => {
            if v.len() != want.len() {
                cx.violation(format!("readback:{}:length-differs", api), format!("key {:?}: stored {} components, read {}", key, want.len(), v.len()));
            } else if let Some(i) = (0..v.len()).find(|&i| v[i] != want[i]) {
                cx.violation(
                    format!("readback:{}:value-differs", api),
                    format!("key {:?}: component {} stored {:e} read {:e}", key, i, want[i], v[i]),
                );
            }
        }
    }
}

fn observe_repr(cx: &mut Ctx, engine: &VectorEngine, storage_key: &str) {
    if let Ok(t) = engine.store().get(storage_key) {
        match t.get("vector") {
            Some(TensorValue::Sparse(_)) => cx.r.count("repr:sparse", 1),
            Some(TensorValue::Vector(_)) => cx.r.count("repr:dense", 1),
            _ => cx.r.count("repr:other", 1),
        }
    }
}

fn meta_from_engine(m: &HashMap<String, TensorValue>) -> Md {
    let mut out = Md::new();
    for (k, v) in m {
        match v {
            TensorValue::Scalar(ScalarValue::Int(i)) => {
                out.insert(k.clone(), MV::Int(*i));
            }
            TensorValue::Scalar(ScalarValue::String(s)) => {
                out.insert(k.clone(), MV::Str(s.clone()));
            }
            _ => {}
        }
    }
    out
}

/// An operation that names `attempted` (key, vector it was writing) returned an error. Nothing in
/// the statement makes a failing operation atomic, so the model follows the engine: every named key
/// is read back and must hold the vector it held before (or still be absent) or the vector the
/// operation was writing. A key whose vector changed is a data change under the label `api` (an
/// index cached before it may not be consulted any more). Returns the number of changed keys.
fn resync_after_error(cx: &mut Ctx, engine: &VectorEngine, coll: Option<&str>, space: &mut Space, api: &'static str, attempted: &[(String, Vec<f32>)]) -> usize {
    let mut changed = 0;
    cx.r.count("failed-op:resyncs", 1);
    for (key, v) in attempted {
        let got = match coll {
            None => engine.get_embedding(key),
            Some(c) => engine.get_from_collection(c, key),
        };
        cx.r.count("failed-op:keys_read_back", 1);
        match got {
            Ok(g) => {
                let meta = match coll {
                    None => engine.get_metadata(key),
                    Some(c) => engine.get_collection_metadata(c, key),
                }
                .map(|m| meta_from_engine(&m))
                .unwrap_or_default();
                let as_before = space.data.get(key).map_or(false, |e| vec_value_eq(&e.v, &g));
                if as_before {
                    // untouched, or rewritten with an equal vector: the vectors did not change
                    if let Some(e) = space.data.get_mut(key) {
                        e.meta = meta;
                    }
                    continue;
                }
                if !vec_value_eq(&g, v) {
                    cx.violation(
                        format!("readback:{}:value-never-written", api),
                        format!("after the failed {} key {:?} holds {:?}, which is neither what it held before ({:?}) nor what the operation was writing ({:?})", api, key, short(&g), space.data.get(key).map(|e| short(&e.v)), short(v)),
                    );
                }
                cx.log(format!("  {}: key {:?} now holds the vector the failed operation was writing (dim {})", api, key, g.len()));
                space.put(key, g, meta, api);
                changed += 1;
            }
            Err(_) => {
                if space.data.contains_key(key) {
                    cx.violation(format!("readback:{}:stored-vector-lost", api), format!("key {:?} was stored before the failed {} and cannot be read any more", key, api));
                    space.del(key, api);
                    changed += 1;
                }
            }
        }
    }
    if changed > 0 {
        cx.r.count("failed-op:with_partial_effect", 1);
        cx.r.count("failed-op:keys_changed", changed as u64);
    }
    changed
}

fn hnsw_cfg(rng: &mut Rng, metric: Metric) -> HNSWConfig {
    let mut c = match rng.below(4) {
        0 => HNSWConfig::default(),
        1 => HNSWConfig::high_speed(),
        2 => HNSWConfig::high_recall(),
        _ => {
            let mut c = HNSWConfig::default();
            c.m = 2;
            c.m0 = 4;
            c.ef_construction = 8;
            c.ef_search = 4;
            c.ml = 1.0 / 2.0f64.ln();
            c
        }
    };
    c.distance_metric = metric.hnsw();
    c
}

fn pool_of(space: &Space, dim: usize) -> Vec<Vec<f32>> {
    space.data.values().filter(|e| e.v.len() == dim).take(24).map(|e| e.v.clone()).collect()
}

fn run_program(case_seed: u64, r: &mut Report, verbose: bool, scratch_base: &std::path::Path) {
    let mut rng = Rng::new(case_seed);
    let mut cx = Ctx { r, case_seed, part: "program", trace: Vec::new(), verbose, step: 0 };

    // ---- case parameters
    let big = rng.chance(1, 40);
    let main_dim: usize = if big { *rng.pick(&[384usize, 768]) } else { *rng.pick(&[1usize, 2, 3, 4, 5, 7, 8, 9, 15, 16, 17, 24, 32, 33, 64]) };
    let alt_dim: usize = loop {
        let d = *rng.pick(&[1usize, 2, 3, 4, 6, 8, 12, 16, 20, 40]);
        if d != main_dim {
            break d;
        }
    };
    // probability (in 1/100) that a stored vector uses the alternative dimension
    let mixed_pct: u32 = *rng.pick(&[0u32, 0, 0, 5, 15, 40]);
    let n_keys = 3 + rng.below(if big { 12 } else { 45 });
    let hostile = rng.chance(1, 8);
    let n_ops = if big { 20 + rng.below(25) } else { 30 + rng.below(110) };
    let cfg = {
        let mut c = VectorEngineConfig::default();
        c.sparse_threshold = *rng.pick(&[0.5f32, 0.5, 0.5, 0.0, 0.3, 0.9, 1.0]);
        c.parallel_threshold = *rng.pick(&[5000usize, 5000, 4, 16]);
        c.batch_parallel_threshold = *rng.pick(&[100usize, 100, 2, 5]);
        // a third of the programs run under a dimension limit that every regular vector and query
        // respects; stores of longer vectors are then refused (possibly in the middle of a batch)
        if rng.chance(1, 3) {
            c.max_dimension = Some(main_dim.max(alt_dim) + rng.below(3));
        }
        c
    };
    let max_dim = cfg.max_dimension;
    cx.log(format!(
        "case: main_dim={} alt_dim={} mixed={}% keys={} hostile_keys={} ops={} sparse_threshold={} parallel_threshold={} batch_parallel_threshold={} max_dimension={:?}",
        main_dim, alt_dim, mixed_pct, n_keys, hostile, n_ops, cfg.sparse_threshold, cfg.parallel_threshold, cfg.batch_parallel_threshold, max_dim
    ));
    let engine = match VectorEngine::with_config(cfg) {
        Ok(e) => e,
        Err(e) => {
            cx.r.inconclusive(&format!("engine construction failed: {}", e));
            return;
        }
    };
    let mut def = Space::new("emb:");
    let coll_names = ["c0", "c1", "c2"];
    let mut colls: BTreeMap<&'static str, Named> = BTreeMap::new();
    for n in coll_names {
        colls.insert(n, Named { space: Space::new(&format!("coll:{}:emb:", n)), created: false, dim: None, metric: Metric::Cos });
    }
    let mut scratch: Option<Scratch> = None;
    // saved index files: (path, binary?, collection name or "default", snapshot of entries, config at save time)
    struct Saved {
        path: std::path::PathBuf,
        binary: bool,
        coll: Option<&'static str>,
        entries: BTreeMap<String, Entry>,
        dim: Option<usize>,
        metric: Metric,
    }
    let mut saved: Vec<Saved> = Vec::new();

    let pick_key = |rng: &mut Rng| -> String {
        if hostile && rng.chance(1, 3) {
            rng.pick(&HOSTILE_KEYS).to_string()
        } else {
            format!("k{}", rng.below(n_keys))
        }
    };
    let pick_dim = |rng: &mut Rng| -> usize {
        if rng.chance(mixed_pct, 100) {
            alt_dim
        } else {
            main_dim
        }
    };
    let pick_qdim = |rng: &mut Rng, space: &Space| -> usize {
        // mostly a dimension that is stored; sometimes the other one (nothing of that dimension may
        // be stored: the exact answer is then empty)
        let dims: Vec<usize> = space.dims().into_iter().collect();
        if !dims.is_empty() && rng.chance(88, 100) {
            *rng.pick(&dims)
        } else if rng.bool() {
            main_dim
        } else {
            alt_dim
        }
    };
    let pick_k = |rng: &mut Rng, n: usize| -> usize {
        match rng.below(10) {
            0 => 1,
            1 => 1000,
            2 => n.max(1),
            3 => n + 1,
            _ => 1 + rng.below(20),
        }
    };

    for step in 0..n_ops as u64 {
        cx.step = step;
        let op = rng.weighted(&[
            22, // 0 store_embedding
            9,  // 1 store_embedding_with_metadata
            5,  // 2 batch_store_embeddings
            6,  // 3 delete_embedding
            5,  // 4 batch_delete_embeddings
            1,  // 5 clear
            3,  // 6 update_metadata / remove_metadata_field
            9,  // 7 build_and_cache_index
            16, // 8 search_similar
            10, // 9 search_similar_with_metric
            10, // 10 search_similar_filtered
            4,  // 11 build_hnsw_index(_with_options) + search_with_hnsw
            8,  // 12 get_embedding
            2,  // 13 save_index / load_index
            2,  // 14 create_collection
            10, // 15 store_in_collection(_with_metadata)
            3,  // 16 delete_from_collection
            1,  // 17 delete_collection
            4,  // 18 cache an index for a collection
            9,  // 19 search_in_collection
            6,  // 20 search_filtered_in_collection
            3,  // 21 get_from_collection
            2,  // 22 empty query on the searches that may consult a cached index
        ]);
        match op {
            0 | 1 => {
                let key = pick_key(&mut rng);
                let mut dim = pick_dim(&mut rng);
                let mut oversize = false;
                if let Some(md) = max_dim {
                    if rng.chance(1, 15) {
                        dim = md + 1 + rng.below(4);
                        oversize = true;
                    }
                }
                let (v, kind) = if rng.chance(1, 60) { (Vec::new(), "empty") } else { gen_vec(&mut rng, dim, &pool_of(&def, dim)) };
                let kind = if oversize && !v.is_empty() { "longer-than-max_dimension" } else { kind };
                let with_meta = op == 1;
                let meta = if with_meta { gen_meta(&mut rng) } else { Md::new() };
                let api: &'static str = if with_meta { "store_embedding_with_metadata" } else { "store_embedding" };
                let res = if with_meta { engine.store_embedding_with_metadata(&key, v.clone(), meta_to_engine(&meta)) } else { engine.store_embedding(&key, v.clone()) };
                cx.log(format!("{}({:?}, {} dim {}) -> {:?}", api, key, kind, v.len(), res.as_ref().err()));
                cx.r.count(&format!("op:{}", api), 1);
                match res {
                    Ok(()) => {
                        if v.is_empty() {
                            cx.violation(format!("store:{}:accepted-empty-vector", api), "empty vector stored".into());
                        } else if oversize {
                            // not this property's business; the queries below assume the limit holds
                            cx.r.inconclusive("a vector longer than max_dimension was accepted");
                            return;
                        } else {
                            cx.r.count(&format!("stored-kind:{}", kind), 1);
                            def.put(&key, v, meta, api);
                            observe_repr(&mut cx, &engine, &format!("emb:{}", key));
                        }
                    }
                    Err(_) => {
                        if !v.is_empty() && !oversize {
                            cx.r.count("store_errors_on_valid_vector", 1);
                        }
                        // refused: whatever the engine holds for the key now is the data
                        let failed: &'static str = if with_meta { "store_embedding_with_metadata[failed]" } else { "store_embedding[failed]" };
                        cx.r.count(&format!("op:{}", failed), 1);
                        resync_after_error(&mut cx, &engine, None, &mut def, failed, &[(key.clone(), v.clone())]);
                    }
                }
            }
            2 => {
                let n = if rng.chance(1, 3) { 5 + rng.below(8) } else { 1 + rng.below(4) };
                let mut keys = BTreeSet::new();
                for _ in 0..n {
                    keys.insert(pick_key(&mut rng));
                }
                let mut inputs = Vec::new();
                let mut any_empty = false;
                let mut any_oversize = false;
                for k in &keys {
                    let mut dim = pick_dim(&mut rng);
                    if let Some(md) = max_dim {
                        if rng.chance(1, 8) {
                            dim = md + 1 + rng.below(4);
                            any_oversize = true;
                        }
                    }
                    let v = if rng.chance(1, 80) {
                        any_empty = true;
                        Vec::new()
                    } else {
                        gen_vec(&mut rng, dim, &pool_of(&def, dim)).0
                    };
                    inputs.push((k.clone(), v));
                }
                // (an element that was to be longer than the limit may have come out empty)
                any_oversize = any_oversize && inputs.iter().any(|(_, v)| max_dim.map_or(false, |md| v.len() > md));
                // the engine iterates the batch in the order given: the refused element sits anywhere
                rng.shuffle(&mut inputs);
                let res = engine.batch_store_embeddings(inputs.iter().map(|(k, v)| EmbeddingInput::new(k.clone(), v.clone())).collect());
                cx.log(format!("batch_store_embeddings({:?}) -> {:?}", inputs.iter().map(|(k, v)| (k.clone(), v.len())).collect::<Vec<_>>(), res.as_ref().map(|b| b.stored_keys.len())));
                cx.r.count("op:batch_store_embeddings", 1);
                match res {
                    Ok(_) => {
                        if any_empty {
                            cx.violation("store:batch_store_embeddings:accepted-empty-vector".into(), "batch with an empty vector was accepted".into());
                        } else if any_oversize {
                            cx.r.inconclusive("a vector longer than max_dimension was accepted");
                            return;
                        } else {
                            for (k, v) in inputs {
                                def.put(&k, v, Md::new(), "batch_store_embeddings");
                                observe_repr(&mut cx, &engine, &format!("emb:{}", k));
                            }
                        }
                    }
                    Err(_) => {
                        // an empty element is refused up front, an element longer than max_dimension
                        // when its turn comes, i.e. after the elements before it were written (all
                        // the others in the rayon branch): the model is resynchronised from the engine
                        if !any_empty && !any_oversize {
                            cx.r.inconclusive("batch_store_embeddings failed on valid input");
                            return;
                        }
                        cx.r.count("op:batch_store_embeddings[failed]", 1);
                        resync_after_error(&mut cx, &engine, None, &mut def, "batch_store_embeddings[failed]", &inputs);
                    }
                }
            }
            3 => {
                let key = pick_key(&mut rng);
                let res = engine.delete_embedding(&key);
                cx.log(format!("delete_embedding({:?}) -> {:?}", key, res.as_ref().err()));
                cx.r.count("op:delete_embedding", 1);
                if res.is_ok() {
                    if !def.del(&key, "delete_embedding") {
                        cx.r.count("delete_ok_for_absent_key", 1);
                    }
                } else if def.data.contains_key(&key) {
                    cx.r.inconclusive("delete_embedding failed for a stored key");
                    return;
                }
            }
            4 => {
                let n = 1 + rng.below(5);
                let keys: Vec<String> = (0..n).map(|_| pick_key(&mut rng)).collect();
                let res = engine.batch_delete_embeddings(keys.clone());
                cx.log(format!("batch_delete_embeddings({:?}) -> {:?}", keys, res));
                cx.r.count("op:batch_delete_embeddings", 1);
                if res.is_ok() {
                    for k in &keys {
                        def.del(k, "batch_delete_embeddings");
                    }
                }
            }
            5 => {
                let res = engine.clear();
                cx.log(format!("clear() -> {:?}", res));
                cx.r.count("op:clear", 1);
                if res.is_ok() {
                    let keys: Vec<String> = def.data.keys().cloned().collect();
                    for k in keys {
                        def.del(&k, "clear");
                    }
                }
            }
            6 => {
                let key = pick_key(&mut rng);
                if rng.chance(3, 4) {
                    let m = gen_meta(&mut rng);
                    let res = engine.update_metadata(&key, meta_to_engine(&m));
                    cx.log(format!("update_metadata({:?}, {:?}) -> {:?}", key, m, res.as_ref().err()));
                    cx.r.count("op:update_metadata", 1);
                    if res.is_ok() {
                        if let Some(e) = def.data.get_mut(&key) {
                            for (k, v) in m {
                                e.meta.insert(k, v);
                            }
                        }
                    }
                } else {
                    let f = *rng.pick(&["cat", "tag"]);
                    let res = engine.remove_metadata_field(&key, f);
                    cx.log(format!("remove_metadata_field({:?}, {}) -> {:?}", key, f, res.as_ref().err()));
                    cx.r.count("op:remove_metadata_field", 1);
                    if res.is_ok() {
                        if let Some(e) = def.data.get_mut(&key) {
                            e.meta.remove(f);
                        }
                    }
                }
            }
            7 => {
                let c = hnsw_cfg(&mut rng, Metric::Cos);
                let res = engine.build_and_cache_index(c);
                cx.log(format!("build_and_cache_index() over {} vectors, dims {:?} -> {:?}", def.data.len(), def.dims(), res.as_ref().err()));
                cx.r.count("op:build_and_cache_index", 1);
                if res.is_ok() {
                    cx.r.count("index_builds_ok", 1);
                    def.cache = Cache::Fresh;
                }
            }
            8 => {
                let qd = pick_qdim(&mut rng, &def);
                let q = gen_query(&mut rng, qd, &pool_of(&def, qd));
                let k = pick_k(&mut rng, def.data.len());
                judged_search(&mut cx, &engine, "search_similar", "default", "_default", &mut def, true, &q, k, Metric::Cos, None, false, &|| engine.search_similar(&q, k));
            }
            9 => {
                let qd = pick_qdim(&mut rng, &def);
                let q = gen_query(&mut rng, qd, &pool_of(&def, qd));
                let k = pick_k(&mut rng, def.data.len());
                let m = *rng.pick(&[Metric::Cos, Metric::Euc, Metric::Dot]);
                judged_search(&mut cx, &engine, "search_similar_with_metric", "default", "_default", &mut def, false, &q, k, m, None, false, &|| {
                    engine.search_similar_with_metric(&q, k, m.engine())
                });
            }
            10 => {
                let qd = pick_qdim(&mut rng, &def);
                let q = gen_query(&mut rng, qd, &pool_of(&def, qd));
                let k = pick_k(&mut rng, def.data.len());
                let f = gen_filter(&mut rng, 0);
                let (fc, strat) = match rng.below(4) {
                    0 => (None, FilterStrategy::Auto),
                    1 => (Some(FilteredSearchConfig::pre_filter()), FilterStrategy::PreFilter),
                    2 => (Some(FilteredSearchConfig::post_filter().with_oversample(1 + rng.below(4))), FilterStrategy::PostFilter),
                    _ => (Some(FilteredSearchConfig::default()), FilterStrategy::Auto),
                };
                let api: &'static str = match strat {
                    FilterStrategy::PreFilter => "search_similar_filtered[pre]",
                    FilterStrategy::PostFilter => "search_similar_filtered[post]",
                    FilterStrategy::Auto => "search_similar_filtered[auto]",
                };
                let cond = f.cond();
                let uses_cache = strat != FilterStrategy::PreFilter;
                judged_search(&mut cx, &engine, api, "default", "_default", &mut def, uses_cache, &q, k, Metric::Cos, Some(&f), uses_cache, &|| {
                    engine.search_similar_filtered(&q, k, &cond, fc.clone())
                });
            }
            11 => {
                // explicit index, used immediately (the data cannot have changed in between)
                let m = *rng.pick(&[Metric::Cos, Metric::Cos, Metric::Euc, Metric::Dot]);
                let c = hnsw_cfg(&mut rng, m);
                let storage = if rng.bool() { HNSWStorageStrategy::Dense } else { HNSWStorageStrategy::Auto };
                let built = engine.build_hnsw_index_with_options(HNSWBuildOptions { storage, hnsw_config: c });
                cx.r.count("op:build_hnsw_index_with_options", 1);
                match built {
                    Err(e) => cx.log(format!("build_hnsw_index_with_options -> {}", e)),
                    Ok((index, mapping)) => {
                        let dims = def.dims();
                        let qd = dims.iter().next().copied().unwrap_or(main_dim);
                        let q = gen_query(&mut rng, qd, &pool_of(&def, qd));
                        let k = pick_k(&mut rng, def.data.len());
                        cx.r.count("search:search_with_hnsw", 1);
                        let out = catch_unwind(AssertUnwindSafe(|| engine.search_with_hnsw(&index, &mapping, &q, k)));
                        let n_same = def.data.values().filter(|e| e.v.len() == q.len()).count();
                        cx.eval(n_same >= 2);
                        match out {
                            Err(p) => cx.violation("cached:search_with_hnsw:panic".into(), format!("search_with_hnsw panicked: {}", first_line(&panic_msg(&p)))),
                            Ok(Err(e)) => cx.violation("error:search_with_hnsw".into(), format!("search_with_hnsw failed on a valid query: {}", e)),
                            Ok(Ok(res)) => {
                                cx.log(format!("search_with_hnsw[{} {:?}] k={} over {} nodes -> {}", m.name(), storage, k, mapping.len(), fmt_res(&res)));
                                cx.r.count("judged:cached-mode", 1);
                                cx.r.count("cached-mode:results", res.len() as u64);
                                if let Err(b) = judge_common(&res, &def, &q, k, m, None) {
                                    cx.violation(format!("cached:search_with_hnsw:{}", b.what), format!("index just built ({} metric, {:?} storage); {}", m.name(), storage, b.detail));
                                }
                            }
                        }
                        if rng.bool() {
                            let xm = gen_xm(&mut rng);
                            let k2 = pick_k(&mut rng, def.data.len());
                            judged_rerank(&mut cx, &engine, &index, &mapping, &def, &q, k2, &xm);
                        }
                        if !mapping.is_empty() && rng.chance(1, 3) {
                            offdim_on_explicit_index(&mut cx, &mut rng, &engine, &index, &mapping, qd, 1);
                        }
                    }
                }
            }
            12 => {
                let keys: Vec<&String> = def.data.keys().collect();
                if !keys.is_empty() {
                    let key = (*rng.pick(&keys)).clone();
                    let want = def.data[&key].v.clone();
                    let got = engine.get_embedding(&key);
                    cx.log(format!("get_embedding({:?})", key));
                    check_readback(&mut cx, "get_embedding", &key, got, &want);
                }
            }
            13 => {
                if saved.is_empty() || rng.bool() {
                    // save
                    if scratch.is_none() {
                        scratch = Some(Scratch::new(scratch_base, "c06"));
                    }
                    let dir = scratch.as_ref().unwrap();
                    let coll: Option<&'static str> = if rng.chance(2, 3) { None } else { Some(*rng.pick(&coll_names)) };
                    let binary = rng.bool();
                    let path = dir.join(&format!("idx{}.{}", saved.len(), if binary { "bin" } else { "json" }));
                    let name = coll.unwrap_or(VectorEngine::DEFAULT_COLLECTION);
                    let res = if binary { engine.save_index_binary(name, &path) } else { engine.save_index(name, &path) };
                    cx.log(format!("save_index{}({}) -> {:?}", if binary { "_binary" } else { "" }, name, res.as_ref().err()));
                    cx.r.count("op:save_index", 1);
                    if res.is_ok() {
                        let (entries, dim, metric) = match coll {
                            None => (def.data.clone(), None, Metric::Cos),
                            Some(c) => {
                                let n = &colls[c];
                                (n.space.data.clone(), if n.created { n.dim } else { None }, if n.created { n.metric } else { Metric::Cos })
                            }
                        };
                        saved.push(Saved { path, binary, coll, entries, dim, metric });
                    }
                } else {
                    let s = &saved[rng.below(saved.len())];
                    let res = if s.binary { engine.load_index_binary(&s.path) } else { engine.load_index(&s.path) };
                    cx.log(format!("load_index{}({:?}, {} entries) -> {:?}", if s.binary { "_binary" } else { "" }, s.coll.unwrap_or("default"), s.entries.len(), res));
                    cx.r.count("op:load_index", 1);
                    match res {
                        Ok(_) => match s.coll {
                            None => {
                                for (k, e) in &s.entries {
                                    def.put(k, e.v.clone(), e.meta.clone(), "load_index");
                                }
                            }
                            Some(c) => {
                                let n = colls.get_mut(c).unwrap();
                                n.created = true;
                                n.dim = s.dim;
                                n.metric = s.metric;
                                engine.invalidate_hnsw_cache(c); // configuration replaced, see create_collection
                                n.space.cache = Cache::Absent;
                                for (k, e) in &s.entries {
                                    n.space.put(k, e.v.clone(), e.meta.clone(), "load_index");
                                }
                            }
                        },
                        Err(e) => {
                            // e.g. the saved configuration carries a dimension constraint that was set
                            // after vectors of another dimension had been stored: the load replaces the
                            // configuration, restores entries until one is refused and fails. The model
                            // follows the engine (configuration and every key of the file).
                            cx.r.count("op:load_index[failed]", 1);
                            let _ = e;
                            let attempted: Vec<(String, Vec<f32>)> = s.entries.iter().map(|(k, e)| (k.clone(), e.v.clone())).collect();
                            match s.coll {
                                None => {
                                    resync_after_error(&mut cx, &engine, None, &mut def, "load_index[failed]", &attempted);
                                }
                                Some(c) => {
                                    let n = colls.get_mut(c).unwrap();
                                    match engine.get_collection_config(c) {
                                        Some(cfg) => {
                                            n.created = true;
                                            n.dim = cfg.dimension;
                                            n.metric = match cfg.distance_metric {
                                                DistanceMetric::Cosine => Metric::Cos,
                                                DistanceMetric::Euclidean => Metric::Euc,
                                                DistanceMetric::DotProduct => Metric::Dot,
                                            };
                                        }
                                        None => {
                                            n.created = false;
                                            n.dim = None;
                                            n.metric = Metric::Cos;
                                        }
                                    }
                                    engine.invalidate_hnsw_cache(c); // configuration (possibly) replaced, see create_collection
                                    n.space.cache = Cache::Absent;
                                    resync_after_error(&mut cx, &engine, Some(c), &mut n.space, "load_index[failed]", &attempted);
                                }
                            }
                        }
                    }
                }
            }
            14 => {
                let c = *rng.pick(&coll_names);
                let metric = *rng.pick(&[Metric::Cos, Metric::Cos, Metric::Euc, Metric::Dot]);
                let dim = if rng.chance(1, 3) { Some(main_dim) } else { None };
                let mut cfg = VectorCollectionConfig::default().with_metric(metric.engine());
                if let Some(d) = dim {
                    cfg = cfg.with_dimension(d);
                }
                let res = engine.create_collection(c, cfg);
                cx.log(format!("create_collection({}, metric={}, dim={:?}) -> {:?}", c, metric.name(), dim, res.as_ref().err()));
                cx.r.count("op:create_collection", 1);
                let n = colls.get_mut(c).unwrap();
                if res.is_ok() {
                    if n.created {
                        cx.r.count("create_collection_ok_although_existing", 1);
                    }
                    n.created = true;
                    n.metric = metric;
                    n.dim = dim;
                    // the configuration (metric) changed: an index the program handed over earlier was
                    // built for the old one, so the program withdraws it
                    engine.invalidate_hnsw_cache(c);
                    n.space.cache = Cache::Absent;
                }
            }
            15 => {
                let c = *rng.pick(&coll_names);
                let key = pick_key(&mut rng);
                let mut dim = pick_dim(&mut rng);
                let mut oversize = false;
                if let Some(md) = max_dim {
                    if rng.chance(1, 15) {
                        dim = md + 1 + rng.below(4);
                        oversize = true;
                    }
                }
                let n = colls.get_mut(c).unwrap();
                let (v, kind) = gen_vec(&mut rng, dim, &pool_of(&n.space, dim));
                let with_meta = rng.chance(1, 2);
                let meta = if with_meta { gen_meta(&mut rng) } else { Md::new() };
                let api: &'static str = if with_meta { "store_in_collection_with_metadata" } else { "store_in_collection" };
                let res = if with_meta { engine.store_in_collection_with_metadata(c, &key, v.clone(), meta_to_engine(&meta)) } else { engine.store_in_collection(c, &key, v.clone()) };
                cx.log(format!("{}({}, {:?}, {} dim {}) -> {:?}", api, c, key, kind, v.len(), res.as_ref().err()));
                cx.r.count(&format!("op:{}", api), 1);
                match res {
                    Ok(()) => {
                        if oversize {
                            cx.r.inconclusive("a vector longer than max_dimension was accepted");
                            return;
                        }
                        if n.created && n.dim.map_or(false, |d| d != v.len()) {
                            cx.r.count("collection_dimension_constraint_not_enforced", 1);
                        }
                        n.space.put(&key, v, meta, api);
                        observe_repr(&mut cx, &engine, &format!("coll:{}:emb:{}", c, key));
                    }
                    Err(_) => {
                        // refused (dimension constraint of the collection / max_dimension)
                        let failed: &'static str = if with_meta { "store_in_collection_with_metadata[failed]" } else { "store_in_collection[failed]" };
                        cx.r.count(&format!("op:{}", failed), 1);
                        resync_after_error(&mut cx, &engine, Some(c), &mut n.space, failed, &[(key.clone(), v.clone())]);
                    }
                }
            }
            16 => {
                let c = *rng.pick(&coll_names);
                let key = pick_key(&mut rng);
                let res = engine.delete_from_collection(c, &key);
                cx.log(format!("delete_from_collection({}, {:?}) -> {:?}", c, key, res.as_ref().err()));
                cx.r.count("op:delete_from_collection", 1);
                let n = colls.get_mut(c).unwrap();
                if res.is_ok() {
                    n.space.del(&key, "delete_from_collection");
                } else if n.space.data.contains_key(&key) {
                    cx.r.inconclusive("delete_from_collection failed for a stored key");
                    return;
                }
            }
            17 => {
                let c = *rng.pick(&coll_names);
                let res = engine.delete_collection(c);
                cx.log(format!("delete_collection({}) -> {:?}", c, res.as_ref().err()));
                cx.r.count("op:delete_collection", 1);
                let n = colls.get_mut(c).unwrap();
                if res.is_ok() {
                    let keys: Vec<String> = n.space.data.keys().cloned().collect();
                    for k in keys {
                        n.space.del(&k, "delete_collection");
                    }
                    n.created = false;
                    n.dim = None;
                    n.metric = Metric::Cos;
                }
            }
            18 => {
                // the program builds an index over the collection's current vectors (read through the
                // engine) with the collection's metric and hands it to the engine
                let c = *rng.pick(&coll_names);
                let n = colls.get_mut(c).unwrap();
                let keys = engine.list_collection_keys(c);
                let mut vecs = Vec::new();
                let mut ok = !keys.is_empty();
                for k in &keys {
                    match engine.get_from_collection(c, k) {
                        Ok(v) => vecs.push(v),
                        Err(_) => ok = false,
                    }
                }
                if ok && vecs.iter().all(|v| v.len() == vecs[0].len()) {
                    let index = HNSWIndex::with_config(hnsw_cfg(&mut rng, n.metric));
                    for v in vecs {
                        index.insert(v);
                    }
                    // mapping = storage keys, the convention of vector_engine's own collection-cache test
                    let mapping: Vec<String> = keys.iter().map(|k| format!("coll:{}:emb:{}", c, k)).collect();
                    engine.cache_hnsw_index(c, Arc::new(index), mapping);
                    n.space.cache = Cache::Fresh;
                    cx.r.count("collection_index_cached", 1);
                    cx.log(format!("cache_hnsw_index({}, {} keys, metric {})", c, keys.len(), n.metric.name()));
                }
                cx.r.count("op:cache_hnsw_index", 1);
            }
            19 => {
                let c = *rng.pick(&coll_names);
                let n = colls.get_mut(c).unwrap();
                let mut qd = pick_qdim(&mut rng, &n.space);
                if n.created {
                    if let Some(d) = n.dim {
                        qd = d; // another query dimension is rejected by the collection's constraint
                    }
                }
                let q = gen_query(&mut rng, qd, &pool_of(&n.space, qd));
                let k = pick_k(&mut rng, n.space.data.len());
                let metric = n.metric;
                judged_search(&mut cx, &engine, "search_in_collection", "collection", c, &mut n.space, true, &q, k, metric, None, false, &|| engine.search_in_collection(c, &q, k));
            }
            20 => {
                let c = *rng.pick(&coll_names);
                let n = colls.get_mut(c).unwrap();
                let mut qd = pick_qdim(&mut rng, &n.space);
                if n.created {
                    if let Some(d) = n.dim {
                        qd = d;
                    }
                }
                let q = gen_query(&mut rng, qd, &pool_of(&n.space, qd));
                let k = pick_k(&mut rng, n.space.data.len());
                let f = gen_filter(&mut rng, 0);
                let (fc, strat) = match rng.below(4) {
                    0 => (None, FilterStrategy::Auto),
                    1 => (Some(FilteredSearchConfig::pre_filter()), FilterStrategy::PreFilter),
                    2 => (Some(FilteredSearchConfig::post_filter().with_oversample(1 + rng.below(4))), FilterStrategy::PostFilter),
                    _ => (Some(FilteredSearchConfig::default()), FilterStrategy::Auto),
                };
                let api: &'static str = match strat {
                    FilterStrategy::PreFilter => "search_filtered_in_collection[pre]",
                    FilterStrategy::PostFilter => "search_filtered_in_collection[post]",
                    FilterStrategy::Auto => "search_filtered_in_collection[auto]",
                };
                let cond = f.cond();
                let uses_cache = strat != FilterStrategy::PreFilter;
                let metric = n.metric;
                judged_search(&mut cx, &engine, api, "collection", c, &mut n.space, uses_cache, &q, k, metric, Some(&f), uses_cache, &|| {
                    engine.search_filtered_in_collection(c, &q, k, &cond, fc.clone())
                });
            }
            22 => {
                let q: Vec<f32> = Vec::new();
                let k = 1 + rng.below(10);
                let c = *rng.pick(&coll_names);
                let f = gen_filter(&mut rng, 0).cond();
                match rng.below(4) {
                    0 => judged_offdim(&mut cx, "search_similar", "empty", def.data.len(), &q, &|| engine.search_similar(&q, k)),
                    1 => judged_offdim(&mut cx, "search_similar_filtered", "empty", def.data.len(), &q, &|| engine.search_similar_filtered(&q, k, &f, Some(FilteredSearchConfig::post_filter()))),
                    2 => judged_offdim(&mut cx, "search_in_collection", "empty", colls[c].space.data.len(), &q, &|| engine.search_in_collection(c, &q, k)),
                    _ => judged_offdim(&mut cx, "search_filtered_in_collection", "empty", colls[c].space.data.len(), &q, &|| engine.search_filtered_in_collection(c, &q, k, &f, Some(FilteredSearchConfig::post_filter()))),
                }
            }
            _ => {
                let c = *rng.pick(&coll_names);
                let n = &colls[c];
                let keys: Vec<&String> = n.space.data.keys().collect();
                if !keys.is_empty() {
                    let key = (*rng.pick(&keys)).clone();
                    let want = n.space.data[&key].v.clone();
                    let got = engine.get_from_collection(c, &key);
                    cx.log(format!("get_from_collection({}, {:?})", c, key));
                    check_readback(&mut cx, "get_from_collection", &key, got, &want);
                }
            }
        }
    }

    // ---- quiescent end of program: every stored vector reads back as written
    cx.step = n_ops as u64;
    for (k, e) in &def.data {
        let got = engine.get_embedding(k);
        check_readback(&mut cx, "get_embedding", k, got, &e.v);
    }
    for (c, n) in &colls {
        for (k, e) in &n.space.data {
            let got = engine.get_from_collection(c, k);
            check_readback(&mut cx, "get_from_collection", k, got, &e.v);
        }
    }
    cx.r.count("programs", 1);
    cx.r.count("program_ops", n_ops as u64);
    if cx.r.want_sample() {
        let t: Vec<&String> = cx.trace.iter().take(10).collect();
        let s = json!({"part": "program", "case_seed": case_seed, "first_operations": t});
        cx.r.sample(s);
    }
}

// ------------------------------------------------------------------------------------------------
// part `rerank`: index-assisted search re-ranked with every extended metric, over stored vectors
// and queries whose non-zeros sit at one end (one-hot, zero, prefix-/suffix-supported, negative
// tails and heads)
// ------------------------------------------------------------------------------------------------

fn gen_shape_vec(rng: &mut Rng, dim: usize) -> (Vec<f32>, &'static str) {
    let val = |rng: &mut Rng| {
        let x = rng.f64_in(0.1, 2.0) as f32;
        if rng.bool() {
            x
        } else {
            -x
        }
    };
    match rng.weighted(&[18, 8, 20, 20, 12, 12, 10]) {
        0 => {
            let mut v = vec![0f32; dim];
            let i = rng.below(dim);
            v[i] = val(rng);
            (v, "onehot")
        }
        1 => (vec![0f32; dim], "zero"),
        2 => {
            // non-zeros only among the first p components (early last non-zero)
            let p = 1 + rng.below((dim / 2).max(1));
            let mut v = vec![0f32; dim];
            for x in v.iter_mut().take(p) {
                if rng.chance(3, 4) {
                    *x = val(rng);
                }
            }
            v[rng.below(p)] = val(rng);
            (v, "prefix-supported")
        }
        3 => {
            // mirror image: non-zeros only among the last p components (late first non-zero)
            let p = 1 + rng.below((dim / 2).max(1));
            let mut v = vec![0f32; dim];
            for x in v.iter_mut().skip(dim - p) {
                if rng.chance(3, 4) {
                    *x = val(rng);
                }
            }
            v[dim - 1 - rng.below(p)] = val(rng);
            (v, "suffix-supported")
        }
        4 => ((0..dim).map(|_| val(rng)).collect(), "dense"),
        5 => ((0..dim).map(|_| rng.range(-2, 2) as f32).collect(), "smallint"),
        _ => gen_vec(rng, dim, &[]),
    }
}

fn gen_shape_query(rng: &mut Rng, dim: usize, pool: &[Vec<f32>]) -> (Vec<f32>, &'static str) {
    let mag = |rng: &mut Rng| rng.f64_in(0.1, 2.0) as f32;
    let (mut q, kind): (Vec<f32>, &'static str) = match rng.weighted(&[22, 22, 8, 8, 10, 10, 10, 10]) {
        0 => {
            // head zero or positive, the last t components negative
            let t = 1 + rng.below(dim.max(2) - 1);
            let mut v: Vec<f32> = (0..dim).map(|_| if rng.bool() { 0.0 } else { mag(rng) }).collect();
            for x in v.iter_mut().skip(dim - t) {
                *x = -mag(rng);
            }
            (v, "negative-tail")
        }
        1 => {
            let t = 1 + rng.below(dim.max(2) - 1);
            let mut v: Vec<f32> = (0..dim).map(|_| if rng.bool() { 0.0 } else { mag(rng) }).collect();
            for x in v.iter_mut().take(t) {
                *x = -mag(rng);
            }
            (v, "negative-head")
        }
        2 => ((0..dim).map(|_| -mag(rng)).collect(), "all-negative"),
        3 => {
            let mut v = vec![0f32; dim];
            v[rng.below(dim)] = -mag(rng);
            (v, "negative-onehot")
        }
        4 => ((0..dim).map(|_| if rng.bool() { mag(rng) } else { -mag(rng) }).collect(), "dense"),
        5 if !pool.is_empty() => (rng.pick(pool).clone(), "stored-vector"),
        6 | 5 => ((0..dim).map(|_| rng.range(-2, 2) as f32).collect(), "smallint"),
        _ => {
            // non-zeros only at one end (so that stored vectors have the longer tail / head)
            let p = 1 + rng.below((dim / 2).max(1));
            let mut v = vec![0f32; dim];
            if rng.bool() {
                for x in v.iter_mut().take(p) {
                    *x = if rng.bool() { mag(rng) } else { -mag(rng) };
                }
            } else {
                for x in v.iter_mut().skip(dim - p) {
                    *x = if rng.bool() { mag(rng) } else { -mag(rng) };
                }
            }
            (v, "one-end")
        }
    };
    if !q.iter().any(|x| x.abs() >= 1e-3) {
        let i = rng.below(dim);
        q[i] = -1.0;
    }
    (q, kind)
}

fn run_rerank(case_seed: u64, r: &mut Report, verbose: bool) {
    let mut rng = Rng::new(case_seed ^ 0x4E4A);
    let mut cx = Ctx { r, case_seed, part: "rerank", trace: Vec::new(), verbose, step: 0 };
    let dim = *rng.pick(&[2usize, 3, 4, 5, 8, 8, 9, 16, 33]);
    let n = 2 + rng.below(23);
    let cfg = {
        let mut c = VectorEngineConfig::default();
        c.sparse_threshold = *rng.pick(&[0.5f32, 0.5, 0.0, 0.3, 1.0]);
        c
    };
    let engine = match VectorEngine::with_config(cfg) {
        Ok(e) => e,
        Err(e) => {
            cx.r.inconclusive(&format!("engine construction failed: {}", e));
            return;
        }
    };
    let mut def = Space::new("emb:");
    for i in 0..n {
        let (v, kind) = gen_shape_vec(&mut rng, dim);
        let key = format!("v{}", i);
        let res = engine.store_embedding(&key, v.clone());
        cx.log(format!("store_embedding({:?}, {} {:?}) -> {:?}", key, kind, short(&v), res.as_ref().err()));
        if res.is_ok() {
            cx.r.count(&format!("rerank:stored-kind:{}", kind), 1);
            def.put(&key, v, Md::new(), "store_embedding");
            observe_repr(&mut cx, &engine, &format!("emb:{}", key));
        }
    }
    let storage = if rng.bool() { HNSWStorageStrategy::Dense } else { HNSWStorageStrategy::Auto };
    let hm = *rng.pick(&[Metric::Cos, Metric::Cos, Metric::Euc, Metric::Dot]);
    let built = engine.build_hnsw_index_with_options(HNSWBuildOptions { storage, hnsw_config: hnsw_cfg(&mut rng, hm) });
    let (index, mapping) = match built {
        Ok(x) => x,
        Err(e) => {
            cx.r.inconclusive(&format!("rerank: build_hnsw_index_with_options failed: {}", first_line(&e.to_string())));
            return;
        }
    };
    cx.log(format!("build_hnsw_index_with_options({:?}, {} index metric) -> {} nodes", storage, hm.name(), mapping.len()));
    let mut step = 0u64;
    for _ in 0..3 {
        let (q, qkind) = gen_shape_query(&mut rng, dim, &pool_of(&def, dim));
        cx.r.count(&format!("rerank:query-kind:{}", qkind), 1);
        let mut metrics = vec![XM::Cosine, XM::Angular, XM::Geodesic, XM::Jaccard, XM::Overlap, XM::WeightedJaccard, XM::Euclidean, XM::Manhattan, gen_composite(&mut rng)];
        rng.shuffle(&mut metrics);
        for xm in &metrics {
            cx.step = step;
            step += 1;
            let k = match rng.below(4) {
                0 => 1,
                1 => n + 2,
                _ => 1 + rng.below(n),
            };
            judged_rerank(&mut cx, &engine, &index, &mapping, &def, &q, k, xm);
        }
    }
    // queries of another dimension on the same index
    cx.step = step;
    offdim_on_explicit_index(&mut cx, &mut rng, &engine, &index, &mapping, dim, 2);
    // the stored vectors still read back as written
    for (k, e) in &def.data {
        let got = engine.get_embedding(k);
        check_readback(&mut cx, "get_embedding", k, got, &e.v);
    }
    cx.r.count("rerank_programs", 1);
}

// ------------------------------------------------------------------------------------------------
// part `alias`: a named collection that happens to be called "_default"
// ------------------------------------------------------------------------------------------------

fn run_alias(case_seed: u64, r: &mut Report, verbose: bool) {
    let mut rng = Rng::new(case_seed ^ 0xA11A5);
    let mut cx = Ctx { r, case_seed, part: "alias", trace: Vec::new(), verbose, step: 0 };
    let dim = *rng.pick(&[2usize, 3, 4, 8, 16]);
    let engine = VectorEngine::new();
    let mut def = Space::new("emb:");
    let mut named = Space::new("coll:_default:emb:");
    let nd = 2 + rng.below(12);
    let nn = 1 + rng.below(8);
    for i in 0..nd {
        let (v, _) = gen_vec(&mut rng, dim, &[]);
        if engine.store_embedding(&format!("d{}", i), v.clone()).is_ok() {
            def.put(&format!("d{}", i), v, Md::new(), "store_embedding");
        }
    }
    let name = "_default";
    for i in 0..nn {
        let (v, _) = gen_vec(&mut rng, dim, &[]);
        if engine.store_in_collection(name, &format!("n{}", i), v.clone()).is_ok() {
            named.put(&format!("n{}", i), v, Md::new(), "store_in_collection");
        }
    }
    if named.data.is_empty() {
        // the engine refuses the name: nothing to judge
        cx.r.count("alias:name-rejected-by-engine", 1);
        return;
    }
    cx.log(format!("default collection: {} vectors d*, named collection {:?}: {} vectors n*, dim {}", nd, name, nn, dim));
    let built = engine.build_and_cache_index(HNSWConfig::default());
    cx.log(format!("build_and_cache_index() -> {:?}", built.as_ref().err()));
    if built.is_err() {
        cx.r.inconclusive("alias: build_and_cache_index failed");
        return;
    }
    def.cache = Cache::Fresh;
    for s in 0..4u64 {
        cx.step = s;
        let q = gen_query(&mut rng, dim, &pool_of(&named, dim));
        let k = 1 + rng.below(6);
        // nobody cached an index for the named collection: exhaustive answer over its own vectors
        cx.r.count("search:search_in_collection[_default]", 1);
        let out = catch_unwind(AssertUnwindSafe(|| engine.search_in_collection(name, &q, k)));
        cx.eval(named.data.len() >= 2);
        match out {
            Err(p) => cx.violation("exact:search_in_collection:panic".into(), first_line(&panic_msg(&p))),
            Ok(Err(e)) => cx.violation("error:search_in_collection".into(), e.to_string()),
            Ok(Ok(res)) => {
                cx.log(format!("search_in_collection({:?}) k={} -> {}", name, k, fmt_res(&res)));
                cx.r.count("judged:exhaustive-mode", 1);
                if let Err(b) = judge_exact(&res, &named, &q, k, Metric::Cos, None) {
                    let foreign = res.iter().any(|x| def.data.contains_key(&x.key) && !named.data.contains_key(&x.key));
                    if foreign {
                        cx.violation(
                            "exact:search_in_collection:collection-named-_default-answered-from-default-index".into(),
                            format!("collection {:?} holds keys n* only, but after build_and_cache_index() its search returns keys of the default collection: {} ({})", name, fmt_res(&res), b.what),
                        );
                    } else {
                        cx.violation(format!("exact:search_in_collection:{}", b.what), b.detail);
                    }
                }
            }
        }
        let q = gen_query(&mut rng, dim, &pool_of(&def, dim));
        judged_search(&mut cx, &engine, "search_similar", "default", "_default", &mut def, true, &q, k, Metric::Cos, None, false, &|| engine.search_similar(&q, k));
    }
    cx.r.count("alias_programs", 1);
}

// ------------------------------------------------------------------------------------------------
// part `concurrent`: stores / overwrites / deletes that execute while other threads are searching
// through the cached index
//
// One case = one engine with one or two cache slots (the default collection, a named collection).
// Each round: (quiescent) an index is built from the current vectors and cached; searcher threads
// then call the index-consulting searches in a loop while one mutator thread per slot executes a
// few planned mutations; every call is bracketed by two ticks of one global logical clock. After
// all threads were joined (quiescent again) ordinary sequential searches are judged by
// `judged_search` exactly as in part `program`: the model saw a mutation after the build, so the
// oracle is the exhaustive one and a failure cured by `invalidate_hnsw_cache` is a stale index.
// The searches recorded in flight are judged afterwards from the tick brackets:
//  * a search that began after mutation a had returned and ended before mutation a+1 was called
//    ran on unchanging data: cached-index oracle when a = 0 (nothing changed since the build), the
//    exhaustive oracle over the state after mutation a otherwise;
//  * a search overlapping mutations a+1..b may see, per key, the vector of any state a..b: every
//    returned key must be stored with the query's dimension in one of those states and carry the
//    true score of that vector; no duplicates, at most k, reported scores best first. Which keys
//    are returned is not judged (the answer may mix states).
// In this part indexes are built and cached only while no other thread runs; a build racing with
// mutations is part `buildrace`.
// ------------------------------------------------------------------------------------------------

#[derive(Clone, Debug)]
enum CMut {
    Store { key: String, v: Vec<f32>, meta: Option<Md> },
    BatchStore(Vec<(String, Vec<f32>)>),
    Delete(String),
    BatchDelete(Vec<String>),
    /// `clear()` on the default collection, `delete_collection` on a named one
    Clear,
}

impl CMut {
    fn api(&self, coll: bool) -> &'static str {
        match (self, coll) {
            (CMut::Store { meta: None, .. }, false) => "store_embedding[during-searches]",
            (CMut::Store { meta: Some(_), .. }, false) => "store_embedding_with_metadata[during-searches]",
            (CMut::BatchStore(_), _) => "batch_store_embeddings[during-searches]",
            (CMut::Delete(_), false) => "delete_embedding[during-searches]",
            (CMut::BatchDelete(_), _) => "batch_delete_embeddings[during-searches]",
            (CMut::Clear, false) => "clear[during-searches]",
            (CMut::Store { meta: None, .. }, true) => "store_in_collection[during-searches]",
            (CMut::Store { meta: Some(_), .. }, true) => "store_in_collection_with_metadata[during-searches]",
            (CMut::Delete(_), true) => "delete_from_collection[during-searches]",
            (CMut::Clear, true) => "delete_collection[during-searches]",
        }
    }
    fn apply_model(&self, space: &mut Space, api: &'static str) {
        match self {
            CMut::Store { key, v, meta } => space.put(key, v.clone(), meta.clone().unwrap_or_default(), api),
            CMut::BatchStore(items) => {
                for (k, v) in items {
                    space.put(k, v.clone(), Md::new(), api);
                }
            }
            CMut::Delete(k) => {
                space.del(k, api);
            }
            CMut::BatchDelete(ks) => {
                for k in ks {
                    space.del(k, api);
                }
            }
            CMut::Clear => {
                let keys: Vec<String> = space.data.keys().cloned().collect();
                for k in keys {
                    space.del(&k, api);
                }
            }
        }
    }
    /// Err = the engine refused an operation that is valid in the model's state
    fn apply_real(&self, engine: &VectorEngine, coll: Option<&str>) -> Result<(), String> {
        let e = |r: vector_engine::Result<()>| r.map_err(|e| first_line(&e.to_string()));
        match (self, coll) {
            (CMut::Store { key, v, meta: None }, None) => e(engine.store_embedding(key, v.clone())),
            (CMut::Store { key, v, meta: Some(m) }, None) => e(engine.store_embedding_with_metadata(key, v.clone(), meta_to_engine(m))),
            (CMut::Store { key, v, meta: None }, Some(c)) => e(engine.store_in_collection(c, key, v.clone())),
            (CMut::Store { key, v, meta: Some(m) }, Some(c)) => e(engine.store_in_collection_with_metadata(c, key, v.clone(), meta_to_engine(m))),
            (CMut::BatchStore(items), _) => e(engine.batch_store_embeddings(items.iter().map(|(k, v)| EmbeddingInput::new(k.clone(), v.clone())).collect()).map(|_| ())),
            (CMut::Delete(k), None) => e(engine.delete_embedding(k)),
            (CMut::Delete(k), Some(c)) => e(engine.delete_from_collection(c, k)),
            (CMut::BatchDelete(ks), _) => e(engine.batch_delete_embeddings(ks.clone()).map(|_| ())),
            (CMut::Clear, None) => e(engine.clear().map(|_| ())),
            (CMut::Clear, Some(c)) => e(engine.delete_collection(c)),
        }
    }
    fn describe(&self) -> String {
        match self {
            CMut::Store { key, v, meta } => format!("store({:?}, dim {}{})", key, v.len(), if meta.is_some() { ", metadata" } else { "" }),
            CMut::BatchStore(items) => format!("batch_store({:?})", items.iter().map(|(k, _)| k.as_str()).collect::<Vec<_>>()),
            CMut::Delete(k) => format!("delete({:?})", k),
            CMut::BatchDelete(ks) => format!("batch_delete({:?})", ks),
            CMut::Clear => "clear".into(),
        }
    }
}

struct CSlot {
    /// None = the default collection
    coll: Option<&'static str>,
    space: Space,
    metric: Metric,
    /// named collection currently has a configuration (create_collection)
    created: bool,
    next_key: usize,
}

impl CSlot {
    fn slot_kind(&self) -> &'static str {
        if self.coll.is_some() {
            "collection"
        } else {
            "default"
        }
    }
    fn cache_slot(&self) -> &'static str {
        self.coll.unwrap_or("_default")
    }
    fn search_api(&self) -> &'static str {
        if self.coll.is_some() {
            "search_in_collection"
        } else {
            "search_similar"
        }
    }
    fn store_quiescent(&mut self, engine: &VectorEngine, key: &str, v: Vec<f32>) -> bool {
        let (res, api): (_, &'static str) = match self.coll {
            None => (engine.store_embedding(key, v.clone()), "store_embedding"),
            Some(c) => (engine.store_in_collection(c, key, v.clone()), "store_in_collection"),
        };
        if res.is_ok() {
            self.space.put(key, v, Md::new(), api);
        }
        res.is_ok()
    }
    /// build an index over the slot's current vectors and cache it (quiescent); false = not cached
    fn build_and_cache(&mut self, cx: &mut Ctx, rng: &mut Rng, engine: &VectorEngine) -> bool {
        match self.coll {
            None => {
                let res = engine.build_and_cache_index(hnsw_cfg(rng, Metric::Cos));
                cx.log(format!("build_and_cache_index() over {} vectors -> {:?}", self.space.data.len(), res.as_ref().err()));
                if res.is_ok() {
                    self.space.cache = Cache::Fresh;
                }
                res.is_ok()
            }
            Some(c) => {
                let keys = engine.list_collection_keys(c);
                let mut vecs = Vec::new();
                for k in &keys {
                    match engine.get_from_collection(c, k) {
                        Ok(v) => vecs.push(v),
                        Err(_) => return false,
                    }
                }
                if keys.is_empty() || !vecs.iter().all(|v| v.len() == vecs[0].len()) {
                    return false;
                }
                let index = HNSWIndex::with_config(hnsw_cfg(rng, self.metric));
                for v in vecs {
                    index.insert(v);
                }
                let mapping: Vec<String> = keys.iter().map(|k| format!("coll:{}:emb:{}", c, k)).collect();
                engine.cache_hnsw_index(c, Arc::new(index), mapping);
                self.space.cache = Cache::Fresh;
                cx.log(format!("cache_hnsw_index({}, {} keys, metric {})", c, keys.len(), self.metric.name()));
                true
            }
        }
    }
}

/// one search recorded in flight
struct Obs {
    slot: usize,
    qi: usize,
    k: usize,
    s0: u64,
    s1: u64,
    out: Result<Vec<SearchResult>, (bool, String)>, // Err((panicked, message))
}

/// a search that overlapped mutations: `vis` = the states a key's vector may legitimately come
/// from, `earlier` = the states that were replaced before the search began (classification only)
fn judge_overlap(res: &[SearchResult], vis: &[Space], earlier: &[Space], q: &[f32], k: usize, metric: Metric) -> Result<(), Bad> {
    if res.len() > k {
        return Err(Bad { what: "more-than-k".into(), detail: format!("{} results for k={}", res.len(), k) });
    }
    let mut seen = BTreeSet::new();
    for r in res {
        if !seen.insert(r.key.as_str()) {
            return Err(Bad { what: "duplicate-key".into(), detail: format!("key {:?} returned twice in {}", r.key, fmt_res(res)) });
        }
        let got = r.score as f64;
        let matches = |s: &Space| {
            s.data.get(&r.key).filter(|e| e.v.len() == q.len()).map_or(false, |e| {
                let (t, tol) = ref_score(metric, q, &e.v);
                got.is_finite() && (got - t).abs() <= tol
            })
        };
        if vis.iter().any(|s| matches(s)) {
            continue;
        }
        let present = vis.iter().any(|s| s.data.get(&r.key).map_or(false, |e| e.v.len() == q.len()));
        let what = if !present {
            if earlier.iter().any(|s| s.data.contains_key(&r.key)) || vis.iter().any(|s| s.deleted.contains(&r.key)) {
                "deleted-key-returned"
            } else if vis.iter().any(|s| s.data.contains_key(&r.key)) {
                "other-dimension-returned"
            } else {
                "unknown-key-returned"
            }
        } else if earlier.iter().any(|s| matches(s)) {
            "overwritten-vector-score"
        } else {
            "wrong-score"
        };
        return Err(Bad {
            what: what.into(),
            detail: format!("returned key {:?} (score {}) matches no vector that key held between the start and the end of the search — {}", r.key, r.score, fmt_res(res)),
        });
    }
    for w in res.windows(2) {
        if !(w[0].score >= w[1].score) {
            return Err(Bad { what: "unordered".into(), detail: format!("reported scores not best-first: {}", fmt_res(res)) });
        }
    }
    Ok(())
}

fn plan_mutations(rng: &mut Rng, slot: &mut CSlot, dim: usize, n: usize) -> Vec<CMut> {
    let mut sim = slot.space.clone();
    let coll = slot.coll.is_some();
    let mut plan = Vec::new();
    for _ in 0..n {
        let keys: Vec<String> = sim.data.keys().cloned().collect();
        let kind = rng.weighted(&[
            22, // 0 delete one
            22, // 1 overwrite
            14, // 2 store a new key
            if coll { 0 } else { 12 }, // 3 batch delete
            if coll { 0 } else { 10 }, // 4 batch store (new + overwritten keys)
            if (!coll || (slot.created && slot.metric == Metric::Cos)) && !plan.iter().any(|m| matches!(m, CMut::Clear)) { 3 } else { 0 }, // 5 clear
        ]);
        let fresh_key = |slot: &mut CSlot| {
            slot.next_key += 1;
            format!("k{}", slot.next_key - 1)
        };
        let m = match kind {
            0 if !keys.is_empty() => CMut::Delete(rng.pick(&keys).clone()),
            1 if !keys.is_empty() => {
                let key = rng.pick(&keys).clone();
                let (v, _) = gen_vec(rng, dim, &pool_of(&sim, dim));
                CMut::Store { key, v, meta: if rng.chance(1, 3) { Some(gen_meta(rng)) } else { None } }
            }
            3 if !keys.is_empty() => {
                let n = 1 + rng.below(3);
                let mut ks: Vec<String> = (0..n).map(|_| rng.pick(&keys).clone()).collect();
                ks.sort();
                ks.dedup();
                CMut::BatchDelete(ks)
            }
            4 => {
                let n = 1 + rng.below(3);
                let mut items: Vec<(String, Vec<f32>)> = Vec::new();
                for _ in 0..n {
                    let key = if !keys.is_empty() && rng.bool() { rng.pick(&keys).clone() } else { fresh_key(slot) };
                    if items.iter().any(|(k, _)| *k == key) {
                        continue;
                    }
                    items.push((key, gen_vec(rng, dim, &pool_of(&sim, dim)).0));
                }
                CMut::BatchStore(items)
            }
            5 => CMut::Clear,
            _ => {
                let key = fresh_key(slot);
                let (v, _) = gen_vec(rng, dim, &pool_of(&sim, dim));
                CMut::Store { key, v, meta: if rng.chance(1, 3) { Some(gen_meta(rng)) } else { None } }
            }
        };
        m.apply_model(&mut sim, "plan");
        plan.push(m);
    }
    plan
}

fn run_concurrent(case_seed: u64, r: &mut Report, verbose: bool, thorough: bool) {
    use std::sync::atomic::{AtomicBool, AtomicU64, Ordering};
    let mut rng = Rng::new(case_seed ^ 0xC0C0);
    let mut cx = Ctx { r, case_seed, part: "concurrent", trace: Vec::new(), verbose, step: 0 };
    let dim = *rng.pick(&[3usize, 4, 8, 8, 16, 16, 24, 32]);
    let n0 = if thorough { 40 + rng.below(260) } else { 40 + rng.below(160) };
    let cfg = {
        let mut c = VectorEngineConfig::default();
        c.sparse_threshold = *rng.pick(&[0.5f32, 0.5, 0.0, 0.3, 1.0]);
        c
    };
    let engine = match VectorEngine::with_config(cfg) {
        Ok(e) => e,
        Err(e) => {
            cx.r.inconclusive(&format!("engine construction failed: {}", e));
            return;
        }
    };
    let mut slots: Vec<CSlot> = Vec::new();
    let layout = rng.weighted(&[55, 20, 25]); // default only, collection only, both
    if layout != 1 {
        slots.push(CSlot { coll: None, space: Space::new("emb:"), metric: Metric::Cos, created: false, next_key: 0 });
    }
    if layout != 0 {
        let metric = *rng.pick(&[Metric::Cos, Metric::Cos, Metric::Euc, Metric::Dot]);
        let created = metric != Metric::Cos || rng.bool();
        if created && engine.create_collection("cc", VectorCollectionConfig::default().with_metric(metric.engine())).is_err() {
            cx.r.inconclusive("concurrent: create_collection failed");
            return;
        }
        slots.push(CSlot { coll: Some("cc"), space: Space::new("coll:cc:emb:"), metric, created, next_key: 0 });
    }
    cx.log(format!("case: dim={} vectors={} slots={:?}", dim, n0, slots.iter().map(|s| (s.cache_slot(), s.metric.name())).collect::<Vec<_>>()));
    let rounds = 2 + rng.below(if thorough { 4 } else { 2 });
    let clock = AtomicU64::new(1);
    for round in 0..rounds {
        // ---- quiescent: refill, build + cache, one search through the fresh index
        let mut all_cached = true;
        for slot in slots.iter_mut() {
            let want = if round == 0 { n0 } else { 30 };
            while slot.space.data.len() < want {
                let key = format!("k{}", slot.next_key);
                slot.next_key += 1;
                let (v, _) = gen_vec(&mut rng, dim, &pool_of(&slot.space, dim));
                if !slot.store_quiescent(&engine, &key, v) {
                    cx.r.inconclusive("concurrent: store of a valid vector failed");
                    return;
                }
            }
            if !slot.build_and_cache(&mut cx, &mut rng, &engine) {
                all_cached = false;
            }
        }
        if !all_cached {
            cx.r.inconclusive("concurrent: index could not be built");
            return;
        }
        for slot in slots.iter_mut() {
            cx.step += 1;
            let q = gen_query(&mut rng, dim, &pool_of(&slot.space, dim));
            let k = 1 + rng.below(20);
            let (api, kind, cslot, metric, coll) = (slot.search_api(), slot.slot_kind(), slot.cache_slot(), slot.metric, slot.coll);
            judged_search(&mut cx, &engine, api, kind, cslot, &mut slot.space, true, &q, k, metric, None, false, &|| match coll {
                None => engine.search_similar(&q, k),
                Some(c) => engine.search_in_collection(c, &q, k),
            });
        }

        // ---- plan: mutations per slot, queries (random + the vectors the mutations touch)
        let mut plans: Vec<Vec<CMut>> = Vec::new();
        let mut queries: Vec<(usize, Vec<f32>)> = Vec::new();
        let mut targeted: Vec<Vec<Vec<f32>>> = vec![Vec::new(); slots.len()];
        for (si, slot) in slots.iter_mut().enumerate() {
            let n_mut = match rng.below(10) {
                0..=3 => 1,
                4..=6 => 2,
                _ => 3 + rng.below(4),
            };
            let plan = plan_mutations(&mut rng, slot, dim, n_mut);
            let mut touched: Vec<Vec<f32>> = Vec::new();
            {
                let mut sim = slot.space.clone();
                for m in &plan {
                    let keys: Vec<&String> = match m {
                        CMut::Store { key, .. } | CMut::Delete(key) => vec![key],
                        CMut::BatchStore(items) => items.iter().map(|(k, _)| k).collect(),
                        CMut::BatchDelete(ks) => ks.iter().collect(),
                        CMut::Clear => sim.data.keys().take(3).collect(),
                    };
                    for k in keys {
                        if let Some(e) = sim.data.get(k) {
                            touched.push(e.v.clone());
                        }
                    }
                    match m {
                        CMut::Store { v, .. } => touched.push(v.clone()),
                        CMut::BatchStore(items) => touched.extend(items.iter().map(|(_, v)| v.clone())),
                        _ => {}
                    }
                    m.apply_model(&mut sim, "plan");
                }
            }
            touched.retain(|v| v.len() == dim && v.iter().any(|x| x.abs() >= 1e-3));
            touched.truncate(10);
            for v in &touched {
                queries.push((si, v.clone()));
            }
            for _ in 0..4 {
                queries.push((si, gen_query(&mut rng, dim, &pool_of(&slot.space, dim))));
            }
            targeted[si] = touched;
            plans.push(plan);
        }
        let n_search = 2 + rng.below(4);
        let ks: Vec<usize> = (0..4).map(|_| *rng.pick(&[1usize, 5, 10, 20, 40, 60])).collect();
        let gaps: Vec<Vec<u64>> = plans.iter().map(|p| p.iter().map(|_| 1 + rng.below(2 * n_search) as u64).collect()).collect();
        let searcher_seeds: Vec<u64> = (0..n_search).map(|_| rng.next_u64()).collect();

        // ---- concurrent phase
        let stop = AtomicBool::new(false);
        let progress = AtomicU64::new(0);
        let started = AtomicU64::new(0);
        let stalled = AtomicBool::new(false);
        const KEEP: usize = 400;
        let slot_colls: Vec<Option<&'static str>> = slots.iter().map(|s| s.coll).collect();
        // wait until `progress` reaches `target`; false = no progress for a long time (harness problem)
        let exited = AtomicU64::new(0);
        let wait_for = |target: u64| -> bool {
            let t = Instant::now();
            while progress.load(Ordering::SeqCst) < target {
                if exited.load(Ordering::SeqCst) >= n_search as u64 {
                    return false; // every searcher stopped on a failed search (judged below)
                }
                if t.elapsed().as_secs() > 60 {
                    stalled.store(true, Ordering::SeqCst);
                    return false;
                }
                std::thread::yield_now();
            }
            true
        };
        let (obs, mut_times): (Vec<Obs>, Vec<(Vec<(u64, u64)>, Option<String>)>) = std::thread::scope(|sc| {
            let searchers: Vec<_> = searcher_seeds
                .iter()
                .map(|seed| {
                    let (engine, queries, ks, stop, progress, started, exited, clock, slot_colls) = (&engine, &queries, &ks, &stop, &progress, &started, &exited, &clock, &slot_colls);
                    let seed = *seed;
                    sc.spawn(move || {
                        let mut rng = Rng::new(seed);
                        let mut kept: std::collections::VecDeque<Obs> = std::collections::VecDeque::new();
                        let mut total = 0u64;
                        started.fetch_add(1, Ordering::SeqCst);
                        while !stop.load(Ordering::SeqCst) {
                            let qi = rng.below(queries.len());
                            let (si, q) = &queries[qi];
                            let k = *rng.pick(ks);
                            let s0 = clock.fetch_add(1, Ordering::SeqCst);
                            let out = catch_unwind(AssertUnwindSafe(|| match slot_colls[*si] {
                                None => engine.search_similar(q, k),
                                Some(c) => engine.search_in_collection(c, q, k),
                            }));
                            let s1 = clock.fetch_add(1, Ordering::SeqCst);
                            progress.fetch_add(1, Ordering::SeqCst);
                            total += 1;
                            let out = match out {
                                Ok(Ok(r)) => Ok(r),
                                Ok(Err(e)) => Err((false, first_line(&format!("{:?}", e)))),
                                Err(p) => Err((true, first_line(&panic_msg(&p)))),
                            };
                            let failed = out.is_err();
                            if kept.len() == KEEP {
                                kept.pop_front();
                            }
                            kept.push_back(Obs { slot: *si, qi, k, s0, s1, out });
                            if failed {
                                break;
                            }
                        }
                        exited.fetch_add(1, Ordering::SeqCst);
                        (kept, total)
                    })
                })
                .collect();
            let mutators: Vec<_> = plans
                .iter()
                .enumerate()
                .map(|(si, plan)| {
                    let (engine, progress, clock, gaps, wait_for, coll) = (&engine, &progress, &clock, &gaps[si], &wait_for, slot_colls[si]);
                    let warm = 2 * n_search as u64;
                    sc.spawn(move || {
                        let mut times = Vec::new();
                        if !wait_for(warm) {
                            return (times, None);
                        }
                        for (m, gap) in plan.iter().zip(gaps) {
                            let t0 = clock.fetch_add(1, Ordering::SeqCst);
                            let res = m.apply_real(engine, coll);
                            let t1 = clock.fetch_add(1, Ordering::SeqCst);
                            if let Err(e) = res {
                                return (times, Some(format!("{} failed: {}", m.api(coll.is_some()), e)));
                            }
                            times.push((t0, t1));
                            if !wait_for(progress.load(Ordering::SeqCst) + gap) {
                                break;
                            }
                        }
                        (times, None)
                    })
                })
                .collect();
            let mut_times: Vec<_> = mutators.into_iter().map(|h| h.join().unwrap_or_else(|_| (Vec::new(), Some("mutator thread panicked".into())))).collect();
            // let searches that begin after the last mutation returned be observed, too
            let _ = wait_for(progress.load(Ordering::SeqCst) + 3 * n_search as u64);
            stop.store(true, Ordering::SeqCst);
            let mut obs = Vec::new();
            let mut total = 0;
            for h in searchers {
                if let Ok((kept, n)) = h.join() {
                    obs.extend(kept);
                    total += n;
                }
            }
            progress.store(total, Ordering::SeqCst);
            (obs, mut_times)
        });
        cx.r.count("concurrent:searches_in_flight", progress.load(Ordering::SeqCst));
        if started.load(Ordering::SeqCst) < n_search as u64 || (stalled.load(Ordering::SeqCst) && obs.iter().all(|o| o.out.is_ok())) {
            cx.r.inconclusive("concurrent: searcher threads made no progress");
            return;
        }

        // ---- quiescent again: the model follows the mutations that were executed
        let mut states: Vec<Vec<Space>> = Vec::new();
        let mut first_api: Vec<Option<&'static str>> = Vec::new();
        for (si, slot) in slots.iter_mut().enumerate() {
            let (times, err) = &mut_times[si];
            if let Some(e) = err {
                cx.r.inconclusive(&format!("concurrent: {}", first_line(e)));
                return;
            }
            let coll = slot.coll.is_some();
            let mut st = vec![slot.space.clone()];
            for (m, (t0, t1)) in plans[si].iter().zip(times) {
                let api = m.api(coll);
                cx.log(format!("[{}] {} {} during ticks {}..{}", slot.cache_slot(), api, m.describe(), t0, t1));
                cx.r.count(&format!("op:{}", api), 1);
                m.apply_model(&mut slot.space, api);
                if matches!(m, CMut::Clear) && coll {
                    slot.created = false;
                    slot.metric = Metric::Cos;
                }
                st.push(slot.space.clone());
                let overlapped = obs.iter().filter(|o| o.s0 < *t1 && o.s1 > *t0).count();
                cx.r.count("concurrent:mutations_during_searches", 1);
                if overlapped > 0 {
                    cx.r.count("concurrent:mutations_overlapped_by_a_search", 1);
                }
            }
            first_api.push(plans[si].first().filter(|_| !times.is_empty()).map(|m| m.api(coll)));
            states.push(st);
        }
        cx.r.count("concurrent:rounds", 1);

        // ---- the searches recorded in flight
        let mut reported: BTreeSet<String> = BTreeSet::new();
        for o in &obs {
            cx.step += 1;
            let slot = &slots[o.slot];
            let times = &mut_times[o.slot].0;
            let st = &states[o.slot];
            let api = slot.search_api();
            // the collection's metric during this round (delete_collection is planned for cosine only)
            let metric = slot.metric;
            let q = &queries[o.qi].1;
            let a = times.iter().filter(|(_, t1)| *t1 < o.s0).count();
            let b = times.iter().filter(|(t0, _)| *t0 < o.s1).count();
            let n_same = st[a].data.values().filter(|e| e.v.len() == q.len()).count();
            cx.eval(n_same >= 2);
            cx.r.count("concurrent:inflight_judged", 1);
            let (ctx_sig, verdict): (String, Result<(), Bad>) = match &o.out {
                Err((panicked, msg)) => (
                    "any".into(),
                    Err(Bad { what: if *panicked { "panic".into() } else { format!("error-{}", msg.split(|c: char| !c.is_alphanumeric()).next().unwrap_or("")) }, detail: format!("{} k={} failed: {}", api, o.k, msg) }),
                ),
                Ok(res) => {
                    cx.r.count("concurrent:inflight_results", res.len() as u64);
                    if a == b && a == 0 {
                        cx.r.count("concurrent:inflight_before_first_mutation", 1);
                        ("index-fresh".into(), judge_common(res, &st[0], q, o.k, metric, None).map(|_| ()))
                    } else if a == b {
                        cx.r.count("concurrent:inflight_began_after_a_mutation_returned", 1);
                        (format!("after:{}", first_api[o.slot].unwrap_or("?")), judge_exact(res, &st[a], q, o.k, metric, None).map(|_| ()))
                    } else {
                        cx.r.count("concurrent:inflight_overlapping_a_mutation", 1);
                        if a > 0 {
                            cx.r.count("concurrent:inflight_began_after_a_mutation_returned", 1);
                        }
                        ("overlapping-mutation".into(), judge_overlap(res, &st[a..=b], &st[..a], q, o.k, metric))
                    }
                }
            };
            if let Err(bad) = verdict {
                let sig = format!("inflight:{}:{}:{}", api, ctx_sig, bad.what);
                if reported.insert(sig.clone()) {
                    cx.violation(
                        sig,
                        format!(
                            "{} (k={}, ticks {}..{}) while {} searcher threads and the mutator ran; mutations of this slot [{}] returned before the search began: {} of {}, called before it ended: {}; {}",
                            api,
                            o.k,
                            o.s0,
                            o.s1,
                            n_search,
                            slot.cache_slot(),
                            a,
                            times.len(),
                            b,
                            bad.detail
                        ),
                    );
                }
            }
        }

        // ---- sequential searches after the join: the model is stale (or fresh when nothing ran)
        for (si, slot) in slots.iter_mut().enumerate() {
            let n_post = 3 + rng.below(3);
            for j in 0..n_post {
                cx.step += 1;
                let q = if j < targeted[si].len() && rng.chance(3, 4) { targeted[si][rng.below(targeted[si].len())].clone() } else { gen_query(&mut rng, dim, &pool_of(&slot.space, dim)) };
                let k = *rng.pick(&[1usize, 3, 10, 20, 1000]);
                let (kind, cslot, metric, coll) = (slot.slot_kind(), slot.cache_slot(), slot.metric, slot.coll);
                cx.r.count("concurrent:searches_after_join", 1);
                if matches!(slot.space.cache, Cache::Stale(_)) {
                    cx.r.count("concurrent:searches_after_join_on_changed_data", 1);
                }
                if rng.chance(1, 4) {
                    let f = gen_filter(&mut rng, 0);
                    let cond = f.cond();
                    let fc = Some(FilteredSearchConfig::post_filter().with_oversample(1 + rng.below(4)));
                    let api: &'static str = if coll.is_some() { "search_filtered_in_collection[post]" } else { "search_similar_filtered[post]" };
                    judged_search(&mut cx, &engine, api, kind, cslot, &mut slot.space, true, &q, k, metric, Some(&f), true, &|| match coll {
                        None => engine.search_similar_filtered(&q, k, &cond, fc.clone()),
                        Some(c) => engine.search_filtered_in_collection(c, &q, k, &cond, fc.clone()),
                    });
                } else {
                    let api = slot.search_api();
                    judged_search(&mut cx, &engine, api, kind, cslot, &mut slot.space, true, &q, k, metric, None, false, &|| match coll {
                        None => engine.search_similar(&q, k),
                        Some(c) => engine.search_in_collection(c, &q, k),
                    });
                }
            }
        }
    }
    // the stored vectors still read back as written
    for slot in &slots {
        for (k, e) in &slot.space.data {
            match slot.coll {
                None => check_readback(&mut cx, "get_embedding", k, engine.get_embedding(k), &e.v),
                Some(c) => check_readback(&mut cx, "get_from_collection", k, engine.get_from_collection(c, k), &e.v),
            }
        }
    }
    cx.r.count("concurrent_programs", 1);
    if cx.r.want_sample() && rng.chance(1, 8) {
        let t: Vec<&String> = cx.trace.iter().take(8).collect();
        let s = json!({"part": "concurrent", "case_seed": case_seed, "first_operations": t});
        cx.r.sample(s);
    }
}

// ------------------------------------------------------------------------------------------------
// part `buildrace`: `build_and_cache_index` of the default collection running while another thread
// stores / overwrites / deletes. After both threads were joined the engine either holds no index, or
// one that reflects every mutation that had returned — so whatever it answers must satisfy the
// cached-index oracle over the *final* data (every returned key currently stored, true score of the
// current vector, no duplicates, best first, at most k). Completeness is demanded only when the
// tick brackets order the build entirely before the mutations (exhaustive oracle) — and nothing more
// than the cached-index oracle when the build came entirely after them or overlapped them.
// ------------------------------------------------------------------------------------------------

fn racing_build_api(m: &CMut) -> &'static str {
    match m {
        CMut::Store { meta: None, .. } => "store_embedding[racing-build_and_cache_index]",
        CMut::Store { meta: Some(_), .. } => "store_embedding_with_metadata[racing-build_and_cache_index]",
        CMut::BatchStore(_) => "batch_store_embeddings[racing-build_and_cache_index]",
        CMut::Delete(_) => "delete_embedding[racing-build_and_cache_index]",
        CMut::BatchDelete(_) => "batch_delete_embeddings[racing-build_and_cache_index]",
        CMut::Clear => "clear[racing-build_and_cache_index]",
    }
}

fn run_buildrace(case_seed: u64, r: &mut Report, verbose: bool) {
    use std::sync::atomic::{AtomicBool, AtomicU64, Ordering};
    let mut rng = Rng::new(case_seed ^ 0xB11D);
    let mut cx = Ctx { r, case_seed, part: "buildrace", trace: Vec::new(), verbose, step: 0 };
    let dim = *rng.pick(&[3usize, 4, 8, 8, 16, 24]);
    let n0 = 40 + rng.below(160);
    let cfg = {
        let mut c = VectorEngineConfig::default();
        c.sparse_threshold = *rng.pick(&[0.5f32, 0.5, 0.0, 1.0]);
        c
    };
    let engine = match VectorEngine::with_config(cfg) {
        Ok(e) => e,
        Err(e) => {
            cx.r.inconclusive(&format!("engine construction failed: {}", e));
            return;
        }
    };
    let mut slot = CSlot { coll: None, space: Space::new("emb:"), metric: Metric::Cos, created: false, next_key: 0 };
    let clock = AtomicU64::new(1);
    let rounds = 2 + rng.below(2);
    for round in 0..rounds {
        // ---- quiescent: refill; no index is cached
        let want = if round == 0 { n0 } else { 30 };
        while slot.space.data.len() < want {
            let key = format!("k{}", slot.next_key);
            slot.next_key += 1;
            let (v, _) = gen_vec(&mut rng, dim, &pool_of(&slot.space, dim));
            if !slot.store_quiescent(&engine, &key, v) {
                cx.r.inconclusive("buildrace: store of a valid vector failed");
                return;
            }
        }
        engine.invalidate_hnsw_cache("_default");
        slot.space.cache = Cache::Absent;
        let n_mut = 1 + rng.below(3);
        let plan = plan_mutations(&mut rng, &mut slot, dim, n_mut);
        // queries: the vectors the mutations remove / replace / add
        let mut targeted: Vec<Vec<f32>> = Vec::new();
        {
            let mut sim = slot.space.clone();
            for m in &plan {
                let keys: Vec<&String> = match m {
                    CMut::Store { key, .. } | CMut::Delete(key) => vec![key],
                    CMut::BatchStore(items) => items.iter().map(|(k, _)| k).collect(),
                    CMut::BatchDelete(ks) => ks.iter().collect(),
                    CMut::Clear => sim.data.keys().take(3).collect(),
                };
                for k in keys {
                    if let Some(e) = sim.data.get(k) {
                        targeted.push(e.v.clone());
                    }
                }
                if let CMut::Store { v, .. } = m {
                    targeted.push(v.clone());
                }
                m.apply_model(&mut sim, "plan");
            }
        }
        targeted.retain(|v| v.len() == dim && v.iter().any(|x| x.abs() >= 1e-3));
        let hcfg = hnsw_cfg(&mut rng, Metric::Cos);
        let spin = rng.below(4000);
        let go = AtomicBool::new(false);
        let (build, times, mut_err) = std::thread::scope(|sc| {
            let (engine, clock, go, plan) = (&engine, &clock, &go, &plan);
            let mutator = sc.spawn(move || {
                let t = Instant::now();
                while !go.load(Ordering::SeqCst) && t.elapsed().as_secs() < 60 {
                    std::thread::yield_now();
                }
                for _ in 0..spin {
                    std::hint::spin_loop();
                }
                let mut times = Vec::new();
                for m in plan {
                    let t0 = clock.fetch_add(1, Ordering::SeqCst);
                    let res = m.apply_real(engine, None);
                    let t1 = clock.fetch_add(1, Ordering::SeqCst);
                    if let Err(e) = res {
                        return (times, Some(format!("{} failed: {}", racing_build_api(m), e)));
                    }
                    times.push((t0, t1));
                }
                (times, None)
            });
            let builder = sc.spawn(move || {
                go.store(true, Ordering::SeqCst);
                let b0 = clock.fetch_add(1, Ordering::SeqCst);
                let res = catch_unwind(AssertUnwindSafe(|| engine.build_and_cache_index(hcfg)));
                let b1 = clock.fetch_add(1, Ordering::SeqCst);
                (b0, b1, res)
            });
            let b = builder.join().ok();
            let (times, err) = mutator.join().unwrap_or_else(|_| (Vec::new(), Some("mutator thread panicked".into())));
            (b, times, err)
        });
        if let Some(e) = mut_err {
            cx.r.inconclusive(&format!("buildrace: {}", first_line(&e)));
            return;
        }
        let Some((b0, b1, bres)) = build else {
            cx.r.inconclusive("buildrace: builder thread failed");
            return;
        };
        cx.r.count("op:build_and_cache_index[racing-mutations]", 1);
        let built = match bres {
            Err(p) => {
                cx.violation("build-race:build_and_cache_index:panic".into(), format!("build_and_cache_index panicked while another thread ran {:?}: {}", plan.iter().map(|m| m.describe()).collect::<Vec<_>>(), first_line(&panic_msg(&p))));
                false
            }
            // a vector that disappears between the key scan and its read makes the build fail: nothing is cached
            Ok(Err(e)) => {
                cx.log(format!("build_and_cache_index() -> Err({})", first_line(&e.to_string())));
                cx.r.count("buildrace:build_refused", 1);
                false
            }
            Ok(Ok(())) => true,
        };
        let all_before_build = times.last().map_or(true, |(_, t1)| *t1 < b0);
        let build_before_all = times.first().map_or(false, |(t0, _)| b1 < *t0);
        if built && build_before_all {
            slot.space.cache = Cache::Fresh; // the mutations below turn it stale in the model
        }
        for (m, (t0, t1)) in plan.iter().zip(&times) {
            let api = racing_build_api(m);
            cx.log(format!("{} {} during ticks {}..{} (build: {}..{})", api, m.describe(), t0, t1, b0, b1));
            cx.r.count(&format!("op:{}", api), 1);
            m.apply_model(&mut slot.space, api);
        }
        if built && all_before_build {
            slot.space.cache = Cache::Fresh;
        }
        let overlapping = built && !all_before_build && !build_before_all;
        cx.r.count("buildrace:rounds", 1);
        if overlapping {
            cx.r.count("buildrace:rounds_build_overlapped_a_mutation", 1);
        }
        let first_api = plan.first().map(racing_build_api).unwrap_or("?");
        let n_post = 3 + rng.below(3);
        for j in 0..n_post {
            cx.step += 1;
            let q = if !targeted.is_empty() && (j < targeted.len() || rng.bool()) { targeted[rng.below(targeted.len())].clone() } else { gen_query(&mut rng, dim, &pool_of(&slot.space, dim)) };
            let k = *rng.pick(&[1usize, 3, 10, 20, 1000]);
            if !overlapping {
                judged_search(&mut cx, &engine, "search_similar", "default", "_default", &mut slot.space, true, &q, k, Metric::Cos, None, false, &|| engine.search_similar(&q, k));
                continue;
            }
            // the index (if the engine kept one) was built while the data changed: only the
            // cached-index oracle over the final data is demanded
            cx.r.count("search:search_similar", 1);
            cx.r.count("buildrace:searches_judged_after_overlapping_build", 1);
            let n_same = slot.space.data.values().filter(|e| e.v.len() == q.len()).count();
            cx.eval(n_same >= 2);
            let out = catch_unwind(AssertUnwindSafe(|| engine.search_similar(&q, k)));
            let res = match out {
                Err(p) => {
                    cx.violation("build-race:search_similar:panic".into(), first_line(&panic_msg(&p)));
                    continue;
                }
                Ok(Err(e)) => {
                    cx.violation("build-race:search_similar:error".into(), format!("search_similar failed on a valid query: {}", e));
                    continue;
                }
                Ok(Ok(r)) => r,
            };
            cx.log(format!("search_similar k={} after build || mutations -> {}", k, fmt_res(&res)));
            cx.r.count("judged:cached-mode", 1);
            cx.r.count("cached-mode:results", res.len() as u64);
            if let Err(b) = judge_common(&res, &slot.space, &q, k, Metric::Cos, None) {
                // ask the real code: is it the cached index?
                engine.invalidate_hnsw_cache("_default");
                let again = catch_unwind(AssertUnwindSafe(|| engine.search_similar(&q, k)));
                let cured = matches!(&again, Ok(Ok(r2)) if judge_common(r2, &slot.space, &q, k, Metric::Cos, None).is_ok());
                let detail = format!(
                    "build_and_cache_index (ticks {}..{}) ran while another thread executed {:?} (ticks {:?}); after both had returned search_similar answered {} — {}: {}",
                    b0,
                    b1,
                    plan.iter().map(|m| m.describe()).collect::<Vec<_>>(),
                    times,
                    fmt_res(&res),
                    b.what,
                    b.detail
                );
                if cured {
                    // one signature: the cause is the build caching what it read, whichever API changed the data
                    cx.violation("stale-index:default:build_and_cache_index-overlapped-mutations".to_string(), format!("{}; first mutation: {}; after invalidate_hnsw_cache the same search is correct", detail, first_api));
                } else {
                    cx.violation(format!("build-race:search_similar:{}", b.what), detail);
                }
            }
        }
    }
    for (k, e) in &slot.space.data {
        check_readback(&mut cx, "get_embedding", k, engine.get_embedding(k), &e.v);
    }
    cx.r.count("buildrace_programs", 1);
}

// ------------------------------------------------------------------------------------------------
// part `partial`: operations that fail after part of their writes took effect, while an index is
// cached. One case = one engine with `max_dimension` set; each round builds and caches an index over
// the current vectors (quiescent, one search through it), issues ONE failing operation, brings the
// model in line with what the engine holds now (`resync_after_error`) and judges searches exactly as
// part `program` does: when a key's vector changed, the model's cache state is Stale(<api>[failed]),
// the oracle is the exhaustive one and a failure cured by `invalidate_hnsw_cache` is a stale index.
// ------------------------------------------------------------------------------------------------

fn run_partial(case_seed: u64, r: &mut Report, verbose: bool, scratch_base: &std::path::Path) {
    let mut rng = Rng::new(case_seed ^ 0xFA11ED);
    let mut cx = Ctx { r, case_seed, part: "partial", trace: Vec::new(), verbose, step: 0 };
    let dim = *rng.pick(&[2usize, 3, 4, 8, 8, 16, 24]);
    let max_dim = dim + rng.below(3);
    let cfg = {
        let mut c = VectorEngineConfig::default();
        c.sparse_threshold = *rng.pick(&[0.5f32, 0.5, 0.0, 0.3, 1.0]);
        c.parallel_threshold = *rng.pick(&[5000usize, 5000, 4]);
        c.batch_parallel_threshold = *rng.pick(&[100usize, 100, 2, 4, 8]);
        c.max_dimension = Some(max_dim);
        c
    };
    let batch_parallel_threshold = cfg.batch_parallel_threshold;
    cx.log(format!("case: dim={} max_dimension={} sparse_threshold={} batch_parallel_threshold={}", dim, max_dim, cfg.sparse_threshold, batch_parallel_threshold));
    let engine = match VectorEngine::with_config(cfg) {
        Ok(e) => e,
        Err(e) => {
            cx.r.inconclusive(&format!("engine construction failed: {}", e));
            return;
        }
    };
    let mut def = Space::new("emb:");
    let mut next_key = 0usize;
    let n0 = 4 + rng.below(40);
    let mut scratch: Option<Scratch> = None;
    let rounds = 2 + rng.below(3);
    for round in 0..rounds {
        // ---- quiescent: refill, build + cache, one search through the fresh index
        let want = if round == 0 { n0 } else { 6 };
        while def.data.len() < want {
            let key = format!("k{}", next_key);
            next_key += 1;
            let (v, _) = gen_vec(&mut rng, dim, &pool_of(&def, dim));
            let meta = if rng.chance(1, 3) { gen_meta(&mut rng) } else { Md::new() };
            let res = if meta.is_empty() { engine.store_embedding(&key, v.clone()) } else { engine.store_embedding_with_metadata(&key, v.clone(), meta_to_engine(&meta)) };
            if res.is_err() {
                cx.r.inconclusive("partial: store of a valid vector failed");
                return;
            }
            def.put(&key, v, meta, "store_embedding");
        }
        let built = engine.build_and_cache_index(hnsw_cfg(&mut rng, Metric::Cos));
        cx.log(format!("build_and_cache_index() over {} vectors -> {:?}", def.data.len(), built.as_ref().err()));
        if built.is_err() {
            cx.r.inconclusive("partial: build_and_cache_index failed");
            return;
        }
        def.cache = Cache::Fresh;
        {
            cx.step += 1;
            let q = gen_query(&mut rng, dim, &pool_of(&def, dim));
            let k = 1 + rng.below(20);
            judged_search(&mut cx, &engine, "search_similar", "default", "_default", &mut def, true, &q, k, Metric::Cos, None, false, &|| engine.search_similar(&q, k));
        }

        // ---- one failing operation
        let keys: Vec<String> = def.data.keys().cloned().collect();
        let over = |rng: &mut Rng| -> Vec<f32> { (0..max_dim + 1 + rng.below(4)).map(|_| rng.f64_in(-1.0, 1.0) as f32).collect() };
        // elements of a multi-key operation: existing keys (overwritten) and new ones, unique
        let gen_items = |rng: &mut Rng, next_key: &mut usize, n: usize, def: &Space| -> Vec<(String, Vec<f32>)> {
            let mut items: Vec<(String, Vec<f32>)> = Vec::new();
            for _ in 0..n {
                let key = if rng.chance(3, 5) {
                    rng.pick(&keys).clone()
                } else {
                    *next_key += 1;
                    format!("k{}", *next_key - 1)
                };
                if items.iter().any(|(k, _)| *k == key) {
                    continue;
                }
                // mostly a vector unlike the stored ones, so that an overwrite changes the ranking
                let v = if rng.chance(1, 6) { gen_vec(rng, dim, &pool_of(def, dim)).0 } else { gen_vec(rng, dim, &[]).0 };
                items.push((key, v));
            }
            items
        };
        let kind = rng.weighted(&[50, 18, 8, 8, 8, 8]);
        let (api, attempted): (&'static str, Vec<(String, Vec<f32>)>) = match kind {
            0 | 5 => {
                // a batch with one element longer than max_dimension (kind 5: two of them)
                let n = 1 + rng.below(11);
                let mut items = gen_items(&mut rng, &mut next_key, n, &def);
                let pos = if rng.bool() { items.len() } else { rng.below(items.len() + 1) };
                next_key += 1;
                items.insert(pos, (format!("k{}", next_key - 1), over(&mut rng)));
                if kind == 5 {
                    let pos = rng.below(items.len() + 1);
                    next_key += 1;
                    items.insert(pos, (format!("k{}", next_key - 1), over(&mut rng)));
                }
                if items.len() >= batch_parallel_threshold {
                    cx.r.count("partial:batches_in_the_rayon_branch", 1);
                } else {
                    cx.r.count("partial:batches_in_the_sequential_branch", 1);
                }
                let res = engine.batch_store_embeddings(items.iter().map(|(k, v)| EmbeddingInput::new(k.clone(), v.clone())).collect());
                cx.log(format!("batch_store_embeddings({:?}) -> {:?}", items.iter().map(|(k, v)| (k.as_str(), v.len())).collect::<Vec<_>>(), res.as_ref().map(|b| b.stored_keys.len()).map_err(|e| first_line(&e.to_string()))));
                if res.is_ok() {
                    cx.r.inconclusive("a vector longer than max_dimension was accepted");
                    return;
                }
                ("batch_store_embeddings[failed]", items)
            }
            1 => {
                // a file written by an engine without the limit, holding one entry that is too long
                if scratch.is_none() {
                    scratch = Some(Scratch::new(scratch_base, "c06p"));
                }
                let donor = VectorEngine::new();
                let n = 1 + rng.below(8);
                let mut items = gen_items(&mut rng, &mut next_key, n, &def);
                next_key += 1;
                items.push((format!("k{}", next_key - 1), over(&mut rng)));
                for (k, v) in &items {
                    let m = if rng.chance(1, 3) { gen_meta(&mut rng) } else { Md::new() };
                    if donor.store_embedding_with_metadata(k, v.clone(), meta_to_engine(&m)).is_err() {
                        cx.r.inconclusive("partial: donor engine refused a vector");
                        return;
                    }
                }
                let binary = rng.bool();
                let path = scratch.as_ref().unwrap().join(&format!("donor{}.{}", round, if binary { "bin" } else { "json" }));
                let saved = if binary { donor.save_index_binary(VectorEngine::DEFAULT_COLLECTION, &path) } else { donor.save_index(VectorEngine::DEFAULT_COLLECTION, &path) };
                if saved.is_err() {
                    cx.r.inconclusive("partial: donor engine could not save its index");
                    return;
                }
                let res = if binary { engine.load_index_binary(&path) } else { engine.load_index(&path) };
                cx.log(format!("load_index{}(file of another engine: {:?}) -> {:?}", if binary { "_binary" } else { "" }, items.iter().map(|(k, v)| (k.as_str(), v.len())).collect::<Vec<_>>(), res.as_ref().map_err(|e| first_line(&e.to_string()))));
                if res.is_ok() {
                    cx.r.inconclusive("a vector longer than max_dimension was accepted");
                    return;
                }
                ("load_index[failed]", items)
            }
            2 | 3 => {
                // a single store that is refused
                let key = rng.pick(&keys).clone();
                let v = over(&mut rng);
                let (res, api): (_, &'static str) = if kind == 2 {
                    (engine.store_embedding(&key, v.clone()), "store_embedding[failed]")
                } else {
                    (engine.store_embedding_with_metadata(&key, v.clone(), meta_to_engine(&gen_meta(&mut rng))), "store_embedding_with_metadata[failed]")
                };
                cx.log(format!("{}({:?}, dim {}) -> {:?}", api, key, v.len(), res.as_ref().err().map(|e| first_line(&e.to_string()))));
                if res.is_ok() {
                    cx.r.inconclusive("a vector longer than max_dimension was accepted");
                    return;
                }
                (api, vec![(key, v)])
            }
            _ => {
                // a batch refused by the up-front validation (an empty vector somewhere)
                let n = 1 + rng.below(6);
                let mut items = gen_items(&mut rng, &mut next_key, n, &def);
                let pos = rng.below(items.len() + 1);
                next_key += 1;
                items.insert(pos, (format!("k{}", next_key - 1), Vec::new()));
                let res = engine.batch_store_embeddings(items.iter().map(|(k, v)| EmbeddingInput::new(k.clone(), v.clone())).collect());
                cx.log(format!("batch_store_embeddings({:?}) -> {:?}", items.iter().map(|(k, v)| (k.as_str(), v.len())).collect::<Vec<_>>(), res.as_ref().map(|b| b.stored_keys.len()).map_err(|e| first_line(&e.to_string()))));
                if res.is_ok() {
                    cx.violation("store:batch_store_embeddings:accepted-empty-vector".into(), "batch with an empty vector was accepted".into());
                    return;
                }
                ("batch_store_embeddings[failed]", items)
            }
        };
        cx.r.count("partial:failed_ops", 1);
        cx.r.count(&format!("op:{}", api), 1);
        // the vectors the operation touched, before and after: the queries that tell the states apart
        let mut targeted: Vec<Vec<f32>> = Vec::new();
        for (k, v) in &attempted {
            if let Some(e) = def.data.get(k) {
                targeted.push(e.v.clone());
            }
            targeted.push(v.clone());
        }
        targeted.retain(|v| v.len() == dim && v.iter().any(|x| x.abs() >= 1e-3));
        let changed = resync_after_error(&mut cx, &engine, None, &mut def, api, &attempted);
        if changed > 0 {
            cx.r.count("partial:failed_ops_with_partial_effect", 1);
        }

        // ---- searches after the failed operation
        let n_post = 3 + rng.below(3);
        for j in 0..n_post {
            cx.step += 1;
            let q = if !targeted.is_empty() && (j < 2 || rng.bool()) { targeted[rng.below(targeted.len())].clone() } else { gen_query(&mut rng, dim, &pool_of(&def, dim)) };
            let k = *rng.pick(&[1usize, 3, 10, def.data.len() + 5, 1000]);
            cx.r.count("partial:searches_after_failed_op", 1);
            if matches!(def.cache, Cache::Stale(_)) {
                cx.r.count("partial:searches_after_partially_applied_op_with_index_cached_before", 1);
            }
            if rng.chance(1, 4) {
                let f = gen_filter(&mut rng, 0);
                let cond = f.cond();
                let fc = Some(FilteredSearchConfig::post_filter().with_oversample(1 + rng.below(4)));
                judged_search(&mut cx, &engine, "search_similar_filtered[post]", "default", "_default", &mut def, true, &q, k, Metric::Cos, Some(&f), true, &|| engine.search_similar_filtered(&q, k, &cond, fc.clone()));
            } else {
                judged_search(&mut cx, &engine, "search_similar", "default", "_default", &mut def, true, &q, k, Metric::Cos, None, false, &|| engine.search_similar(&q, k));
            }
        }
    }
    for (k, e) in &def.data {
        check_readback(&mut cx, "get_embedding", k, engine.get_embedding(k), &e.v);
    }
    cx.r.count("partial_programs", 1);
    if cx.r.want_sample() && rng.chance(1, 8) {
        let t: Vec<&String> = cx.trace.iter().take(8).collect();
        let s = json!({"part": "partial", "case_seed": case_seed, "first_operations": t});
        cx.r.sample(s);
    }
}

// ------------------------------------------------------------------------------------------------
// part `bigk`: every search API with k (and ef) far above the number of stored vectors. The cases
// run in child processes (see the header); `run_bigk_case` is what a child executes per case.
// ------------------------------------------------------------------------------------------------

const HUGE_KS: [usize; 15] = [
    usize::MAX,
    usize::MAX - 1,
    usize::MAX / 2,
    (usize::MAX / 2) + 1,
    usize::MAX / 16,
    1 << 60,
    1 << 59,
    1 << 40,
    (1 << 32) + 1,
    1 << 32,
    u32::MAX as usize,
    1 << 31,
    // large, but harmless even for code that sizes a buffer from it
    1_000_000,
    100_000,
    65_537,
];

/// `extreme_only`: values from 2^59 up, where a request for a buffer of k elements is refused with a
/// panic (capacity overflow) that `catch_unwind` sees; otherwise the whole list
fn pick_huge(rng: &mut Rng, extreme_only: bool) -> usize {
    if rng.chance(1, 4) {
        usize::MAX
    } else if extreme_only {
        *rng.pick(&HUGE_KS[..7])
    } else {
        *rng.pick(&HUGE_KS)
    }
}

/// `search_with_hnsw` on an index built just before: cached-index oracle
fn judged_explicit(cx: &mut Ctx, engine: &VectorEngine, index: &HNSWIndex, mapping: &[String], space: &Space, q: &[f32], k: usize, m: Metric) {
    let api = "search_with_hnsw";
    cx.r.count("search:search_with_hnsw", 1);
    if k >= HUGE {
        cx.r.count("huge-k:search_with_hnsw", 1);
    }
    progress("calling", cx.case_seed, api, k);
    let out = catch_unwind(AssertUnwindSafe(|| engine.search_with_hnsw(index, mapping, q, k)));
    progress("returned", cx.case_seed, api, k);
    let n_same = space.data.values().filter(|e| e.v.len() == q.len()).count();
    cx.eval(n_same >= 2);
    match out {
        Err(p) => cx.violation("cached:search_with_hnsw:panic".into(), format!("search_with_hnsw panicked: {} (k={}, {} indexed vectors)", first_line(&panic_msg(&p)), k, mapping.len())),
        Ok(Err(e)) => cx.violation("error:search_with_hnsw".into(), format!("search_with_hnsw failed on a valid query: {} (k={})", e, k)),
        Ok(Ok(res)) => {
            cx.log(format!("search_with_hnsw[{}] k={} over {} nodes -> {}", m.name(), k, mapping.len(), fmt_res(&res)));
            cx.r.count("judged:cached-mode", 1);
            cx.r.count("cached-mode:results", res.len() as u64);
            if let Err(b) = judge_common(&res, space, q, k, m, None) {
                cx.violation(format!("cached:search_with_hnsw:{}", b.what), format!("index just built ({} metric), k={}; {}", m.name(), k, b.detail));
            }
        }
    }
}

/// `HNSWIndex::search` / `search_with_ef` on an index the case filled itself; node id i is reported
/// under the key "n<i>" of `space`: cached-index oracle (ids indexed, true scores, no duplicates,
/// best first, at most k)
fn judged_direct(cx: &mut Ctx, index: &HNSWIndex, space: &Space, q: &[f32], k: usize, ef: Option<usize>, m: Metric) {
    let api = if ef.is_some() { "HNSWIndex::search_with_ef" } else { "HNSWIndex::search" };
    cx.r.count(&format!("search:{}", api), 1);
    if k >= HUGE || ef.map_or(false, |e| e >= HUGE) {
        cx.r.count(&format!("huge-k:{}", api), 1);
    }
    progress("calling", cx.case_seed, api, k.max(ef.unwrap_or(0)));
    let out = catch_unwind(AssertUnwindSafe(|| match ef {
        None => index.search(q, k),
        Some(e) => index.search_with_ef(q, k, e),
    }));
    progress("returned", cx.case_seed, api, k.max(ef.unwrap_or(0)));
    cx.eval(space.data.len() >= 2);
    let short_api = if ef.is_some() { "search_with_ef" } else { "search" };
    match out {
        Err(p) => cx.violation(format!("hnsw:{}:panic", short_api), format!("{} panicked: {} (k={}, ef={:?}, {} indexed vectors)", api, first_line(&panic_msg(&p)), k, ef, space.data.len())),
        Ok(ids) => {
            let res: Vec<SearchResult> = ids.iter().map(|(id, s)| SearchResult::new(format!("n{}", id), *s)).collect();
            cx.log(format!("{}[{}] k={} ef={:?} over {} nodes -> {}", api, m.name(), k, ef, space.data.len(), fmt_res(&res)));
            cx.r.count("judged:cached-mode", 1);
            cx.r.count("cached-mode:results", res.len() as u64);
            if let Err(b) = judge_common(&res, space, q, k, m, None) {
                cx.violation(format!("hnsw:{}:{}", short_api, b.what), format!("{} on an index of {} vectors ({} metric), k={}, ef={:?}; {}", api, space.data.len(), m.name(), k, ef, b.detail));
            }
        }
    }
}

/// Every case seed is executed twice: with the values from 2^59 up only (whatever panics there is
/// reported by the usual oracles), then with the whole list (where the process may be killed).
fn run_bigk_case(case_seed: u64, r: &mut Report, verbose: bool, extreme_only: bool) {
    let mut rng = Rng::new(case_seed ^ 0xB16C);
    let mut cx = Ctx { r, case_seed, part: "bigk", trace: Vec::new(), verbose, step: 0 };
    let dim = *rng.pick(&[2usize, 3, 4, 8, 16]);
    let n = 1 + rng.below(50);
    let cfg = {
        let mut c = VectorEngineConfig::default();
        c.sparse_threshold = *rng.pick(&[0.5f32, 0.5, 0.0, 1.0]);
        c.parallel_threshold = *rng.pick(&[5000usize, 5000, 4]);
        c
    };
    let engine = match VectorEngine::with_config(cfg) {
        Ok(e) => e,
        Err(e) => {
            cx.r.inconclusive(&format!("engine construction failed: {}", e));
            return;
        }
    };
    let mut def = Space::new("emb:");
    let mixed = rng.chance(1, 6);
    for i in 0..n {
        let d = if mixed && rng.chance(1, 4) { dim + 1 } else { dim };
        let (v, _) = gen_vec(&mut rng, d, &pool_of(&def, d));
        let meta = if rng.chance(1, 2) { gen_meta(&mut rng) } else { Md::new() };
        let key = format!("v{}", i);
        let res = if meta.is_empty() { engine.store_embedding(&key, v.clone()) } else { engine.store_embedding_with_metadata(&key, v.clone(), meta_to_engine(&meta)) };
        if res.is_err() {
            cx.r.inconclusive("bigk: store of a valid vector failed");
            return;
        }
        def.put(&key, v, meta, "store_embedding");
    }
    let cmetric = *rng.pick(&[Metric::Cos, Metric::Cos, Metric::Euc, Metric::Dot]);
    if (cmetric != Metric::Cos || rng.bool()) && engine.create_collection("bk", VectorCollectionConfig::default().with_metric(cmetric.engine())).is_err() {
        cx.r.inconclusive("bigk: create_collection failed");
        return;
    }
    let mut named = Space::new("coll:bk:emb:");
    let m = 1 + rng.below(30);
    for i in 0..m {
        let (v, _) = gen_vec(&mut rng, dim, &pool_of(&named, dim));
        let meta = if rng.chance(1, 2) { gen_meta(&mut rng) } else { Md::new() };
        let key = format!("c{}", i);
        if engine.store_in_collection_with_metadata("bk", &key, v.clone(), meta_to_engine(&meta)).is_err() {
            cx.r.inconclusive("bigk: store_in_collection of a valid vector failed");
            return;
        }
        named.put(&key, v, meta, "store_in_collection_with_metadata");
    }
    cx.log(format!("case: dim={} default collection {} vectors{}, collection bk {} vectors ({})", dim, n, if mixed { " (mixed dimensions)" } else { "" }, m, cmetric.name()));

    // the searches of the engine's own collections; judged in the mode the model's cache state allows
    let engine_searches = |cx: &mut Ctx, rng: &mut Rng, def: &mut Space, named: &mut Space, rounds: usize| {
        for _ in 0..rounds {
            for which in 0..7 {
                cx.step += 1;
                let k = pick_huge(rng, extreme_only);
                let space: &Space = if which < 4 { &*def } else { &*named };
                let q = gen_query(rng, dim, &pool_of(space, dim));
                let f = if rng.chance(1, 3) { F::True } else { gen_filter(rng, 0) };
                let cond = f.cond();
                let (fc, strat) = match rng.below(4) {
                    0 => (None, FilterStrategy::Auto),
                    1 => (Some(FilteredSearchConfig::pre_filter()), FilterStrategy::PreFilter),
                    2 => (Some(FilteredSearchConfig::post_filter().with_oversample(1 + rng.below(4))), FilterStrategy::PostFilter),
                    _ => (Some(FilteredSearchConfig::default()), FilterStrategy::Auto),
                };
                let uses_cache = strat != FilterStrategy::PreFilter;
                match which {
                    0 | 1 => judged_search(cx, &engine, "search_similar", "default", "_default", def, true, &q, k, Metric::Cos, None, false, &|| engine.search_similar(&q, k)),
                    2 => {
                        let mm = *rng.pick(&[Metric::Cos, Metric::Euc, Metric::Dot]);
                        judged_search(cx, &engine, "search_similar_with_metric", "default", "_default", def, false, &q, k, mm, None, false, &|| engine.search_similar_with_metric(&q, k, mm.engine()));
                    }
                    3 => {
                        let api: &'static str = match strat {
                            FilterStrategy::PreFilter => "search_similar_filtered[pre]",
                            FilterStrategy::PostFilter => "search_similar_filtered[post]",
                            FilterStrategy::Auto => "search_similar_filtered[auto]",
                        };
                        judged_search(cx, &engine, api, "default", "_default", def, uses_cache, &q, k, Metric::Cos, Some(&f), uses_cache, &|| engine.search_similar_filtered(&q, k, &cond, fc.clone()));
                    }
                    4 | 5 => judged_search(cx, &engine, "search_in_collection", "collection", "bk", named, true, &q, k, cmetric, None, false, &|| engine.search_in_collection("bk", &q, k)),
                    _ => {
                        let api: &'static str = match strat {
                            FilterStrategy::PreFilter => "search_filtered_in_collection[pre]",
                            FilterStrategy::PostFilter => "search_filtered_in_collection[post]",
                            FilterStrategy::Auto => "search_filtered_in_collection[auto]",
                        };
                        judged_search(cx, &engine, api, "collection", "bk", named, uses_cache, &q, k, cmetric, Some(&f), uses_cache, &|| engine.search_filtered_in_collection("bk", &q, k, &cond, fc.clone()));
                    }
                }
            }
        }
    };

    // ---- phase A: no index anywhere (exhaustive oracle: all stored vectors of the dimension, ranked)
    engine_searches(&mut cx, &mut rng, &mut def, &mut named, 1);

    // ---- phase B: indexes cached for both collections, data unchanged since
    let same_dim = !mixed || def.dims().len() == 1;
    if same_dim {
        let built = engine.build_and_cache_index(hnsw_cfg(&mut rng, Metric::Cos));
        cx.log(format!("build_and_cache_index() -> {:?}", built.as_ref().err()));
        if built.is_ok() {
            def.cache = Cache::Fresh;
        }
    }
    {
        let keys = engine.list_collection_keys("bk");
        let mut vecs = Vec::new();
        for k in &keys {
            if let Ok(v) = engine.get_from_collection("bk", k) {
                vecs.push(v);
            }
        }
        if vecs.len() == keys.len() && !keys.is_empty() {
            let index = HNSWIndex::with_config(hnsw_cfg(&mut rng, cmetric));
            for v in vecs {
                index.insert(v);
            }
            let mapping: Vec<String> = keys.iter().map(|k| format!("coll:bk:emb:{}", k)).collect();
            engine.cache_hnsw_index("bk", Arc::new(index), mapping);
            named.cache = Cache::Fresh;
            cx.log(format!("cache_hnsw_index(bk, {} keys, metric {})", keys.len(), cmetric.name()));
        }
    }
    engine_searches(&mut cx, &mut rng, &mut def, &mut named, 2);

    // ---- phase C: explicit index, used immediately
    if same_dim {
        let hm = *rng.pick(&[Metric::Cos, Metric::Cos, Metric::Euc, Metric::Dot]);
        let storage = if rng.bool() { HNSWStorageStrategy::Dense } else { HNSWStorageStrategy::Auto };
        match engine.build_hnsw_index_with_options(HNSWBuildOptions { storage, hnsw_config: hnsw_cfg(&mut rng, hm) }) {
            Err(e) => cx.log(format!("build_hnsw_index_with_options -> {}", e)),
            Ok((index, mapping)) => {
                for _ in 0..3 {
                    cx.step += 1;
                    let q = gen_query(&mut rng, dim, &pool_of(&def, dim));
                    judged_explicit(&mut cx, &engine, &index, &mapping, &def, &q, pick_huge(&mut rng, extreme_only), hm);
                    cx.step += 1;
                    let xm = gen_xm(&mut rng);
                    judged_rerank(&mut cx, &engine, &index, &mapping, &def, &q, pick_huge(&mut rng, extreme_only), &xm);
                }
            }
        }
    }

    // ---- phase D: HNSWIndex::search / search_with_ef directly (k and ef)
    {
        let hm = *rng.pick(&[Metric::Cos, Metric::Cos, Metric::Euc, Metric::Dot]);
        let index = HNSWIndex::with_config(hnsw_cfg(&mut rng, hm));
        let mut direct = Space::new("hnsw-node:");
        for e in def.data.values().filter(|e| e.v.len() == dim) {
            let id = index.insert(e.v.clone());
            direct.data.insert(format!("n{}", id), Entry { v: e.v.clone(), meta: Md::new() });
        }
        if !direct.data.is_empty() {
            for _ in 0..3 {
                cx.step += 1;
                let q = gen_query(&mut rng, dim, &pool_of(&direct, dim));
                judged_direct(&mut cx, &index, &direct, &q, pick_huge(&mut rng, extreme_only), None, hm);
                cx.step += 1;
                let small = |rng: &mut Rng| *rng.pick(&[0usize, 1, 2, 10, 200]);
                let (k, ef) = match rng.below(3) {
                    0 => (1 + small(&mut rng), pick_huge(&mut rng, extreme_only)),
                    1 => (pick_huge(&mut rng, extreme_only), small(&mut rng)),
                    _ => (pick_huge(&mut rng, extreme_only), pick_huge(&mut rng, extreme_only)),
                };
                judged_direct(&mut cx, &index, &direct, &q, k, Some(ef), hm);
            }
        }
    }
    cx.r.count("bigk_programs", 1);
    cx.r.count(if extreme_only { "bigk_programs:k-from-2^59-up" } else { "bigk_programs:all-k" }, 1);
    if cx.r.want_sample() && rng.chance(1, 8) {
        let t: Vec<&String> = cx.trace.iter().take(8).collect();
        let s = json!({"part": "bigk", "case_seed": case_seed, "first_operations": t});
        cx.r.sample(s);
    }
}

/// child process: cases `first..first+count` of the base seed (or the single case seed when `count`
/// is 0); the report is rewritten after every case so that what was observed survives a kill
fn child_bigk(rest: &[String]) {
    quiet_panics();
    let p = |i: usize| rest.get(i).cloned().unwrap_or_default();
    let out = std::path::PathBuf::from(p(1));
    let _ = PROGRESS.set(std::path::PathBuf::from(p(2)));
    let base: u64 = p(3).parse().unwrap_or(1);
    let first: u64 = p(4).parse().unwrap_or(0);
    let count: u64 = p(5).parse().unwrap_or(0);
    let verbose = p(6) == "verbose";
    let mut rep = Report::new();
    let seeds: Vec<u64> = if count == 0 { vec![base] } else { (first..first + count).map(|i| case_seed(base, i)).collect() };
    for s in seeds {
        for extreme_only in [true, false] {
            progress("between-cases", s, "-", 0);
            guarded("bigk", s, &mut rep, |r| run_bigk_case(s, r, verbose, extreme_only));
            rep.count("cases", 1);
            let tmp = out.with_extension("tmp");
            if std::fs::write(&tmp, serde_json::to_string(&rep.to_json_with_hashes()).unwrap_or_default()).is_ok() {
                let _ = std::fs::rename(&tmp, &out);
            }
        }
    }
    progress("finished", 0, "-", 0);
}

/// parent: run `children` child processes over `n_cases` cases (or one child for one case seed when
/// `single` is given) and merge what they observed
fn run_bigk_children(exe: &std::path::Path, scratch: &Scratch, base: u64, n_cases: u64, children: u64, single: Option<u64>, verbose: bool, wait_s: u64, total: &mut Report) {
    use std::os::unix::process::ExitStatusExt;
    use std::process::{Command, Stdio};
    let children = if single.is_some() { 1 } else { children.max(1) };
    let per = (n_cases + children - 1) / children;
    let reports: Vec<Report> = std::thread::scope(|sc| {
        let hs: Vec<_> = (0..children)
            .map(|c| {
                sc.spawn(move || {
                    let mut r = Report::new();
                    let out = scratch.join(&format!("bigk-{}.json", c));
                    let prog = scratch.join(&format!("bigk-{}.progress", c));
                    let (b, first, count) = match single {
                        Some(s) => (s, 0, 0),
                        None => (base, c * per, per.min(n_cases.saturating_sub(c * per))),
                    };
                    if single.is_none() && count == 0 {
                        return r;
                    }
                    let script = format!(
                        "ulimit -v 4000000; exec \"{}\" child-bigk \"{}\" \"{}\" {} {} {} {}",
                        exe.display(),
                        out.display(),
                        prog.display(),
                        b,
                        first,
                        count,
                        if verbose { "verbose" } else { "quiet" }
                    );
                    let mut child = match Command::new("sh").arg("-c").arg(&script).stdout(Stdio::null()).stderr(if verbose { Stdio::inherit() } else { Stdio::null() }).spawn() {
                        Ok(c) => c,
                        Err(_) => {
                            r.inconclusive("bigk: child process could not be started");
                            return r;
                        }
                    };
                    let t0 = Instant::now();
                    let status = loop {
                        match child.try_wait() {
                            Ok(Some(s)) => break Some(s),
                            Ok(None) => {
                                if t0.elapsed().as_secs() > wait_s {
                                    let _ = child.kill();
                                    let _ = child.wait();
                                    break None;
                                }
                                std::thread::sleep(std::time::Duration::from_millis(10));
                            }
                            Err(_) => break None,
                        }
                    };
                    // what the child observed (complete cases only)
                    if let Ok(s) = std::fs::read_to_string(&out) {
                        if let Ok(v) = serde_json::from_str::<Value>(&s) {
                            r.merge(Report::from_json(&v));
                        }
                    }
                    r.count("bigk:child_processes", 1);
                    let Some(status) = status else {
                        r.inconclusive("bigk: child process did not finish in time");
                        return r;
                    };
                    let last = std::fs::read_to_string(&prog).unwrap_or_default();
                    let f: Vec<&str> = last.split('\t').collect();
                    if status.success() && f.first() == Some(&"finished") {
                        r.count("bigk:child_processes_completed", 1);
                        return r;
                    }
                    if f.len() == 4 && f[0] == "calling" {
                        let cs: u64 = f[1].parse().unwrap_or(0);
                        r.violation(
                            format!("huge-k:{}:process-killed", f[2]),
                            format!(
                                "{} with k (ef) = {} over at most 50 stored vectors did not return: the process ended with exit code {:?} / signal {:?} under a 4 GB address-space limit (an allocation sized from k aborts instead of unwinding)",
                                f[2],
                                f[3],
                                status.code(),
                                status.signal()
                            ),
                            json!({"part": "bigk", "case_seed": cs}),
                        );
                    } else {
                        r.inconclusive(&format!("bigk: child process ended abnormally outside a search (exit code {:?}, signal {:?}, last record {:?})", status.code(), status.signal(), f.first()));
                    }
                    r
                })
            })
            .collect();
        hs.into_iter().map(|h| h.join().unwrap_or_else(|_| Report::new())).collect()
    });
    for r in reports {
        total.merge(r);
    }
}

// ------------------------------------------------------------------------------------------------
// `--probe 1`: the minimal witnesses of the defects this monitor found, run against the real code
// ------------------------------------------------------------------------------------------------

fn probe_build_race() {
    // build_and_cache_index racing with overwrites: thread B replaces every vector v_i by -v_i while
    // thread A builds. Once both have returned every key holds -v_i, yet search_similar(v_i) keeps
    // reporting k_i with score 1.0 for the keys that A had read before B replaced them.
    let rounds = 50;
    let mut stale_rounds = 0;
    let mut example = String::new();
    for round in 0..rounds {
        let e = VectorEngine::new();
        let vec_of = |i: usize| -> Vec<f32> { (0..8).map(|j| (((i + 1) * (j + 2) * 37 + round * 11 + i * i * (j + 1)) % 101) as f32 - 50.3).collect() };
        for i in 0..200 {
            e.store_embedding(&format!("k{}", i), vec_of(i)).unwrap();
        }
        std::thread::scope(|s| {
            s.spawn(|| e.build_and_cache_index(HNSWConfig::default()).unwrap());
            s.spawn(|| {
                for i in 0..200 {
                    e.store_embedding(&format!("k{}", i), vec_of(i).iter().map(|x| -x).collect()).unwrap();
                }
            });
        });
        // both threads have returned: no vector v_i is stored any more
        let mut stale_keys = 0;
        for i in 0..200 {
            let key = format!("k{}", i);
            let top = e.search_similar(&vec_of(i), 3).unwrap();
            if top.iter().any(|r| r.key == key && r.score > 0.9) {
                stale_keys += 1;
                if example.is_empty() {
                    example = format!("search_similar(v_{}, 3) -> {} although {} now holds -v_{} (true score -1)", i, fmt_res(&top), key, i);
                }
            }
        }
        if stale_keys > 0 {
            stale_rounds += 1;
        }
    }
    println!("10 build_and_cache_index() || overwrite every k_i with -v_i; join: the old score of some key is still reported in {} of {} rounds; e.g. {}", stale_rounds, rounds, example);
}

fn probes() {
    let show = |r: vector_engine::Result<Vec<SearchResult>>| match r {
        Ok(v) => fmt_res(&v),
        Err(e) => format!("Err({})", e),
    };
    let base = || {
        let e = VectorEngine::new();
        e.store_embedding("a", vec![1.0, 0.0, 0.0]).unwrap();
        e.store_embedding("b", vec![0.0, 1.0, 0.0]).unwrap();
        e.store_embedding("c", vec![0.0, 0.0, 1.0]).unwrap();
        e.build_and_cache_index(HNSWConfig::default()).unwrap();
        e
    };
    let q = [1.0f32, 0.1, 0.0];
    {
        let e = base();
        e.batch_delete_embeddings(vec!["a".into()]).unwrap();
        println!("1 build; batch_delete_embeddings([a]); search_similar -> {}   (a is deleted)", show(e.search_similar(&q, 3)));
    }
    {
        let e = base();
        e.clear().unwrap();
        println!("2 build; clear(); search_similar -> {}   (store is empty)", show(e.search_similar(&q, 3)));
    }
    {
        let e = base();
        e.store_embedding_with_metadata("a", vec![-1.0, 0.0, 0.0], HashMap::new()).unwrap();
        println!("3 build; store_embedding_with_metadata(a, -a); search_similar -> {}   (a now scores -0.995)", show(e.search_similar(&q, 3)));
    }
    {
        let e = VectorEngine::new();
        e.store_in_collection("c", "x", vec![1.0, 0.0]).unwrap();
        e.create_collection("c2", VectorCollectionConfig::default()).unwrap();
        e.store_in_collection("c2", "x", vec![1.0, 0.0]).unwrap();
        let idx = HNSWIndex::with_config(HNSWConfig::default());
        idx.insert(vec![1.0, 0.0]);
        e.cache_hnsw_index("c2", Arc::new(idx), vec!["coll:c2:emb:x".into()]);
        e.delete_collection("c2").unwrap();
        println!("4 cache_hnsw_index(c2); delete_collection(c2); search_in_collection(c2) -> {}   (collection is gone)", show(e.search_in_collection("c2", &[1.0, 0.0], 3)));
    }
    {
        let e = VectorEngine::new();
        for i in 0..3 {
            e.store_embedding(&format!("v{}", i), (0..8).map(|j| (i + j) as f32).collect()).unwrap();
        }
        println!("5a exhaustive, query of dimension 16 over 8-dim vectors -> {}", show(e.search_similar(&[1.0; 16], 3)));
        e.build_and_cache_index(HNSWConfig::default()).unwrap();
        println!("5b same after build_and_cache_index -> {}   (8-dim vectors scored against a 16-dim query)", show(e.search_similar(&[1.0; 16], 3)));
        let r = catch_unwind(AssertUnwindSafe(|| e.search_similar(&[1.0; 4], 3)));
        println!("5c query of dimension 4 -> {}", match r {
            Ok(x) => show(x),
            Err(p) => format!("PANIC {}", panic_msg(&p)),
        });
    }
    {
        let e = VectorEngine::new();
        e.store_embedding("emb:x", vec![1.0, 0.0]).unwrap();
        e.store_embedding("x", vec![0.0, 1.0]).unwrap();
        println!("6a exhaustive -> {}", show(e.search_similar(&[1.0, 0.5], 3)));
        e.build_and_cache_index(HNSWConfig::default()).unwrap();
        println!("6b cached     -> {}   (key \"emb:x\" reported as \"x\")", show(e.search_similar(&[1.0, 0.5], 3)));
    }
    {
        let e = VectorEngine::new();
        e.create_collection("eu", VectorCollectionConfig::default().with_metric(DistanceMetric::Euclidean)).unwrap();
        let mut m = HashMap::new();
        m.insert("cat".to_string(), TensorValue::Scalar(ScalarValue::Int(1)));
        e.store_in_collection_with_metadata("eu", "near", vec![1.0, 1.0], m.clone()).unwrap();
        e.store_in_collection_with_metadata("eu", "far", vec![10.0, 10.0], m).unwrap();
        let f = FilterCondition::Eq("cat".into(), FilterValue::Int(1));
        println!("7a euclidean collection, search_in_collection          -> {}", show(e.search_in_collection("eu", &[1.0, 1.1], 2)));
        println!("7b search_filtered_in_collection, pre-filter strategy  -> {}   (cosine scores)", show(e.search_filtered_in_collection("eu", &[1.0, 1.1], 2, &f, Some(FilteredSearchConfig::pre_filter()))));
        println!("7c search_filtered_in_collection, post-filter strategy -> {}", show(e.search_filtered_in_collection("eu", &[1.0, 1.1], 2, &f, Some(FilteredSearchConfig::post_filter()))));
    }
    {
        let e = VectorEngine::new();
        for i in 0..10 {
            let mut m = HashMap::new();
            m.insert("cat".to_string(), TensorValue::Scalar(ScalarValue::Int(if i >= 8 { 1 } else { 0 })));
            e.store_embedding_with_metadata(&format!("v{}", i), vec![1.0, i as f32], m).unwrap();
        }
        let f = FilterCondition::Eq("cat".into(), FilterValue::Int(1));
        println!("8a 10 vectors, 2 match cat=1 (the two worst scoring); pre-filter k=2  -> {}", show(e.search_similar_filtered(&[1.0, 0.0], 2, &f, Some(FilteredSearchConfig::pre_filter()))));
        println!("8b default (auto) strategy k=2 -> {}", show(e.search_similar_filtered(&[1.0, 0.0], 2, &f, None)));
    }
    {
        let e = VectorEngine::new();
        e.store_embedding("d0", vec![1.0, 0.0]).unwrap();
        e.store_in_collection("_default", "n0", vec![0.0, 1.0]).unwrap();
        println!("9a collection \"_default\" before build -> {}", show(e.search_in_collection("_default", &[1.0, 1.0], 3)));
        e.build_and_cache_index(HNSWConfig::default()).unwrap();
        println!("9b after build_and_cache_index()         -> {}   (key of the default collection)", show(e.search_in_collection("_default", &[1.0, 1.0], 3)));
    }
}

fn guarded(part: &'static str, case_seed: u64, r: &mut Report, f: impl FnOnce(&mut Report)) {
    let res = catch_unwind(AssertUnwindSafe(|| f(r)));
    if let Err(e) = res {
        let msg = panic_msg(&e);
        r.violation(format!("panic:{}", first_line(&msg)), format!("panic in {} case (seed {}): {}", part, case_seed, msg), json!({"part": part, "case_seed": case_seed}));
    }
}

fn main() {
    let args = Args::parse();
    if args.rest.first().map(|s| s.as_str()) == Some("child-bigk") {
        child_bigk(&args.rest);
        return;
    }
    let started = Instant::now();
    quiet_panics();
    let exe = std::env::current_exe().unwrap_or_else(|_| std::path::PathBuf::from("c06"));
    let bigk_scratch = Scratch::new(&args.scratch, "c06k");
    let mut total = Report::new();
    total.max_samples = 4;
    let verbose = args.extra_u64("verbose", 0) > 0;
    if let Some(f) = args.extra.get("sig-filter") {
        let _ = SIG_FILTER.set(f.clone());
    }
    let scratch_base = args.scratch.clone();
    if args.extra.contains_key("probe") {
        if args.extra_u64("probe", 0) == 10 {
            probe_build_race();
            return;
        }
        probes();
        return;
    }

    let mut single = false;
    let mut only_concurrent = false;
    let mut only_new = false;
    if let Some(p) = &args.replay {
        single = true;
        let v: Value = serde_json::from_str(&std::fs::read_to_string(p).expect("replay file")).expect("json");
        let rp = if v.get("replay").is_some() { v["replay"].clone() } else { v.clone() };
        let seed = rp["case_seed"].as_u64().expect("case_seed");
        // The engine enumerates keys in hash-set order, which differs from run to run: which of several
        // exactly tied candidates a post-filter search sees is not a function of the seed. The case is
        // therefore re-executed (same seed, same operations) until it shows a violation, at most 25 times.
        let want = v["signature"].as_str().map(|s| s.to_string());
        for attempt in 0..25 {
            let mut one = Report::new();
            match rp["part"].as_str().unwrap_or("program") {
                "alias" => guarded("alias", seed, &mut one, |r| run_alias(seed, r, attempt == 0)),
                "rerank" => guarded("rerank", seed, &mut one, |r| run_rerank(seed, r, attempt == 0)),
                "concurrent" => guarded("concurrent", seed, &mut one, |r| run_concurrent(seed, r, attempt == 0, false)),
                "buildrace" => guarded("buildrace", seed, &mut one, |r| run_buildrace(seed, r, attempt == 0)),
                "partial" => guarded("partial", seed, &mut one, |r| run_partial(seed, r, attempt == 0, &scratch_base)),
                "bigk" => run_bigk_children(&exe, &bigk_scratch, 0, 1, 1, Some(seed), attempt == 0, 600, &mut one),
                _ => guarded("program", seed, &mut one, |r| run_program(seed, r, attempt == 0, &scratch_base)),
            }
            let hit = match &want {
                Some(w) => one.violations.iter().any(|x| &x.signature == w) || one.counters.contains_key(&format!("violation[{}]", w)),
                None => one.violations_total > 0,
            };
            let last = attempt == 24;
            if hit || last {
                total.count("replay_executions", attempt as u64 + 1);
                total.merge(one);
                break;
            }
        }
    } else if let Some(s) = args.extra.get("case-seed") {
        single = true;
        let seed: u64 = s.parse().expect("case-seed");
        if args.extra.get("part").map(|s| s.as_str()) == Some("alias") {
            guarded("alias", seed, &mut total, |r| run_alias(seed, r, verbose));
        } else if args.extra.get("part").map(|s| s.as_str()) == Some("rerank") {
            guarded("rerank", seed, &mut total, |r| run_rerank(seed, r, verbose));
        } else if args.extra.get("part").map(|s| s.as_str()) == Some("concurrent") {
            guarded("concurrent", seed, &mut total, |r| run_concurrent(seed, r, verbose, false));
        } else if args.extra.get("part").map(|s| s.as_str()) == Some("buildrace") {
            guarded("buildrace", seed, &mut total, |r| run_buildrace(seed, r, verbose));
        } else if args.extra.get("part").map(|s| s.as_str()) == Some("partial") {
            guarded("partial", seed, &mut total, |r| run_partial(seed, r, verbose, &scratch_base));
        } else if args.extra.get("part").map(|s| s.as_str()) == Some("bigk") {
            // in this process (a search that kills the process is part of what is being looked at)
            guarded("bigk", seed, &mut total, |r| run_bigk_case(seed, r, verbose, true));
            guarded("bigk", seed, &mut total, |r| run_bigk_case(seed, r, verbose, false));
        } else {
            guarded("program", seed, &mut total, |r| run_program(seed, r, verbose, &scratch_base));
        }
    } else if args.extra.get("part").map(|s| s.as_str()) == Some("new") {
        // development aid: parts partial and bigk alone
        only_new = true;
        let n = args.by_tier(400u64, 40_000u64);
        let sb = scratch_base.clone();
        let rep = par_cases(args.threads, args.seed ^ 0xFA, n, args.budget(10, 120), move |_i, s, r| guarded("partial", s, r, |r| run_partial(s, r, false, &sb)));
        total.merge(rep);
        run_bigk_children(&exe, &bigk_scratch, args.seed ^ 0xB1, args.by_tier(160, 6_000), args.by_tier((args.threads as u64 / 4).max(2), args.threads as u64), None, false, args.by_tier(300, 1_200), &mut total);
    } else if args.extra.get("part").map(|s| s.as_str()) == Some("concurrent") {
        // development aid: the concurrent part alone (floors of the other parts will be unmet)
        only_concurrent = true;
        let thorough = !args.quick();
        let n = args.by_tier(120u64, 4_000u64);
        let rep = par_cases((args.threads / 4).max(2), args.seed ^ 0xCC, n, args.budget(12, 150), |_i, s, r| guarded("concurrent", s, r, |r| run_concurrent(s, r, false, thorough)));
        total.merge(rep);
        let n = args.by_tier(60u64, 3_000u64);
        let rep = par_cases((args.threads / 2).max(2), args.seed ^ 0xBD, n, args.budget(5, 90), |_i, s, r| guarded("buildrace", s, r, |r| run_buildrace(s, r, false)));
        total.merge(rep);
    } else {
        let n = args.by_tier(6_000u64, 400_000u64);
        let sb = scratch_base.clone();
        let rep = par_cases(args.threads, args.seed, n, args.budget(50, 720), move |_i, s, r| guarded("program", s, r, |r| run_program(s, r, false, &sb)));
        total.merge(rep);
        let n = args.by_tier(60u64, 2_000u64);
        let rep = par_cases(args.threads, args.seed ^ 0xA1, n, args.budget(20, 120), |_i, s, r| guarded("alias", s, r, |r| run_alias(s, r, false)));
        total.merge(rep);
        let n = args.by_tier(1_500u64, 60_000u64);
        let rep = par_cases(args.threads, args.seed ^ 0xB7, n, args.budget(25, 180), |_i, s, r| guarded("rerank", s, r, |r| run_rerank(s, r, false)));
        total.merge(rep);
        // each case runs 2-5 searcher threads and 1-2 mutator threads of its own
        let thorough = !args.quick();
        let n = args.by_tier(120u64, 4_000u64);
        let rep = par_cases((args.threads / 4).max(2), args.seed ^ 0xCC, n, args.budget(12, 150), |_i, s, r| guarded("concurrent", s, r, |r| run_concurrent(s, r, false, thorough)));
        total.merge(rep);
        let n = args.by_tier(60u64, 3_000u64);
        let rep = par_cases((args.threads / 2).max(2), args.seed ^ 0xBD, n, args.budget(5, 90), |_i, s, r| guarded("buildrace", s, r, |r| run_buildrace(s, r, false)));
        total.merge(rep);
        let n = args.by_tier(400u64, 40_000u64);
        let sb = scratch_base.clone();
        let rep = par_cases(args.threads, args.seed ^ 0xFA, n, args.budget(10, 120), move |_i, s, r| guarded("partial", s, r, |r| run_partial(s, r, false, &sb)));
        total.merge(rep);
        // child processes; the wait is a watchdog only (a child that does not finish is inconclusive)
        run_bigk_children(&exe, &bigk_scratch, args.seed ^ 0xB1, args.by_tier(160, 6_000), args.by_tier((args.threads as u64 / 4).max(2), args.threads as u64), None, false, args.by_tier(300, 1_200), &mut total);
    }
    drop(bigk_scratch);

    let new_floors: Vec<(&'static str, u64)> = vec![
        ("partial_programs", 100),
        ("partial:failed_ops", 300),
        ("partial:failed_ops_with_partial_effect", 100),
        ("partial:batches_in_the_sequential_branch", 40),
        ("partial:batches_in_the_rayon_branch", 20),
        ("op:load_index[failed]", 20),
        ("partial:searches_after_partially_applied_op_with_index_cached_before", 300),
        ("failed-op:keys_read_back", 1_000),
        ("bigk_programs", 60),
        ("bigk:child_processes_completed", 2),
        ("huge-k:exhaustive-mode", 300),
        ("huge-k:cached-mode", 300),
        ("huge-k:search_with_hnsw", 60),
        ("huge-k:search_with_hnsw_and_metric", 60),
        ("huge-k:HNSWIndex::search", 60),
        ("huge-k:HNSWIndex::search_with_ef", 60),
    ];
    let concurrent_floors: Vec<(&'static str, u64)> = vec![
        ("concurrent:rounds", 40),
        ("concurrent:mutations_during_searches", 60),
        ("concurrent:mutations_overlapped_by_a_search", 40),
        ("concurrent:inflight_judged", 2_000),
        ("concurrent:inflight_began_after_a_mutation_returned", 200),
        ("concurrent:searches_after_join_on_changed_data", 100),
        ("buildrace:rounds_build_overlapped_a_mutation", 20),
        ("buildrace:searches_judged_after_overlapping_build", 60),
    ];
    let meta = Meta {
        property: "C06",
        rule: "one evaluation = one search call of the real VectorEngine judged against the f64 reference scorer over the shadow model (exhaustive oracle: exact top-k modulo eps-ties at the k-th boundary, order, scores, no deleted/overwritten/other-dimension vector; cached-index oracle while the data is unchanged since the build: keys stored, true scores, no duplicates, ordered, <= k); distinct by hash(case seed, step); non-trivial when at least 2 stored vectors have the query's dimension; part concurrent: the same per search, for searches called after all threads were joined and for searches recorded while a mutator thread ran (judged by the state(s) their tick bracket allows); part buildrace: the same per search called after a build that raced with mutations was joined; part partial: the same per search called after an operation failed (the model first follows what the engine holds for every key the failed operation named: a changed vector is a data change after the cached build); part bigk: the same per search called with k (ef) between 65537 and usize::MAX over at most 50 stored vectors, executed in child processes",
        assumptions: vec![
            "score tolerance = 1e-4 relative + 1e-6 absolute, relative to max(|score|, sum|q_i v_i| (normalised by the norms for cosine)): an f32 SIMD dot product is accurate relative to the size of its terms, not of a cancelling result".into(),
            "cosine score of a stored zero vector is taken as 0 (the engine's documented convention); queries are non-zero; no NaN/inf; every non-zero vector has a component >= 1e-3 of its scale so f32 norms neither underflow nor overflow".into(),
            "a filtered search is judged as the similarity search over the stored vectors whose metadata satisfies the filter (a vector lacking the field satisfies no comparison on it; Ne is not generated)".into(),
            "the cached-index oracle is applied only while the model saw no vector change since the build; an exact exhaustive answer also satisfies it, so the engine is never required to use the index".into(),
            "search_in_collection / search_filtered_in_collection are judged under the collection's configured metric; collection indexes are built by the program with that metric from vectors read through the engine".into(),
            "quantized HNSW storage and IVF are not judged".into(),
            "a query whose dimension differs from the indexed vectors' (shorter, longer, empty) has no defined score: on every index-assisted path it must not panic and must not return a key; an empty answer (the exhaustive search's answer) and a DimensionMismatch / EmptyVector error are both accepted".into(),
            "search_with_hnsw_and_metric (index just built) is judged with the cached-index oracle under the f64 reference of the chosen extended metric: raw value as documented on tensor_store::DistanceMetric / SparseVector (cosine, acos(cosine) for angular and geodesic, Jaccard and overlap on non-zero positions, weighted Jaccard, L2, L1, composite = weighted mean of (cos+1)/2, Jaccard and 1/(1+L2)) and the documented to_similarity ((cos+1)/2, 1 - angle/pi, 1/(1+distance), identity); tolerance 1e-4 relative + 1e-6, for the angular metrics the acos-amplified f32 rounding of the cosine (3e-7) instead".into(),
            "an index handed to cache_hnsw_index for a named collection maps node ids to storage keys (the convention of vector_engine's own test) and is withdrawn by the program when the collection's configuration is replaced (create_collection / load_index)".into(),
            "part concurrent: a call is taken to precede another when its closing tick (drawn after it returned) is smaller than the other's opening tick (drawn before it was called) on one SeqCst counter; a search is judged exactly only when no mutation of its collection overlaps it, otherwise each returned key may carry the score of any vector it held between the search's start and end and the choice of keys is not judged; indexes are built and cached only while no other thread runs; one mutator thread per collection, so the order of a collection's mutations is the program order".into(),
            "part buildrace: build_and_cache_index overlapping mutations of the default collection is judged only after both threads were joined and only with the cached-index oracle over the final data (keys stored, true score of the current vector, no duplicates, ordered, <= k): it holds for an engine that kept no index and for one that kept an index reflecting every completed mutation, and says nothing about which of the two the engine chose; a build that fails because a vector vanished under it is accepted (nothing may then be cached)".into(),
            "failing operations (parts partial and program): VectorEngineConfig::max_dimension is the only documented way to make a store fail after the up-front validation; regular vectors and queries respect it. The statement does not say that a failing operation is atomic, so nothing is demanded about WHICH of its writes took effect: every key it named is read back through get_embedding and must hold the vector it held before or the vector the operation was writing (metadata is taken from get_metadata); from then on that state is the data, and an index cached before a changed key may not be consulted".into(),
            "part bigk: k and ef are plain usize arguments and the statement promises 'the k, or all if fewer' for every k, so a search with k up to usize::MAX over a few vectors must return (exhaustive oracle without an index, cached-index oracle through one). The cases run in child processes with a 4 GB address-space limit because a buffer sized from k aborts the process instead of unwinding; values between 2^20 and 2^31, where such a buffer would merely be large, are not used. A child killed inside a search = violation huge-k:<api>:process-killed; a child that ends abnormally elsewhere or does not finish within the watchdog = inconclusive".into(),
            "hostile key names (keys starting with \"emb:\", empty key, non-ASCII) are used in 1 of 8 programs".into(),
        ],
        floors: if single {
            vec![]
        } else if only_new {
            new_floors
        } else if only_concurrent {
            concurrent_floors
        } else {
            let mut f = vec![
                ("programs", 150),
                ("judged:exhaustive-mode", 3_000),
                ("judged:cached-mode", 300),
                ("cached-mode:results", 1_000),
                ("exhaustive:truncating", 500),
                ("exhaustive:boundary-ties", 50),
                ("searches_with_deleted_keys_in_history", 500),
                ("searches_with_overwritten_vectors_in_history", 500),
                ("searches_over_mixed_dimensions", 100),
                ("repr:sparse", 500),
                ("repr:dense", 500),
                ("readback:get_embedding", 1_000),
                ("index_builds_ok", 100),
                ("collection_index_cached", 30),
                ("rerank_programs", 100),
                ("offdim:search_with_hnsw", 500),
                ("offdim:search_with_hnsw_and_metric", 500),
                ("offdim:shorter", 300),
                ("offdim:longer", 300),
                ("offdim:empty", 100),
                ("rerank:cosine", 200),
                ("rerank:angular", 200),
                ("rerank:geodesic", 200),
                ("rerank:jaccard", 200),
                ("rerank:overlap", 200),
                ("rerank:weighted-jaccard", 200),
                ("rerank:euclidean", 200),
                ("rerank:manhattan", 200),
                ("rerank:composite", 200),
                ("rerank:results", 5_000),
                ("rerank:shape:query-negative-after-stored-last-nonzero", 500),
                ("rerank:shape:stored-negative-after-query-last-nonzero", 500),
                ("rerank:shape:query-negative-before-stored-first-nonzero", 500),
                ("rerank:shape:stored-negative-before-query-first-nonzero", 500),
                ("rerank:shape:stored-zero-vector", 200),
                ("distinct_nontrivial", 2_000),
            ];
            f.extend(concurrent_floors);
            f.extend(new_floors);
            f
        },
        exhaustive: false,
    };
    write_result(&args, &meta, &total, started);
}
