//! C09 — relational transactions are all-or-nothing and writers exclude each other.
//!
//! Runtime monitor over the real `RelationalEngine` transaction API. Parts:
//!   seq        : one transaction at a time (mixed tx_insert/tx_update/tx_delete/tx_select with value- and
//!                id-based conditions, non-transactional statements in between), commit or rollback;
//!   interleave : 2-4 transactions driven from one thread in a random (replayable) interleaving over
//!                overlapping rows, plus non-transactional statements and attempts to reuse finished ids;
//!   threads    : real threads hammering a small table; shadow ownership map + commit-order oracle;
//!   timeout    : lock expiry with a 1 s lock timeout (conflict demanded only within 0.3 s, release
//!                demanded only after 10 s; everything in between is a don't-care window);
//!   scanrace   : real threads over tables of 500-6000 rows: transaction B runs ONE wide multi-row
//!                tx_update / tx_delete (or the non-transactional update()/delete_rows()) and then commits
//!                or rolls back, while 1-3 other threads run 1-3 small single-row transactions each
//!                (explicit + commit, explicit + rollback, implicit) on rows B's condition matches -
//!                updates of indexed columns, moves out of / into the set B's condition selects, deletes.
//!                Both sides start at one barrier, so the small commits fall into B's call: before B's
//!                unlocked scan reads the row, between that scan and B's row locks, or (refused with
//!                LockConflict and retried) after B ended. Oracle at the quiescent point after every
//!                round: rows only B touched are exactly B's effect (commit) or exactly as before
//!                (rollback); a row a small transaction wrote must be explained by SOME position of B's
//!                statement among that thread's statements - after a rollback of B that is one state only:
//!                what the small transactions committed (a committed update is still there, a committed
//!                delete stays deleted), whatever B's scan had seen; hash / ordered index queries on
//!                every value involved must agree with the table; no locks, no transactions left.
//!
//!   reap       : 'the locks disappear when the first one ... times out'. Clock-free family: transaction
//!                timeout 0 s, lock timeout ~115 days; 1-4 transactions write single rows and id ranges in
//!                a random interleaving (so their locks have different ages), some end normally, the rest
//!                are timed out as soon as the watched millisecond clock has advanced; then
//!                TransactionManager::cleanup_expired() runs (sometimes after the expired-lock sweep).
//!                Demanded right afterwards: no row is locked by a reaped transaction, a new transaction's
//!                write on every such row is not refused with LockConflict, the reaped ids are refused,
//!                the lock table is empty once the new writer ended. Timed family (reap-timed, runs beside
//!                the other parts): 2 s transaction and lock timeouts; an old transaction writes a row 0.9-
//!                1.4 s into its life, a young one begins at 1.45 s and writes another row, the reaper runs
//!                at 2.25 s: the old one's young lock is gone, the young transaction is still active, still
//!                excludes other writers and commits.
//!                In seq / interleave the reaper and the expired-lock sweep are also called between steps
//!                (hash of case seed and step decides) and in half of the threads cases continuously from
//!                an extra thread: nothing has timed out there, so every live transaction stays active and
//!                keeps the locks seen after its writes.
//!
//! About one seq/interleave program in four runs with a tight `max_btree_entries` bound (the number of
//! ordered-index keys after the initial load plus 0-2), so that inserts and updates legitimately fail
//! *half-way* with a capacity error (ResultTooLarge from the ordered-index maintenance). A transaction
//! whose statement failed like that is only ever rolled back afterwards, and the rollback must leave
//! the table and every index-answered query as if none of its statements had run; a failed
//! non-transactional statement (the engine rolls its internal transaction back) must leave the table
//! unchanged at once.
//!
//! Oracle for seq/interleave: the harness keeps its own dirty row model with a per-transaction undo log.
//! After every step, every row that no *active* transaction has touched must be exactly as in the model
//! (this is independent of the isolation level the engine implements); whenever no transaction is
//! active the whole table, a battery of queries through hash / ordered indexes and the vectorised path,
//! and the lock table (no locks, no active transactions) are compared. A write by one transaction on a
//! row another active transaction has updated must fail with LockConflict and change nothing.

use common::*;
use relational_engine::{Column, ColumnType, ColumnarScanOptions, Condition, RelationalConfig, RelationalEngine, RelationalError, Row, Schema, Value};
use serde_json::{json, Value as J};
use std::collections::{BTreeMap, BTreeSet, HashMap};
use std::sync::atomic::{AtomicBool, AtomicU64, Ordering};
use std::sync::Mutex;
use std::time::{Duration, Instant};

const T: &str = "acc";
const COLS: [&str; 4] = ["k", "v", "s", "f"];

fn cfg_cap(lock_timeout_secs: u64, cap: Option<usize>) -> RelationalConfig {
    let mut c = cfg(lock_timeout_secs);
    if let Some(n) = cap {
        c.max_btree_entries = n;
    }
    c
}

fn cfg(lock_timeout_secs: u64) -> RelationalConfig {
    RelationalConfig {
        default_query_timeout_ms: None,
        max_query_timeout_ms: None,
        transaction_timeout_secs: 10_000_000,
        lock_timeout_secs,
        ..RelationalConfig::default()
    }
}

fn schema() -> Schema {
    Schema::new(vec![
        Column::new("k", ColumnType::Int),
        Column::new("v", ColumnType::Int),
        Column::new("s", ColumnType::String).nullable(),
        Column::new("f", ColumnType::Float),
    ])
}

fn err_name<E: std::fmt::Debug>(e: &E) -> String {
    let s = format!("{:?}", e);
    s.split(|c: char| !c.is_alphanumeric() && c != '_').next().unwrap_or("").to_string()
}

fn val_same(a: &Value, b: &Value) -> bool {
    match (a, b) {
        (Value::Float(x), Value::Float(y)) => f64_same(*x, *y),
        _ => a == b,
    }
}

fn mk_row(id: u64, vals: &[Value]) -> Row {
    Row { id, values: COLS.iter().zip(vals.iter()).map(|(c, v)| (c.to_string(), v.clone())).collect() }
}

fn to_map(vals: &[Value]) -> HashMap<String, Value> {
    // every column explicitly (an omitted nullable column is C04's business)
    COLS.iter().zip(vals.iter()).map(|(c, v)| (c.to_string(), v.clone())).collect()
}

// value pools deliberately avoid the inputs of known C04 defects (-0.0, omitted nullable columns)
fn gen_vals(rng: &mut Rng) -> Vec<Value> {
    vec![
        Value::Int(rng.range(0, 6)),
        Value::Int(*rng.pick(&[i64::MIN, -1, 0, 1, 2, 3, 10, i64::MAX])),
        if rng.chance(1, 4) { Value::Null } else { Value::String(rng.pick(&["", "a", "b", "Zürich", "日本"]).to_string()) },
        Value::Float(*rng.pick(&[0.0, 1.0, -1.5, 2.5, 1e-300, f64::INFINITY, 100.25])),
    ]
}

fn gen_updates(rng: &mut Rng) -> HashMap<String, Value> {
    let v = gen_vals(rng);
    let mut hm = HashMap::new();
    let n = 1 + rng.below(2);
    for _ in 0..n {
        let ci = rng.below(4);
        hm.insert(COLS[ci].to_string(), v[ci].clone());
    }
    hm
}

enum Undo {
    Ins(u64),
    Upd(u64, Vec<Value>),
    Del(u64, Vec<Value>),
}

struct TxM {
    id: u64,
    undo: Vec<Undo>,
    inserted: BTreeSet<u64>,
    updated: BTreeSet<u64>,
    deleted: BTreeMap<u64, Vec<Value>>,
    /// a statement of this transaction failed half-way (capacity error): only rollback is judged from here on
    poisoned: bool,
    /// rows whose lock was seen to belong to this transaction right after one of its successful writes
    held: BTreeSet<u64>,
}

impl TxM {
    fn touched(&self) -> BTreeSet<u64> {
        self.inserted.iter().chain(self.updated.iter()).chain(self.deleted.keys()).copied().collect()
    }
}

struct Sim<'a> {
    rng: Rng,
    seed: u64,
    part: &'static str,
    r: &'a mut Report,
    e: RelationalEngine,
    rows: BTreeMap<u64, Vec<Value>>,
    max_id: u64,
    txs: Vec<TxM>,
    finished: Vec<u64>,
    /// rows whose lock must be gone because their holder ended: row -> holder
    released: Vec<(u64, u64)>,
    hash_idx: Vec<String>,
    btree_idx: Vec<String>,
    trace: Vec<String>,
    dead: bool,
    verbose: bool,
    /// what the program was planned with (indexes, initial rows, capacity bound)
    plan: Plan,
    /// rows left behind by an insert that failed half-way: id -> which statement
    ghosts: BTreeMap<u64, String>,
    capacity_failures: u64,
}

#[derive(Clone, Debug)]
struct Plan {
    pre: bool,
    hash: Vec<&'static str>,
    btree: Vec<&'static str>,
    rows: Vec<Vec<Value>>,
    /// Some(n): RelationalConfig::max_btree_entries = n
    cap: Option<usize>,
}

fn make_plan(rng: &mut Rng) -> Plan {
    let capacity_mode = rng.chance(1, 4);
    let pre = rng.bool();
    let mut hash = Vec::new();
    let mut btree = Vec::new();
    for c in ["k", "v", "s", "f", "_id"] {
        let b = rng.chance(1, 2);
        // under a capacity bound the interesting columns carry both kinds of index
        let h = if capacity_mode && b { rng.chance(3, 4) } else { rng.chance(1, 2) };
        if h {
            hash.push(c);
        }
        if b {
            btree.push(c);
        }
    }
    if capacity_mode && !btree.iter().any(|c| *c != "_id") {
        let c = *rng.pick(&["k", "v", "s", "f"]);
        btree.push(c);
        if !hash.contains(&c) {
            hash.push(c);
        }
    }
    let n0 = 3 + rng.below(12);
    let rows: Vec<Vec<Value>> = (0..n0).map(|_| gen_vals(rng)).collect();
    let cap = if capacity_mode {
        // number of ordered-index keys the initial load produces (the engine counts distinct keys over all ordered indexes)
        let mut keys = 0usize;
        for c in &btree {
            if *c == "_id" {
                keys += rows.len();
            } else {
                let ci = COLS.iter().position(|x| x == c).unwrap();
                let d: BTreeSet<String> = rows.iter().map(|r| format!("{:?}", r[ci])).collect();
                keys += d.len();
            }
        }
        Some(keys + rng.below(3))
    } else {
        None
    };
    Plan { pre, hash, btree, rows, cap }
}

fn is_capacity_error(e: &RelationalError) -> bool {
    matches!(e, RelationalError::ResultTooLarge { operation, .. } if operation.contains("btree"))
}

type Snap = BTreeMap<u64, Vec<(String, Value)>>;

impl<'a> Sim<'a> {
    fn violation(&mut self, sig: &str, detail: String) {
        if self.verbose {
            eprintln!("VIOLATION {} :: {}", sig, detail);
        }
        let ctx = format!("hash_idx={:?} btree_idx={:?} max_btree_entries={:?} capacity_failures_so_far={} | program: {}", self.hash_idx, self.btree_idx, self.plan.cap, self.capacity_failures, self.trace.join("; "));
        let rp = json!({"part": self.part, "case_seed": self.seed});
        self.r.violation(sig.to_string(), format!("{} || {}", detail, ctx), rp);
    }

    fn snapshot(&self) -> Option<Snap> {
        self.e.select(T, Condition::True).ok().map(|rows| rows.into_iter().map(|r| (r.id, r.values)).collect())
    }

    fn snap_same(a: &Snap, b: &Snap) -> bool {
        a.len() == b.len() && a.iter().zip(b.iter()).all(|((i1, v1), (i2, v2))| i1 == i2 && v1.len() == v2.len() && v1.iter().zip(v2.iter()).all(|((n1, x1), (n2, x2))| n1 == n2 && val_same(x1, x2)))
    }

    fn matching(&self, c: &Condition) -> BTreeSet<u64> {
        self.rows.iter().filter(|(id, v)| c.evaluate(&mk_row(**id, v))).map(|(id, _)| *id).collect()
    }

    // ---- condition generators

    fn id_cond(&mut self, allow_foreign_inserted: bool, me: Option<usize>) -> Condition {
        // candidate ids: existing rows, rows deleted by others, a few non-existent ones
        let foreign_ins: BTreeSet<u64> = self.txs.iter().enumerate().filter(|(i, _)| Some(*i) != me).flat_map(|(_, t)| t.inserted.iter().copied()).collect();
        let mut cands: Vec<u64> = self.rows.keys().copied().filter(|id| allow_foreign_inserted || !foreign_ins.contains(id)).collect();
        cands.extend(self.txs.iter().enumerate().filter(|(i, _)| Some(*i) != me).flat_map(|(_, t)| t.deleted.keys().copied()));
        cands.push(self.max_id + 5);
        let pick = |rng: &mut Rng| cands[rng.below(cands.len())] as i64;
        match self.rng.below(10) {
            0..=5 => Condition::Eq("_id".into(), Value::Int(pick(&mut self.rng))),
            6 | 7 => Condition::Eq("_id".into(), Value::Int(pick(&mut self.rng))).or(Condition::Eq("_id".into(), Value::Int(pick(&mut self.rng)))),
            _ => {
                let a = pick(&mut self.rng);
                let w = self.rng.below(3) as i64;
                let c = Condition::Ge("_id".into(), Value::Int(a)).and(Condition::Le("_id".into(), Value::Int(a + w)));
                if !allow_foreign_inserted && self.matching(&c).iter().any(|id| foreign_ins.contains(id)) {
                    Condition::Eq("_id".into(), Value::Int(a))
                } else {
                    c
                }
            }
        }
    }

    fn value_cond(&mut self) -> Condition {
        let v = gen_vals(&mut self.rng);
        let ci = self.rng.below(4);
        let col = COLS[ci].to_string();
        let val = v[ci].clone();
        let leaf = match self.rng.below(6) {
            0 | 1 => Condition::Eq(col, val),
            2 => Condition::Ne(col, val),
            3 => Condition::Lt(col, val),
            4 => Condition::Ge(col, val),
            _ => Condition::Le(col, val),
        };
        if self.rng.chance(1, 3) {
            let lo = self.rng.range(0, self.max_id as i64);
            leaf.and(Condition::Ge("_id".into(), Value::Int(lo)))
        } else {
            leaf
        }
    }

    fn write_cond(&mut self, me: Option<usize>) -> Condition {
        let others_active = self.txs.iter().enumerate().any(|(i, _)| Some(i) != me);
        if !others_active && self.rng.bool() {
            self.value_cond()
        } else {
            let allow = self.rng.chance(1, 8);
            self.id_cond(allow, me)
        }
    }

    // ---- expectations for a write statement

    /// (matching rows in the dirty model, locked by others, inserted by others, deleted-by-others that match)
    fn write_sets(&self, cond: &Condition, me: Option<usize>) -> (BTreeSet<u64>, BTreeSet<u64>, BTreeSet<u64>, BTreeSet<u64>) {
        let m_all = self.matching(cond);
        let mut locked = BTreeSet::new();
        let mut fins = BTreeSet::new();
        let mut fdel = BTreeSet::new();
        for (i, t) in self.txs.iter().enumerate() {
            if Some(i) == me {
                continue;
            }
            for id in &m_all {
                if t.updated.contains(id) {
                    locked.insert(*id);
                } else if t.inserted.contains(id) {
                    fins.insert(*id);
                }
            }
            for (id, vals) in &t.deleted {
                if cond.evaluate(&mk_row(*id, vals)) {
                    fdel.insert(*id);
                }
            }
        }
        (m_all, locked, fins, fdel)
    }

    /// judges the engine's answer to a write; returns the rows the model must apply the write to
    fn judge_write(&mut self, what: &str, cond: &Condition, me: Option<usize>, res: &Result<usize, RelationalError>, before: &Option<Snap>) -> Option<BTreeSet<u64>> {
        let (m_all, locked, fins, fdel) = self.write_sets(cond, me);
        match res {
            Err(RelationalError::LockConflict { blocking_tx, row_id, .. }) => {
                self.r.count("lock_conflicts", 1);
                // a row left behind by another active transaction's failed insert is that transaction's row
                let ghost_conflict = self.txs.iter().enumerate().any(|(i, t)| Some(i) != me && t.inserted.contains(row_id) && !self.rows.contains_key(row_id));
                if ghost_conflict {
                    self.r.count("lock_conflicts_expected", 1);
                } else if locked.is_empty() && fins.is_empty() && fdel.is_empty() {
                    let fin = self.finished.contains(blocking_tx);
                    let d = format!("{} {:?} got LockConflict(blocking_tx={}, row={}) but no active transaction has touched a matching row (matching {:?}); blocking tx finished earlier: {}", what, cond, blocking_tx, row_id, m_all, fin);
                    self.violation(if fin { "lock:conflict-with-finished-transaction" } else { "lock:conflict-without-holder" }, d);
                    self.dead = true;
                } else {
                    self.r.count("lock_conflicts_expected", 1);
                }
                // a refused statement must not have changed anything
                if let (Some(b), Some(a)) = (before, self.snapshot()) {
                    if !Self::snap_same(b, &a) {
                        self.violation("statement:lock-conflict-but-table-changed", format!("{} {:?} failed with LockConflict yet the table differs before/after", what, cond));
                        self.dead = true;
                    }
                }
                None
            }
            Err(e) if self.plan.cap.is_some() && is_capacity_error(e) && what.contains("update") => {
                // a legitimate failure half-way through the statement (ordered index is full)
                self.capacity_failures += 1;
                self.r.count("capacity_failures", 1);
                self.r.count(if me.is_some() { "capacity_failures:tx_update" } else { "capacity_failures:update" }, 1);
                self.trace.push("-> capacity error".into());
                match me {
                    Some(i) => {
                        // every matching row was locked before the first one was changed; from now on
                        // they count as touched and the transaction will only be rolled back
                        self.txs[i].poisoned = true;
                        for id in &m_all {
                            self.txs[i].updated.insert(*id);
                        }
                    }
                    None => {
                        // the engine has rolled its internal transaction back: nothing may have changed
                        if let (Some(b), Some(a)) = (before, self.snapshot()) {
                            if !Self::snap_same(b, &a) {
                                let diff: Vec<u64> = b.keys().chain(a.keys()).filter(|id| b.get(id).map(|x| format!("{:?}", x)) != a.get(id).map(|x| format!("{:?}", x))).copied().collect();
                                self.violation("failed-update:table-changed-after-internal-rollback", format!("{} {:?} failed with {:?}; rows {:?} differ before/after", what, cond, e, diff));
                                self.dead = true;
                            }
                        }
                    }
                }
                None
            }
            Err(e) => {
                self.violation(&format!("tx-write:unexpected-error:{}", err_name(e)), format!("{} {:?} failed: {:?}", what, cond, e));
                self.dead = true;
                None
            }
            Ok(n) => {
                if !locked.is_empty() {
                    let d = format!("{} {:?} succeeded ({} rows) although rows {:?} were updated by another active transaction; must be LockConflict", what, cond, n, locked);
                    self.violation("exclusion:write-on-row-updated-by-active-tx-succeeds", d);
                    self.dead = true;
                    return None;
                }
                let without: BTreeSet<u64> = m_all.difference(&fins).copied().collect();
                if !fins.is_empty() && *n == m_all.len() {
                    let d = format!(
                        "{} {:?} succeeded on {} rows including rows {:?} that another *active* transaction inserted (no lock is taken on inserted rows, no LockConflict)",
                        what, cond, n, fins
                    );
                    self.violation("exclusion:write-on-row-inserted-by-active-tx-succeeds", d);
                    self.dead = true;
                    return None;
                }
                if *n != without.len() {
                    let d = format!("{} {:?} reported {} rows; {} rows match ({} of them inserted by other active transactions)", what, cond, n, m_all.len(), fins.len());
                    self.violation("tx-write:wrong-affected-count", d);
                    self.dead = true;
                    return None;
                }
                Some(without)
            }
        }
    }

    fn check_locks_held(&mut self, ti: usize, rows: &BTreeSet<u64>) {
        let txid = self.txs[ti].id;
        for r in rows {
            let h = self.e.tx_manager().row_lock_holder(T, *r);
            if h != Some(txid) {
                self.violation("lock:not-held-after-write", format!("tx {} wrote row {} but row_lock_holder = {:?}", txid, r, h));
                self.dead = true;
                return;
            }
        }
        self.r.count("lock_holder_checks", rows.len() as u64);
        self.txs[ti].held.extend(rows.iter().copied());
    }

    /// Nothing has timed out in these programs (transaction and lock timeouts are ~115 days), so the
    /// reaper of timed-out transactions and the expired-lock sweep must leave every live transaction
    /// and every lock alone. Decided by a hash of (case seed, step), not by the program's generator.
    fn step_reap_noop(&mut self, step: u64) {
        if self.txs.is_empty() || self.dead {
            return;
        }
        let h = hash_combine(self.seed ^ 0x9EA9_0000, step);
        if h % 6 != 0 {
            return;
        }
        let which = (h >> 8) % 3;
        let reaped = if which != 1 { self.e.tx_manager().cleanup_expired() } else { 0 };
        let swept = if which != 0 { self.e.tx_manager().cleanup_expired_locks() } else { 0 };
        self.trace.push(format!("{} -> ({},{})", ["reap", "sweep", "reap+sweep"][which as usize], reaped, swept));
        let mut checked = 0u64;
        for ti in 0..self.txs.len() {
            let id = self.txs[ti].id;
            if !self.e.is_transaction_active(id) {
                let d = format!("transaction {} (timeout ~115 days) is no longer active after TransactionManager::cleanup_expired() = {} / cleanup_expired_locks() = {}", id, reaped, swept);
                self.violation("reap:live-transaction-removed-before-its-timeout", d);
                self.dead = true;
                return;
            }
            for row in self.txs[ti].held.clone() {
                let holder = self.e.tx_manager().row_lock_holder(T, row);
                if holder != Some(id) {
                    let d = format!("active transaction {} wrote row {} and held its lock; after TransactionManager::cleanup_expired() = {} / cleanup_expired_locks() = {} (nothing has timed out: timeouts ~115 days) row_lock_holder = {:?}", id, row, reaped, swept, holder);
                    self.violation("reap:lock-of-live-transaction-dropped-before-its-timeout", d);
                    self.dead = true;
                    return;
                }
                checked += 1;
            }
        }
        self.r.count("reap_noop_calls", 1);
        self.r.count("reap_noop_live_locks_checked", checked);
    }

    // ---- steps

    fn step_begin(&mut self) {
        let id = self.e.begin_transaction();
        if !self.e.is_transaction_active(id) {
            self.violation("begin:not-active", format!("begin_transaction returned {} which is not active", id));
            self.dead = true;
        }
        self.trace.push(format!("t{}=begin", id));
        self.txs.push(TxM { id, undo: vec![], inserted: BTreeSet::new(), updated: BTreeSet::new(), deleted: BTreeMap::new(), poisoned: false, held: BTreeSet::new() });
        self.r.count("op:begin", 1);
    }

    fn step_insert(&mut self, me: Option<usize>) {
        let vals = gen_vals(&mut self.rng);
        let before = if self.plan.cap.is_some() { self.snapshot() } else { None };
        let res = match me {
            Some(i) => {
                self.trace.push(format!("t{}.insert {:?}", self.txs[i].id, vals));
                self.e.tx_insert(self.txs[i].id, T, to_map(&vals))
            }
            None => {
                self.trace.push(format!("insert {:?}", vals));
                self.e.insert(T, to_map(&vals))
            }
        };
        match res {
            Ok(id) => {
                if self.rows.contains_key(&id) || self.txs.iter().any(|t| t.deleted.contains_key(&id)) {
                    self.violation("insert:reuses-live-row-id", format!("insert returned id {} which belongs to an existing row", id));
                    self.dead = true;
                    return;
                }
                self.max_id = self.max_id.max(id);
                self.rows.insert(id, vals);
                if let Some(i) = me {
                    self.txs[i].inserted.insert(id);
                    self.txs[i].undo.push(Undo::Ins(id));
                }
                self.r.count(if me.is_some() { "op:tx_insert" } else { "op:insert" }, 1);
            }
            Err(e) if self.plan.cap.is_some() && is_capacity_error(&e) => {
                self.capacity_failures += 1;
                self.r.count("capacity_failures", 1);
                self.r.count(if me.is_some() { "capacity_failures:tx_insert" } else { "capacity_failures:insert" }, 1);
                self.trace.push("-> capacity error".into());
                // rows the failed insert left behind (partial effect)
                let left: Vec<u64> = match (&before, self.snapshot()) {
                    (Some(b), Some(a)) => a.keys().filter(|id| !b.contains_key(id)).copied().collect(),
                    _ => Vec::new(),
                };
                for id in &left {
                    self.max_id = self.max_id.max(*id);
                }
                match me {
                    Some(i) => {
                        // partial effects of an active transaction are its own business until it is
                        // rolled back; then they must be gone (checked by check_stable_rows)
                        self.txs[i].poisoned = true;
                        let txid = self.txs[i].id;
                        for id in left {
                            self.txs[i].inserted.insert(id);
                            self.ghosts.insert(id, format!("tx_insert of transaction {} that failed with a capacity error", txid));
                        }
                    }
                    None => {
                        if !left.is_empty() {
                            let d = format!("insert {:?} failed with {:?} (the engine rolled its internal transaction back) yet rows {:?} now exist", vals, e, left);
                            self.violation("failed-insert:row-survives-rollback", d);
                            self.dead = true;
                        }
                    }
                }
            }
            Err(e) => {
                self.violation(&format!("tx-write:unexpected-error:{}", err_name(&e)), format!("insert of a valid row failed: {:?}", e));
                self.dead = true;
            }
        }
    }

    fn step_update(&mut self, me: Option<usize>) {
        let cond = self.write_cond(me);
        let ups = gen_updates(&mut self.rng);
        let mut u: Vec<(&String, &Value)> = ups.iter().collect();
        u.sort_by(|a, b| a.0.cmp(b.0));
        let what = match me {
            Some(i) => format!("t{}.update", self.txs[i].id),
            None => "update".to_string(),
        };
        self.trace.push(format!("{} {:?} set {:?}", what, cond, u));
        let before = self.snapshot();
        let res = match me {
            Some(i) => self.e.tx_update(self.txs[i].id, T, cond.clone(), ups.clone()),
            None => self.e.update(T, cond.clone(), ups.clone()),
        };
        if let Some(apply) = self.judge_write(&what, &cond, me, &res, &before) {
            for id in &apply {
                let old = self.rows[id].clone();
                let row = self.rows.get_mut(id).unwrap();
                for (ci, c) in COLS.iter().enumerate() {
                    if let Some(v) = ups.get(*c) {
                        row[ci] = v.clone();
                    }
                }
                if let Some(i) = me {
                    self.txs[i].undo.push(Undo::Upd(*id, old));
                    self.txs[i].updated.insert(*id);
                }
            }
            if let Some(i) = me {
                self.check_locks_held(i, &apply);
            }
            self.r.count(if me.is_some() { "op:tx_update" } else { "op:update" }, 1);
            self.r.count("rows_written", apply.len() as u64);
        }
    }

    fn step_delete(&mut self, me: Option<usize>) {
        let cond = self.write_cond(me);
        let what = match me {
            Some(i) => format!("t{}.delete", self.txs[i].id),
            None => "delete".to_string(),
        };
        self.trace.push(format!("{} {:?}", what, cond));
        let before = self.snapshot();
        let res = match me {
            Some(i) => self.e.tx_delete(self.txs[i].id, T, cond.clone()),
            None => self.e.delete_rows(T, cond.clone()),
        };
        if let Some(apply) = self.judge_write(&what, &cond, me, &res, &before) {
            for id in &apply {
                let old = self.rows.remove(id).unwrap();
                if let Some(i) = me {
                    self.txs[i].undo.push(Undo::Del(*id, old.clone()));
                    self.txs[i].deleted.insert(*id, old);
                }
            }
            if let Some(i) = me {
                self.check_locks_held(i, &apply);
            }
            self.r.count(if me.is_some() { "op:tx_delete" } else { "op:delete" }, 1);
            self.r.count("rows_written", apply.len() as u64);
        }
    }

    fn step_select(&mut self, me: Option<usize>) {
        let cond = if self.rng.bool() { self.value_cond() } else { self.id_cond(true, me) };
        let res = match me {
            Some(i) => self.e.tx_select(self.txs[i].id, T, cond.clone()),
            None => self.e.select(T, cond.clone()),
        };
        match res {
            Ok(rows) => {
                // judged only on rows no active transaction has touched
                let touched: BTreeSet<u64> = self.txs.iter().flat_map(|t| t.touched()).collect();
                let got: BTreeSet<u64> = rows.iter().map(|r| r.id).collect();
                for (id, vals) in &self.rows {
                    if touched.contains(id) {
                        continue;
                    }
                    let want = cond.evaluate(&mk_row(*id, vals));
                    if want != got.contains(id) {
                        let d = format!("select {:?}: untouched row {} {:?} {} in the answer", cond, id, vals, if want { "is missing" } else { "must not be" });
                        self.violation("tx-select:wrong-rows-among-untouched", d);
                        self.dead = true;
                        return;
                    }
                }
                self.r.count(if me.is_some() { "op:tx_select" } else { "op:select" }, 1);
            }
            Err(e) => {
                self.violation(&format!("tx-select:error:{}", err_name(&e)), format!("select {:?} failed: {:?}", cond, e));
                self.dead = true;
            }
        }
    }

    fn step_end(&mut self, ti: usize, commit: bool) {
        // after a statement failed half-way the property only speaks about rollback
        let commit = commit && !self.txs[ti].poisoned;
        if self.txs[ti].poisoned {
            self.r.count("rollbacks_after_capacity_failure", 1);
        }
        let t = self.txs.remove(ti);
        self.trace.push(format!("t{}.{}", t.id, if commit { "commit" } else { "rollback" }));
        let res = if commit { self.e.commit(t.id) } else { self.e.rollback(t.id) };
        if let Err(e) = res {
            self.violation(&format!("{}:error:{}", if commit { "commit" } else { "rollback" }, err_name(&e)), format!("ending active transaction {} failed: {:?}", t.id, e));
            self.dead = true;
            return;
        }
        if !commit {
            for u in t.undo.iter().rev() {
                match u {
                    Undo::Ins(id) => {
                        self.rows.remove(id);
                    }
                    Undo::Upd(id, old) | Undo::Del(id, old) => {
                        self.rows.insert(*id, old.clone());
                    }
                }
            }
        }
        if self.e.is_transaction_active(t.id) {
            self.violation("end:still-active", format!("transaction {} is still active after {}", t.id, if commit { "commit" } else { "rollback" }));
            self.dead = true;
        }
        for r in t.updated.iter().chain(t.deleted.keys()) {
            self.released.push((*r, t.id));
        }
        self.finished.push(t.id);
        self.r.count(if commit { "op:commit" } else { "op:rollback" }, 1);
        self.r.count(if commit { "committed_writes" } else { "rolled_back_writes" }, t.undo.len() as u64);
    }

    fn step_reuse_finished(&mut self) {
        let Some(&id) = self.finished.last() else { return };
        let id = if self.rng.bool() { id } else { self.finished[self.rng.below(self.finished.len())] };
        let before = self.snapshot();
        let op = self.rng.below(6);
        let name = ["tx_insert", "tx_update", "tx_delete", "tx_select", "commit", "rollback"][op];
        let vals = gen_vals(&mut self.rng);
        let cond = Condition::True;
        let res: Result<(), RelationalError> = match op {
            0 => self.e.tx_insert(id, T, to_map(&vals)).map(|_| ()),
            1 => self.e.tx_update(id, T, cond, gen_updates(&mut self.rng)).map(|_| ()),
            2 => self.e.tx_delete(id, T, cond).map(|_| ()),
            3 => self.e.tx_select(id, T, cond).map(|_| ()),
            4 => self.e.commit(id),
            _ => self.e.rollback(id),
        };
        self.trace.push(format!("reuse t{} {}", id, name));
        match res {
            Ok(()) => {
                self.violation(&format!("finished-tx:accepted:{}", name), format!("{} with finished transaction id {} succeeded", name, id));
                self.dead = true;
            }
            Err(RelationalError::TransactionNotFound(_)) | Err(RelationalError::TransactionInactive(_)) => {
                if let (Some(b), Some(a)) = (&before, self.snapshot()) {
                    if !Self::snap_same(b, &a) {
                        self.violation("finished-tx:rejected-but-table-changed", format!("{} with finished id {} was rejected yet the table changed", name, id));
                        self.dead = true;
                    }
                }
                self.r.count("finished_tx_rejections", 1);
            }
            Err(e) => {
                // any refusal is acceptable per the statement; keep a count of the unusual ones
                self.r.count(&format!("finished_tx_other_error:{}", err_name(&e)), 1);
            }
        }
    }

    // ---- state checks

    fn check_stable_rows(&mut self) {
        let Some(snap) = self.snapshot() else {
            self.violation("state:select-true-failed", "select(True) failed".into());
            self.dead = true;
            return;
        };
        let touched: BTreeSet<u64> = self.txs.iter().flat_map(|t| t.touched()).collect();
        for (id, vals) in &self.rows {
            if touched.contains(id) {
                continue;
            }
            match snap.get(id) {
                None => {
                    let d = format!("row {} {:?} (not touched by any active transaction) is gone", id, vals);
                    self.violation("state:committed-row-missing", d);
                    self.dead = true;
                    return;
                }
                Some(got) => {
                    let same = got.len() == vals.len() && got.iter().zip(vals.iter()).all(|((_, g), v)| val_same(g, v));
                    if !same {
                        let d = format!("row {} (not touched by any active transaction) is {:?}, should be {:?}", id, got, vals);
                        self.violation("state:row-content-differs", d);
                        self.dead = true;
                        return;
                    }
                }
            }
        }
        for id in snap.keys() {
            if !self.rows.contains_key(id) && !touched.contains(id) {
                if let Some(origin) = self.ghosts.get(id).cloned() {
                    let d = format!("row {} {:?} was left behind by the {} and is still there after that transaction was rolled back", id, snap[id], origin);
                    self.violation("failed-insert:row-survives-rollback", d);
                    self.dead = true;
                    return;
                }
                let d = format!("row {} {:?} exists although it was never committed / was deleted or rolled back", id, snap[id]);
                self.violation("state:row-should-not-exist", d);
                self.dead = true;
                return;
            }
        }
        // locks of finished transactions must be gone
        let rel = std::mem::take(&mut self.released);
        for (row, holder) in rel {
            if self.e.tx_manager().row_lock_holder(T, row) == Some(holder) {
                self.violation("lock:still-held-after-end", format!("row {} is still locked by finished transaction {}", row, holder));
                self.dead = true;
                return;
            }
        }
        self.r.count("stable_row_checks", 1);
    }

    fn check_quiescent(&mut self) {
        if !self.txs.is_empty() || self.dead {
            return;
        }
        let locks = self.e.tx_manager().active_lock_count();
        let act = self.e.active_transaction_count();
        if locks != 0 || act != 0 {
            self.violation("quiescent:locks-or-transactions-left", format!("all transactions ended: active_lock_count={} active_transaction_count={}", locks, act));
            self.dead = true;
            return;
        }
        // battery through every physical path; the model decides with Condition::evaluate
        let mut conds: Vec<Condition> = Vec::new();
        let present: Vec<Vec<Value>> = self.rows.values().cloned().collect();
        for ci in 0..4 {
            let mut vals: Vec<Value> = present.iter().map(|r| r[ci].clone()).collect();
            vals.extend((0..3).map(|_| gen_vals(&mut self.rng)[ci].clone()));
            vals.dedup_by(|a, b| val_same(a, b));
            for v in vals.into_iter().take(10) {
                conds.push(Condition::Eq(COLS[ci].into(), v.clone()));
                if self.rng.bool() {
                    conds.push(Condition::Lt(COLS[ci].into(), v.clone()));
                } else {
                    conds.push(Condition::Ge(COLS[ci].into(), v));
                }
            }
        }
        conds.push(Condition::Ge("_id".into(), Value::Int(self.rng.range(0, self.max_id as i64))));
        conds.push(Condition::Eq("_id".into(), Value::Int(self.rng.range(0, self.max_id as i64 + 1))));
        for c in conds {
            let want = self.matching(&c);
            let vectorisable = matches!(&c, Condition::Eq(col, Value::Int(_)) | Condition::Lt(col, Value::Int(_)) | Condition::Ge(col, Value::Int(_)) if col == "k" || col == "v");
            for path in ["select", "columnar"] {
                if path == "columnar" && !vectorisable {
                    continue;
                }
                let res = if path == "select" { self.e.select(T, c.clone()) } else { self.e.select_columnar(T, c.clone(), ColumnarScanOptions { projection: None, prefer_columnar: true }) };
                match res {
                    Ok(rows) => {
                        let ids: Vec<u64> = rows.iter().map(|r| r.id).collect();
                        let got: BTreeSet<u64> = ids.iter().copied().collect();
                        if got != want || got.len() != ids.len() {
                            let idx = match &c {
                                Condition::Eq(col, _) if self.hash_idx.contains(col) => "hash-index",
                                Condition::Lt(col, _) | Condition::Ge(col, _) if self.btree_idx.contains(col) => "ordered-index",
                                _ => "scan",
                            };
                            let p = if path == "columnar" { "vectorised" } else { idx };
                            let d = format!("after all transactions ended, {} {:?} returns {:?}; the rows that satisfy it are {:?}", path, c, ids, want);
                            self.violation(&format!("quiescent:query-differs[{}]", p), d);
                            self.dead = true;
                            return;
                        }
                        self.r.count("battery_queries", 1);
                    }
                    Err(e) => {
                        self.violation(&format!("quiescent:query-error:{}", err_name(&e)), format!("{} {:?} failed: {:?}", path, c, e));
                        self.dead = true;
                        return;
                    }
                }
            }
        }
        self.r.count("quiescent_checks", 1);
    }

    fn run(&mut self, max_tx: usize) {
        if self.e.create_table(T, schema()).is_err() {
            self.r.inconclusive("create_table failed");
            return;
        }
        let pre = self.plan.pre;
        let ddl = |s: &mut Self| -> bool {
            for c in s.plan.hash.clone() {
                if s.e.create_index(T, c).is_ok() {
                    s.hash_idx.push(c.to_string());
                }
            }
            for c in s.plan.btree.clone() {
                match s.e.create_btree_index(T, c) {
                    Ok(()) => s.btree_idx.push(c.to_string()),
                    // the bound was planned to hold the initial load; a failure here would leave a
                    // half-built index, which is not this property's subject
                    Err(_) if s.plan.cap.is_some() => return false,
                    Err(_) => {}
                }
            }
            true
        };
        if pre && !ddl(self) {
            self.r.inconclusive("capacity plan: create_btree_index failed");
            return;
        }
        let n0 = self.plan.rows.len();
        for vals in self.plan.rows.clone() {
            match self.e.insert(T, to_map(&vals)) {
                Ok(id) => {
                    self.max_id = self.max_id.max(id);
                    self.rows.insert(id, vals);
                }
                Err(_) => {
                    self.r.inconclusive("initial insert failed");
                    return;
                }
            }
        }
        if !pre && !ddl(self) {
            self.r.inconclusive("capacity plan: create_btree_index failed");
            return;
        }
        if self.plan.cap.is_some() {
            self.r.count("capacity_programs_started", 1);
        }
        self.trace.push(format!("load {} rows", n0));
        self.check_stable_rows();
        self.check_quiescent();
        let steps = 12 + self.rng.below(40);
        let mut tx_statements = 0u64;
        for step_no in 0..steps {
            if self.dead {
                return;
            }
            self.step_reap_noop(step_no as u64);
            if self.dead {
                return;
            }
            let n_active = self.txs.len();
            let k = self.rng.below(100);
            if n_active == 0 || (n_active < max_tx && k < 12) {
                if k < 70 || n_active > 0 {
                    self.step_begin();
                } else {
                    // a non-transactional statement with no transaction around
                    match self.rng.below(4) {
                        0 => self.step_insert(None),
                        1 => self.step_update(None),
                        2 => self.step_delete(None),
                        _ => self.step_select(None),
                    }
                }
            } else if k < 20 {
                // non-transactional statement while transactions are active
                match self.rng.below(4) {
                    0 => self.step_insert(None),
                    1 => self.step_update(None),
                    2 => self.step_delete(None),
                    _ => self.step_select(None),
                }
            } else if k < 24 && !self.finished.is_empty() {
                self.step_reuse_finished();
            } else {
                let ti = self.rng.below(n_active);
                tx_statements += 1;
                let choice = if self.txs[ti].poisoned { 5 } else { self.rng.weighted(&[22, 30, 14, 10, 12, 12]) };
                match choice {
                    0 => self.step_insert(Some(ti)),
                    1 => self.step_update(Some(ti)),
                    2 => self.step_delete(Some(ti)),
                    3 => self.step_select(Some(ti)),
                    4 => self.step_end(ti, true),
                    _ => self.step_end(ti, false),
                }
            }
            if self.dead {
                return;
            }
            self.check_stable_rows();
            self.check_quiescent();
        }
        // finish what is still open
        while !self.txs.is_empty() && !self.dead {
            let commit = self.rng.bool();
            self.step_end(0, commit);
            if !self.dead {
                self.check_stable_rows();
            }
        }
        self.check_quiescent();
        if !self.dead {
            let h = hash_str(&self.trace.join(";"));
            let nontrivial = tx_statements >= 3 && self.finished.len() >= 1;
            self.r.eval(h, nontrivial);
            self.r.count(&format!("programs:{}", self.part), 1);
            if self.r.want_sample() {
                self.r.sample(json!({"part": self.part, "case_seed": self.seed, "program": self.trace.iter().take(14).collect::<Vec<_>>() }));
            }
        }
    }
}

fn run_program(part: &'static str, case_seed: u64, r: &mut Report, verbose: bool) {
    let mut rng = Rng::new(case_seed);
    let max_tx = if part == "seq" { 1 } else { 2 + rng.below(3) };
    let plan = make_plan(&mut rng);
    let mut s = Sim {
        rng,
        seed: case_seed,
        part,
        r,
        e: RelationalEngine::with_config(cfg_cap(10_000_000, plan.cap)),
        plan,
        ghosts: BTreeMap::new(),
        capacity_failures: 0,
        rows: BTreeMap::new(),
        max_id: 0,
        txs: Vec::new(),
        finished: Vec::new(),
        released: Vec::new(),
        hash_idx: Vec::new(),
        btree_idx: Vec::new(),
        trace: Vec::new(),
        dead: false,
        verbose,
    };
    s.run(max_tx);
}

// ------------------------------------------------------------------------------------------------
// threads: real concurrency
// ------------------------------------------------------------------------------------------------

struct WriteRec {
    row: u64,
    token: i64,
    tick: u64,
    committed: bool,
}

fn run_threads(case_seed: u64, r: &mut Report) {
    let mut rng = Rng::new(case_seed);
    let e = RelationalEngine::with_config(cfg(10_000_000));
    if e.create_table(T, schema()).is_err() {
        r.inconclusive("create_table failed");
        return;
    }
    let n_rows = 4 + rng.below(12) as u64;
    for c in ["v", "k"] {
        if rng.bool() {
            let _ = e.create_index(T, c);
        }
        if rng.bool() {
            let _ = e.create_btree_index(T, c);
        }
    }
    for i in 0..n_rows {
        let vals = vec![Value::Int(i as i64), Value::Int(0), Value::Null, Value::Float(0.0)];
        if e.insert(T, to_map(&vals)).ok() != Some(i + 1) {
            r.inconclusive("initial insert failed");
            return;
        }
    }
    let n_threads = 2 + rng.below(7);
    let iters = 20 + rng.below(60);
    let owners: Vec<Mutex<Option<u64>>> = (0..=n_rows).map(|_| Mutex::new(None)).collect();
    let tick = AtomicU64::new(1);
    let stop = AtomicBool::new(false);
    let replay = json!({"part": "threads", "case_seed": case_seed});
    // in half of the cases the reaper of timed-out transactions and the expired-lock sweep run beside
    // the workers all the time: nothing times out here (~115 days), so they must not disturb anybody
    let with_reaper = (case_seed >> 7) & 1 == 1;
    let workers_done = AtomicBool::new(false);
    let reaper_calls = AtomicU64::new(0);
    let results: Vec<(Vec<WriteRec>, Vec<(u64, i64, bool)>, Vec<(String, String)>, u64, u64)> = std::thread::scope(|s| {
        if with_reaper {
            let e = &e;
            let workers_done = &workers_done;
            let reaper_calls = &reaper_calls;
            s.spawn(move || {
                while !workers_done.load(Ordering::Relaxed) {
                    let _ = e.tx_manager().cleanup_expired();
                    let _ = e.tx_manager().cleanup_expired_locks();
                    reaper_calls.fetch_add(1, Ordering::Relaxed);
                    std::thread::sleep(Duration::from_micros(100));
                }
            });
        }
        let hs: Vec<_> = (0..n_threads)
            .map(|ti| {
                let mut trng = rng.fork(ti as u64 + 1);
                let e = &e;
                let owners = &owners;
                let tick = &tick;
                let stop = &stop;
                s.spawn(move || {
                    let mut log: Vec<WriteRec> = Vec::new();
                    let mut inserts: Vec<(u64, i64, bool)> = Vec::new();
                    let mut viol: Vec<(String, String)> = Vec::new();
                    let mut conflicts = 0u64;
                    let mut writes = 0u64;
                    for it in 0..iters {
                        if stop.load(Ordering::Relaxed) {
                            break;
                        }
                        let tx = e.begin_transaction();
                        let mut mine: Vec<u64> = Vec::new();
                        let mut pending: Vec<usize> = Vec::new();
                        let mut my_inserts: Vec<usize> = Vec::new();
                        let k = 1 + trng.below(3);
                        for j in 0..k {
                            if trng.chance(1, 6) {
                                let token = ((ti as i64 + 1) << 32) | ((it as i64) << 8) | (j as i64) | (1 << 60);
                                let vals = vec![Value::Int(1000 + ti as i64), Value::Int(token), Value::Null, Value::Float(1.0)];
                                match e.tx_insert(tx, T, to_map(&vals)) {
                                    Ok(id) => {
                                        inserts.push((id, token, false));
                                        my_inserts.push(inserts.len() - 1);
                                    }
                                    Err(er) => viol.push((format!("threads:unexpected-error:{}", err_name(&er)), format!("tx_insert failed: {:?}", er))),
                                }
                                continue;
                            }
                            let row = 1 + trng.below(n_rows as usize) as u64;
                            let token = ((ti as i64 + 1) << 32) | ((it as i64) << 8) | j as i64;
                            let mut ups = HashMap::new();
                            ups.insert("v".to_string(), Value::Int(token));
                            match e.tx_update(tx, T, Condition::Eq("_id".into(), Value::Int(row as i64)), ups) {
                                Ok(1) => {
                                    let t = tick.fetch_add(1, Ordering::SeqCst);
                                    writes += 1;
                                    let mut o = owners[row as usize].lock().unwrap();
                                    match *o {
                                        Some(other) if other != tx => {
                                            viol.push((
                                                "exclusion:concurrent-writers-on-one-row".into(),
                                                format!("tx {} updated row {} while tx {} (still before its commit/rollback call) had updated it", tx, row, other),
                                            ));
                                            stop.store(true, Ordering::Relaxed);
                                        }
                                        _ => *o = Some(tx),
                                    }
                                    drop(o);
                                    if !mine.contains(&row) {
                                        mine.push(row);
                                    }
                                    log.push(WriteRec { row, token, tick: t, committed: false });
                                    pending.push(log.len() - 1);
                                }
                                Ok(n) => viol.push(("threads:wrong-affected-count".into(), format!("tx_update Eq(_id,{}) affected {} rows", row, n))),
                                Err(RelationalError::LockConflict { .. }) => conflicts += 1,
                                Err(er) => viol.push((format!("threads:unexpected-error:{}", err_name(&er)), format!("tx_update failed: {:?}", er))),
                            }
                            if trng.chance(1, 3) {
                                std::thread::yield_now();
                            }
                        }
                        let commit = trng.chance(3, 5);
                        // shadow state is released *before* the engine releases the locks
                        for row in &mine {
                            let mut o = owners[*row as usize].lock().unwrap();
                            if *o == Some(tx) {
                                *o = None;
                            }
                        }
                        let res = if commit { e.commit(tx) } else { e.rollback(tx) };
                        match res {
                            Ok(()) => {
                                if commit {
                                    for p in pending {
                                        log[p].committed = true;
                                    }
                                    for p in my_inserts {
                                        inserts[p].2 = true;
                                    }
                                }
                            }
                            Err(er) => {
                                viol.push((format!("threads:{}-failed:{}", if commit { "commit" } else { "rollback" }, err_name(&er)), format!("{:?}", er)));
                                stop.store(true, Ordering::Relaxed);
                            }
                        }
                    }
                    (log, inserts, viol, conflicts, writes)
                })
            })
            .collect();
        let joined: Vec<_> = hs.into_iter().map(|h| h.join()).collect();
        workers_done.store(true, Ordering::Relaxed);
        joined.into_iter().map(|j| j.expect("worker thread")).collect()
    });
    r.count("threads_concurrent_reaper_calls", reaper_calls.load(Ordering::Relaxed));
    let mut all: Vec<&WriteRec> = Vec::new();
    let mut any_viol = false;
    for (log, _, viol, conflicts, writes) in &results {
        all.extend(log.iter());
        r.count("threads_lock_conflicts", *conflicts);
        r.count("threads_writes", *writes);
        for (sig, d) in viol {
            any_viol = true;
            r.violation(sig.clone(), format!("{} || {} threads x {} iterations over {} rows", d, n_threads, iters, n_rows), replay.clone());
        }
    }
    if any_viol {
        return;
    }
    // final state: every shared row carries the token of its latest committed write (lock intervals of
    // successful writers are disjoint, so ticks taken inside them order the writers), else 0
    let snap: BTreeMap<u64, Vec<(String, Value)>> = match e.select(T, Condition::True) {
        Ok(rows) => rows.into_iter().map(|r| (r.id, r.values)).collect(),
        Err(er) => {
            r.violation("threads:select-failed", format!("{:?}", er), replay);
            return;
        }
    };
    let vcol = |vals: &Vec<(String, Value)>| vals.iter().find(|(n, _)| n == "v").map(|(_, v)| v.clone());
    let mut model_v: BTreeMap<u64, i64> = BTreeMap::new();
    for row in 1..=n_rows {
        let want = all.iter().filter(|w| w.row == row && w.committed).max_by_key(|w| w.tick).map_or(0, |w| w.token);
        model_v.insert(row, want);
        let got = snap.get(&row).and_then(vcol);
        if got != Some(Value::Int(want)) {
            let hist: Vec<String> = all.iter().filter(|w| w.row == row).map(|w| format!("(tick {} token {} {})", w.tick, w.token, if w.committed { "committed" } else { "rolled back" })).collect();
            let from_rolled_back = all.iter().any(|w| w.row == row && !w.committed && Some(Value::Int(w.token)) == got);
            let sig = if from_rolled_back { "threads:rolled-back-write-visible" } else { "threads:committed-write-lost" };
            r.violation(sig, format!("row {} ends with v={:?}, the latest committed write is {}; writes: {}", row, got, want, hist.join(" ")), replay);
            return;
        }
    }
    for (_, inserts, _, _, _) in &results {
        for (id, token, committed) in inserts {
            let got = snap.get(id).and_then(vcol);
            if *committed {
                model_v.insert(*id, *token);
            }
            if *committed && got != Some(Value::Int(*token)) {
                r.violation("threads:committed-insert-lost", format!("row {} inserted with token {} and committed, found {:?}", id, token, got), replay);
                return;
            }
            if !*committed && got.is_some() {
                r.violation("threads:rolled-back-insert-visible", format!("row {} inserted and rolled back, found {:?}", id, got), replay);
                return;
            }
        }
    }
    if snap.len() != model_v.len() {
        r.violation("threads:unexpected-rows", format!("table has {} rows, expected {}", snap.len(), model_v.len()), replay);
        return;
    }
    // queries through the indexes agree with the table
    let mut tokens: BTreeSet<i64> = all.iter().map(|w| w.token).collect();
    tokens.insert(0);
    for tok in tokens {
        let want: BTreeSet<u64> = model_v.iter().filter(|(_, v)| **v == tok).map(|(k, _)| *k).collect();
        for c in [Condition::Eq("v".into(), Value::Int(tok)), Condition::Ge("v".into(), Value::Int(tok)).and(Condition::Le("v".into(), Value::Int(tok)))] {
            match e.select(T, c.clone()) {
                Ok(rows) => {
                    let ids: Vec<u64> = rows.iter().map(|r| r.id).collect();
                    let got: BTreeSet<u64> = ids.iter().copied().collect();
                    if got != want || ids.len() != got.len() {
                        r.violation("threads:index-query-differs-from-table", format!("{:?} returns {:?}, table says {:?}", c, ids, want), replay);
                        return;
                    }
                    r.count("battery_queries", 1);
                }
                Err(er) => {
                    r.violation("threads:select-failed", format!("{:?}", er), replay);
                    return;
                }
            }
        }
    }
    let locks = e.tx_manager().active_lock_count();
    let act = e.active_transaction_count();
    if locks != 0 || act != 0 {
        r.violation("quiescent:locks-or-transactions-left", format!("threads: active_lock_count={} active_transaction_count={}", locks, act), replay);
        return;
    }
    let contended = results.iter().map(|x| x.3).sum::<u64>() > 0;
    r.eval(hash_combine(case_seed, all.len() as u64), contended);
    r.count("programs:threads", 1);
}

// ------------------------------------------------------------------------------------------------
// timeout: locks disappear when the holder times out
// ------------------------------------------------------------------------------------------------

fn run_timeout(case_seed: u64, r: &mut Report) {
    let replay = json!({"part": "timeout", "case_seed": case_seed});
    let e = RelationalEngine::with_config(cfg(1));
    if e.create_table(T, schema()).is_err() || e.insert(T, to_map(&[Value::Int(1), Value::Int(0), Value::Null, Value::Float(0.0)])).is_err() {
        r.inconclusive("timeout: setup failed");
        return;
    }
    let ups = |v: i64| -> HashMap<String, Value> { [("v".to_string(), Value::Int(v))].into_iter().collect() };
    let t1 = e.begin_transaction();
    let t2 = e.begin_transaction();
    let t0 = Instant::now();
    if !matches!(e.tx_update(t1, T, Condition::True, ups(1)), Ok(1)) {
        r.inconclusive("timeout: first update failed");
        return;
    }
    let res = e.tx_update(t2, T, Condition::True, ups(2));
    let dt = t0.elapsed();
    if dt < Duration::from_millis(300) {
        match res {
            Err(RelationalError::LockConflict { .. }) => r.count("timeout_conflict_seen", 1),
            other => {
                r.violation("exclusion:write-on-row-updated-by-active-tx-succeeds", format!("1 s lock timeout, {} ms after the first writer: second writer got {:?}", dt.as_millis(), other), replay);
                return;
            }
        }
    } else {
        r.inconclusive("timeout: machine too slow for the conflict window (don't care)");
        if res.is_ok() {
            let _ = e.rollback(t2);
            let _ = e.rollback(t1);
            return;
        }
    }
    // 10x the timeout
    std::thread::sleep(Duration::from_secs(10).saturating_sub(t0.elapsed()) + Duration::from_millis(50));
    match e.tx_update(t2, T, Condition::True, ups(3)) {
        Ok(1) => r.count("timeout_release_seen", 1),
        other => {
            r.violation("lock-timeout:still-held-after-10x-timeout", format!("lock timeout 1 s; 10 s after the first writer the second writer got {:?}", other), replay);
            return;
        }
    }
    // t2 has just taken over the row whose lock t1 let expire. When the expired holder t1 now
    // ends, t2's fresh lock must survive: a third transaction still gets a lock conflict.
    let took_over = Instant::now();
    let end_t1 = if case_seed & 1 == 0 { e.rollback(t1).is_ok() } else { e.commit(t1).is_ok() };
    let t3 = e.begin_transaction();
    let res3 = e.tx_update(t3, T, Condition::True, ups(4));
    if took_over.elapsed() < Duration::from_millis(300) {
        match res3 {
            Err(RelationalError::LockConflict { .. }) => r.count("timeout_takeover_lock_survives_old_holder_end", 1),
            other => {
                r.violation(
                    "exclusion:lock-of-new-holder-removed-when-expired-holder-ends",
                    format!("t1 wrote the row and let its 1 s lock expire; t2 took the row over; t1 then ended (ok={}); a third transaction's write got {:?} although t2 is active and modified the row {} ms ago", end_t1, other, took_over.elapsed().as_millis()),
                    replay,
                );
                return;
            }
        }
    } else {
        r.inconclusive("timeout: machine too slow for the takeover window (don't care)");
    }
    let _ = e.rollback(t3);
    // t2 holds the row through a take-over of an expired lock; when t2 ends the row must be free
    let end_t2 = if case_seed & 2 == 0 { e.commit(t2).is_ok() } else { e.rollback(t2).is_ok() };
    let t4 = e.begin_transaction();
    match e.tx_update(t4, T, Condition::True, ups(5)) {
        Ok(1) => r.count("timeout_takeover_lock_released_when_new_holder_ends", 1),
        other => {
            r.violation(
                "locks:taken-over-lock-still-held-after-its-holder-ended",
                format!("t2 took over a row whose lock t1 had let expire and then ended (ok={}); right afterwards a new transaction's write on that row got {:?}; holder reported: {:?}", end_t2, other, e.tx_manager().row_lock_holder(T, 1)),
                replay,
            );
            return;
        }
    }
    let _ = e.rollback(t4);
    r.eval(hash_combine(case_seed, 0x71), true);
    r.count("programs:timeout", 1);
}


/// Locks expire one by one, not per transaction: t1 writes row A, later row B; once A's lock is
/// older than the timeout (and B's is not) t2 legitimately takes A over - B must still be t1's.
fn run_timeout_partial(case_seed: u64, r: &mut Report) {
    let replay = json!({"part": "timeout-partial", "case_seed": case_seed});
    let e = RelationalEngine::with_config(cfg(1));
    if e.create_table(T, schema()).is_err()
        || e.insert(T, to_map(&[Value::Int(1), Value::Int(0), Value::Null, Value::Float(0.0)])).is_err()
        || e.insert(T, to_map(&[Value::Int(2), Value::Int(0), Value::Null, Value::Float(0.0)])).is_err()
    {
        r.inconclusive("timeout-partial: setup failed");
        return;
    }
    let ups = |v: i64| -> HashMap<String, Value> { [("v".to_string(), Value::Int(v))].into_iter().collect() };
    let row = |k: i64| Condition::Eq("k".into(), Value::Int(k));
    let t1 = e.begin_transaction();
    let t2 = e.begin_transaction();
    let t3 = e.begin_transaction();
    let a_locked = Instant::now();
    if !matches!(e.tx_update(t1, T, row(1), ups(1)), Ok(1)) {
        r.inconclusive("timeout-partial: first update failed");
        return;
    }
    std::thread::sleep(Duration::from_millis(650 + (case_seed % 100)));
    let b_locked = Instant::now();
    if !matches!(e.tx_update(t1, T, row(2), ups(1)), Ok(1)) {
        r.inconclusive("timeout-partial: second update failed");
        return;
    }
    // past A's expiry (1 s), well inside B's
    std::thread::sleep(Duration::from_millis(1_150).saturating_sub(a_locked.elapsed()));
    if case_seed % 4 >= 2 {
        // the expired-lock sweep runs instead of a take-over; then t1 ends: "the locks disappear
        // when the first one ends" - a new writer gets row B at once, not after B's timeout
        let swept = e.tx_manager().cleanup_expired_locks();
        r.count("timeout_partial_sweep_removed", swept as u64);
        let ended = if case_seed & 1 == 0 { e.commit(t1).is_ok() } else { e.rollback(t1).is_ok() };
        let res = e.tx_update(t3, T, row(2), ups(3));
        let b_age = b_locked.elapsed();
        if b_age < Duration::from_millis(850) {
            match res {
                Ok(1) => r.count("timeout_partial_locks_gone_after_sweep_and_end", 1),
                other => {
                    r.violation(
                        "locks:lock-of-finished-tx-still-held-after-expired-lock-sweep",
                        format!(
                            "lock timeout 1 s; t1 wrote row A, {} ms later row B; the sweep removed {} expired lock(s); t1 ended (ok={}); {} ms after t1 wrote B a new transaction's write on B got {:?}",
                            b_locked.duration_since(a_locked).as_millis(), swept, ended, b_age.as_millis(), other
                        ),
                        replay,
                    );
                    return;
                }
            }
        } else {
            r.inconclusive("timeout-partial: machine too slow for the window (don't care)");
        }
        let _ = e.rollback(t3);
        let _ = e.rollback(t2);
        r.eval(hash_combine(case_seed, 0x73), true);
        r.count("programs:timeout-partial", 1);
        return;
    }
    let took = e.tx_update(t2, T, row(1), ups(2));
    if !matches!(took, Ok(1)) {
        r.count("timeout_partial_takeover_refused", 1);
    }
    let res3 = if case_seed & 1 == 0 { e.tx_update(t3, T, row(2), ups(3)) } else { e.tx_delete(t3, T, row(2)) };
    let b_age = b_locked.elapsed();
    if b_age < Duration::from_millis(850) {
        match res3 {
            Err(RelationalError::LockConflict { .. }) => r.count("timeout_partial_other_lock_survives_takeover", 1),
            other => {
                r.violation(
                    "exclusion:unexpired-lock-of-active-tx-lost-when-its-other-expired-lock-is-taken-over",
                    format!(
                        "lock timeout 1 s; t1 wrote row A, {} ms later row B; after A's lock expired t2 wrote A ({:?}); {} ms after t1 wrote B (t1 still active) a third transaction's write on B got {:?}",
                        b_locked.duration_since(a_locked).as_millis(), took, b_age.as_millis(), other
                    ),
                    replay,
                );
                return;
            }
        }
    } else {
        r.inconclusive("timeout-partial: machine too slow for the window (don't care)");
    }
    let _ = e.rollback(t3);
    let _ = e.rollback(t2);
    let _ = e.rollback(t1);
    r.eval(hash_combine(case_seed, 0x72), true);
    r.count("programs:timeout-partial", 1);
}

/// A transaction that idles past the lock timeout (but not the transaction timeout) and then
/// rolls back: nobody took its rows over, so the rollback must still undo everything.
fn run_rollback_after_expiry(case_seed: u64, r: &mut Report) {
    let replay = json!({"part": "rollback-after-expiry", "case_seed": case_seed});
    let e = RelationalEngine::with_config(cfg(1));
    if e.create_table(T, schema()).is_err() {
        r.inconclusive("rollback-after-expiry: setup failed");
        return;
    }
    if case_seed & 1 == 0 {
        let _ = e.create_index(T, "k");
        let _ = e.create_btree_index(T, "v");
    }
    for k in 1..=3i64 {
        if e.insert(T, to_map(&[Value::Int(k), Value::Int(k * 10), Value::Null, Value::Float(0.0)])).is_err() {
            r.inconclusive("rollback-after-expiry: setup failed");
            return;
        }
    }
    let snapshot = |e: &RelationalEngine| -> Vec<String> {
        let mut out = Vec::new();
        for c in [Condition::True, Condition::Ge("v".into(), Value::Int(0)), Condition::Eq("k".into(), Value::Int(2)), Condition::Eq("k".into(), Value::Int(9))] {
            let mut rows: Vec<String> = e.select(T, c.clone()).map(|rs| rs.iter().map(|x| format!("{}:{:?}", x.id, x.values)).collect()).unwrap_or_else(|er| vec![format!("error {:?}", er)]);
            rows.sort();
            out.push(format!("{:?} -> {:?}", c, rows));
        }
        out
    };
    let before = snapshot(&e);
    let ups = |v: i64| -> HashMap<String, Value> { [("v".to_string(), Value::Int(v))].into_iter().collect() };
    let t = e.begin_transaction();
    let w1 = e.tx_update(t, T, Condition::Eq("k".into(), Value::Int(1)), ups(111));
    let w2 = e.tx_insert(t, T, to_map(&[Value::Int(9), Value::Int(90), Value::Null, Value::Float(0.0)]));
    let w3 = e.tx_delete(t, T, Condition::Eq("k".into(), Value::Int(2)));
    if w1.is_err() || w2.is_err() || w3.is_err() {
        r.inconclusive("rollback-after-expiry: writes failed");
        return;
    }
    std::thread::sleep(Duration::from_millis(1_250));
    if case_seed % 3 == 0 {
        let _ = e.tx_manager().cleanup_expired_locks();
    }
    let rb = e.rollback(t);
    let after = snapshot(&e);
    if rb.is_ok() && after != before {
        let d: Vec<String> = before.iter().zip(after.iter()).filter(|(a, b)| a != b).map(|(a, b)| format!("before {} / after {}", a, b)).collect();
        r.violation(
            "rollback:ok-but-changes-survive:after-own-locks-expired",
            format!("lock timeout 1 s; update+insert+delete, 1.25 s idle, rollback() = Ok, but {}", d.join("; ")),
            replay,
        );
        return;
    }
    if rb.is_err() {
        // a refused rollback is judged only by what the statement says: it must not report success
        r.count("rollback_after_expiry_refused", 1);
    } else {
        r.count("rollback_after_expiry_restored", 1);
    }
    r.eval(hash_combine(case_seed, 0x74), true);
}

/// A rollback one of whose undo steps cannot be carried out (the transaction wrote into two tables
/// and one of them was dropped meanwhile) still ends the transaction: whatever it reports, its row
/// locks on the surviving table are gone and the surviving table is as before.
fn run_rollback_with_failing_undo(case_seed: u64, r: &mut Report) {
    let replay = json!({"part": "rollback-failing-undo", "case_seed": case_seed});
    let e = RelationalEngine::with_config(cfg(10_000_000));
    let t_other = "other_t";
    if e.create_table(T, schema()).is_err() || e.create_table(t_other, schema()).is_err() {
        r.inconclusive("rollback-failing-undo: setup failed");
        return;
    }
    if case_seed & 1 == 0 {
        let _ = e.create_index(T, "k");
        let _ = e.create_btree_index(T, "v");
    }
    for k in 1..=3i64 {
        let _ = e.insert(T, to_map(&[Value::Int(k), Value::Int(k * 10), Value::Null, Value::Float(0.0)]));
        let _ = e.insert(t_other, to_map(&[Value::Int(k), Value::Int(k * 10), Value::Null, Value::Float(0.0)]));
    }
    let rows = |e: &RelationalEngine| -> Vec<String> {
        let mut out = Vec::new();
        for c in [Condition::True, Condition::Ge("v".into(), Value::Int(0)), Condition::Eq("k".into(), Value::Int(2))] {
            let mut v: Vec<String> = e.select(T, c.clone()).map(|rs| rs.iter().map(|x| format!("{}:{:?}", x.id, x.values)).collect()).unwrap_or_else(|er| vec![format!("error {:?}", er)]);
            v.sort();
            out.push(format!("{:?} -> {:?}", c, v));
        }
        out
    };
    let before = rows(&e);
    let ups = |v: i64| -> HashMap<String, Value> { [("v".to_string(), Value::Int(v))].into_iter().collect() };
    let t1 = e.begin_transaction();
    let w1 = e.tx_update(t1, T, Condition::Eq("k".into(), Value::Int(1)), ups(111));
    let w2 = if case_seed & 2 == 0 {
        e.tx_insert(t1, t_other, to_map(&[Value::Int(9), Value::Int(90), Value::Null, Value::Float(0.0)])).map(|_| 1)
    } else {
        e.tx_update(t1, t_other, Condition::Eq("k".into(), Value::Int(2)), ups(222))
    };
    if w1.is_err() || w2.is_err() {
        r.inconclusive("rollback-failing-undo: writes failed");
        return;
    }
    if e.drop_table(t_other).is_err() {
        // the engine refuses the DDL while a transaction has touched the table: nothing to judge
        let _ = e.rollback(t1);
        r.count("rollback_failing_undo_drop_refused", 1);
        r.eval(hash_combine(case_seed, 0x75), true);
        return;
    }
    let rb = e.rollback(t1);
    r.count(if rb.is_ok() { "rollback_failing_undo_reported_ok" } else { "rollback_failing_undo_reported_error" }, 1);
    let after = rows(&e);
    if after != before {
        let d: Vec<String> = before.iter().zip(after.iter()).filter(|(a, b)| a != b).map(|(a, b)| format!("before {} / after {}", a, b)).collect();
        r.violation("rollback:surviving-table-differs-after-rollback-with-failing-undo", format!("rollback() = {:?}; {}", rb.as_ref().map(|_| ()), d.join("; ")), replay);
        return;
    }
    let t2 = e.begin_transaction();
    match e.tx_update(t2, T, Condition::Eq("k".into(), Value::Int(1)), ups(5)) {
        Ok(1) => r.count("rollback_failing_undo_locks_released", 1),
        other => {
            r.violation(
                "locks:still-held-after-rollback-with-failing-undo",
                format!("t1 wrote a row of {} and of a second table, the second table was dropped, rollback(t1) = {:?}; afterwards a new transaction's write on the row of {} got {:?}; holder reported {:?}; using t1 again: {:?}", T, rb.as_ref().map(|_| ()), T, other, e.tx_manager().row_lock_holder(T, 1), e.tx_update(t1, T, Condition::True, ups(6)).map(|_| ())),
                replay,
            );
            return;
        }
    }
    let _ = e.rollback(t2);
    r.eval(hash_combine(case_seed, 0x75), true);
}

// ------------------------------------------------------------------------------------------------
// reap: the locks of a transaction disappear when it times out
// ------------------------------------------------------------------------------------------------
//
// A transaction "times out" when it is older than `transaction_timeout_secs` and the reaper,
// `TransactionManager::cleanup_expired()`, removes it. The statement demands that its row locks are
// gone then - all of them, whatever their own age: a lock's clock starts when the row is written, not
// when the transaction began, so a row written late in the transaction's life carries a lock that is
// far from its own expiry when the transaction times out.
//
//   reap        : clock-free. transaction_timeout_secs = 0 (a transaction is timed out as soon as the
//                 millisecond clock has advanced past its begin), lock_timeout_secs ~115 days (no lock
//                 ever expires by itself). 1-4 transactions write single rows and id ranges (update /
//                 delete) in a random interleaving, some end normally, the clock is watched until it
//                 is >= 2 ms past the last begin, then the reaper runs (sometimes after the expired-
//                 lock sweep). Demanded: no row is still locked by a transaction that was open at the
//                 reap; a new transaction's write on each of those rows is not refused with
//                 LockConflict; a reaped id is refused; the lock table is empty once the new writer
//                 has ended.
//   reap-timed  : the configuration shipped as default shape, lock timeout <= transaction timeout
//                 (2 s / 2 s; one variant in four keeps the locks for ~115 days): an old transaction
//                 writes one row at once (optional) and another one 0.9-1.4 s into its life, a young
//                 transaction begins at 1.45 s and writes a third row, the reaper runs 2.25 s after the
//                 old one began. Demanded: the late row is not locked by the old transaction any more
//                 and a new writer is not refused because of it (no window needed: a lock that expired
//                 by itself is not reported either); while the young transaction is younger than 1.5 s
//                 it is still active, still excludes a writer from its row and can commit.

fn cfg_timeouts(transaction_timeout_secs: u64, lock_timeout_secs: u64) -> RelationalConfig {
    RelationalConfig {
        default_query_timeout_ms: None,
        max_query_timeout_ms: None,
        transaction_timeout_secs,
        lock_timeout_secs,
        ..RelationalConfig::default()
    }
}

fn sys_ms() -> u64 {
    std::time::SystemTime::now().duration_since(std::time::UNIX_EPOCH).map(|d| d.as_millis() as u64).unwrap_or(0)
}

fn set_v(v: i64) -> HashMap<String, Value> {
    [("v".to_string(), Value::Int(v))].into_iter().collect()
}

fn id_eq(id: u64) -> Condition {
    Condition::Eq("_id".into(), Value::Int(id as i64))
}

fn run_reap(case_seed: u64, r: &mut Report) {
    let replay = json!({"part": "reap", "case_seed": case_seed});
    let mut rng = Rng::new(case_seed);
    let e = RelationalEngine::with_config(cfg_timeouts(0, 10_000_000));
    if e.create_table(T, schema()).is_err() {
        r.inconclusive("reap: create_table failed");
        return;
    }
    let mut idx = Vec::new();
    for c in ["k", "v"] {
        if rng.bool() && e.create_index(T, c).is_ok() {
            idx.push(format!("hash({})", c));
        }
        if rng.bool() && e.create_btree_index(T, c).is_ok() {
            idx.push(format!("ordered({})", c));
        }
    }
    let n_rows = 4 + rng.below(9) as u64;
    for i in 0..n_rows {
        let vals = vec![Value::Int(i as i64), Value::Int((i % 3) as i64), Value::Null, Value::Float(0.0)];
        if e.insert(T, to_map(&vals)).ok() != Some(i + 1) {
            r.inconclusive("reap: initial insert failed");
            return;
        }
    }
    let n_tx = 1 + rng.below(4);
    let mut txs: Vec<u64> = Vec::new();
    let mut held: Vec<BTreeSet<u64>> = Vec::new();
    let mut open: Vec<bool> = Vec::new();
    let mut trace: Vec<String> = vec![format!("{} rows, indexes {:?}", n_rows, idx)];
    let mut last_begin_ms = sys_ms();
    let mut conflicts = 0u64;
    let steps = 2 + rng.below(12);
    macro_rules! fail {
        ($sig:expr, $d:expr) => {{
            r.violation($sig, format!("{} || transaction timeout 0 s, lock timeout ~115 days | program: {}", $d, trace.join("; ")), replay.clone());
            return;
        }};
    }
    for _ in 0..steps {
        let live: Vec<usize> = (0..txs.len()).filter(|i| open[*i]).collect();
        if txs.len() < n_tx && (live.is_empty() || rng.chance(1, 3)) {
            let id = e.begin_transaction();
            last_begin_ms = sys_ms();
            trace.push(format!("t{}=begin", id));
            txs.push(id);
            held.push(BTreeSet::new());
            open.push(true);
            continue;
        }
        if live.is_empty() {
            continue;
        }
        let ti = live[rng.below(live.len())];
        let tx = txs[ti];
        match rng.weighted(&[40, 22, 16, 12, 10]) {
            k @ (0 | 2) => {
                let row = 1 + rng.below(n_rows as usize) as u64;
                let res = if k == 0 { e.tx_update(tx, T, id_eq(row), set_v(100 + tx as i64)) } else { e.tx_delete(tx, T, id_eq(row)) };
                trace.push(format!("t{}.{} _id={} -> {}", tx, if k == 0 { "update" } else { "delete" }, row, match &res { Ok(n) => format!("Ok({})", n), Err(er) => err_name(er) }));
                match res {
                    Ok(1) => {
                        let h = e.tx_manager().row_lock_holder(T, row);
                        if h != Some(tx) {
                            fail!("lock:not-held-after-write", format!("tx {} wrote row {} but row_lock_holder = {:?}", tx, row, h));
                        }
                        held[ti].insert(row);
                    }
                    Ok(_) => {}
                    Err(RelationalError::LockConflict { .. }) => conflicts += 1,
                    Err(er) => fail!(format!("tx-write:unexpected-error:{}", err_name(&er)), format!("write of tx {} on row {} failed: {:?}", tx, row, er)),
                }
            }
            1 => {
                let a = 1 + rng.below(n_rows as usize) as u64;
                let b = (a + rng.below(4) as u64).min(n_rows);
                let c = Condition::Ge("_id".into(), Value::Int(a as i64)).and(Condition::Le("_id".into(), Value::Int(b as i64)));
                let res = e.tx_update(tx, T, c, set_v(200 + tx as i64));
                trace.push(format!("t{}.update _id in {}..={} -> {}", tx, a, b, match &res { Ok(n) => format!("Ok({})", n), Err(er) => err_name(er) }));
                match res {
                    Ok(n) => {
                        // which rows of the range it wrote is read off the lock table right away
                        let mine: Vec<u64> = (a..=b).filter(|row| e.tx_manager().row_lock_holder(T, *row) == Some(tx)).collect();
                        if mine.len() < n {
                            fail!("lock:not-held-after-write", format!("tx {} updated {} rows of _id {}..={} but holds the locks of {:?} only", tx, n, a, b, mine));
                        }
                        held[ti].extend(mine);
                    }
                    Err(RelationalError::LockConflict { .. }) => conflicts += 1,
                    Err(er) => fail!(format!("tx-write:unexpected-error:{}", err_name(&er)), format!("range update of tx {} failed: {:?}", tx, er)),
                }
            }
            3 => {
                // the transaction ends in the ordinary way before anything is reaped
                let commit = rng.bool();
                let res = if commit { e.commit(tx) } else { e.rollback(tx) };
                trace.push(format!("t{}.{}", tx, if commit { "commit" } else { "rollback" }));
                if let Err(er) = res {
                    fail!(format!("{}:error:{}", if commit { "commit" } else { "rollback" }, err_name(&er)), format!("ending active transaction {} failed: {:?}", tx, er));
                }
                open[ti] = false;
                for row in &held[ti] {
                    if e.tx_manager().row_lock_holder(T, *row) == Some(tx) {
                        fail!("lock:still-held-after-end", format!("row {} is still locked by finished transaction {}", row, tx));
                    }
                }
            }
            _ => {
                // idle: the rows written so far get older than the ones written afterwards
                std::thread::sleep(Duration::from_millis(1));
                trace.push(format!("t{} idle", tx));
            }
        }
    }
    let victims: Vec<usize> = (0..txs.len()).filter(|i| open[*i]).collect();
    let locks_before: u64 = victims.iter().map(|i| held[*i].len() as u64).sum();
    // every open transaction is timed out once the millisecond clock is past its begin
    std::thread::sleep(Duration::from_millis(2));
    let mut spins = 0;
    while sys_ms() < last_begin_ms + 2 {
        std::thread::sleep(Duration::from_millis(1));
        spins += 1;
        if spins > 5_000 {
            r.inconclusive("reap: the system clock does not advance");
            return;
        }
    }
    let swept = if rng.chance(1, 3) { Some(e.tx_manager().cleanup_expired_locks()) } else { None };
    let reaped = e.tx_manager().cleanup_expired();
    trace.push(format!("sweep -> {:?}; reap -> {}", swept, reaped));
    r.count("reap_transactions_open_at_reap", victims.len() as u64);
    r.count("reap_transactions_removed_by_reaper", reaped as u64);
    r.count("reap_locks_held_by_timed_out_tx_before_reap", locks_before);
    for &ti in &victims {
        for row in &held[ti] {
            let h = e.tx_manager().row_lock_holder(T, *row);
            if h == Some(txs[ti]) {
                fail!(
                    "locks:lock-of-timed-out-transaction-still-held-after-reap",
                    format!(
                        "transaction {} wrote row {} and then timed out; TransactionManager::cleanup_expired() = {} (transaction still active: {}); row_lock_holder({}) = {:?}, is_row_locked = {}, active_lock_count = {}",
                        txs[ti], row, reaped, e.is_transaction_active(txs[ti]), row, h, e.tx_manager().is_row_locked(T, *row), e.tx_manager().active_lock_count()
                    )
                );
            }
            r.count("reap_locks_gone_after_reap", 1);
        }
    }
    // a transaction that begins now gets every one of those rows
    let tn = e.begin_transaction();
    for &ti in &victims {
        for row in &held[ti] {
            match e.tx_update(tn, T, id_eq(*row), set_v(777)) {
                Ok(_) => r.count("reap_rows_given_to_new_writer_after_reap", 1),
                Err(RelationalError::LockConflict { blocking_tx, .. }) => {
                    fail!(
                        "locks:lock-of-timed-out-transaction-still-held-after-reap",
                        format!("transaction {} wrote row {} and then timed out; after TransactionManager::cleanup_expired() = {} a new transaction's write on the row is refused with LockConflict(blocking_tx = {})", txs[ti], row, reaped, blocking_tx)
                    );
                }
                Err(er) => fail!(format!("tx-write:unexpected-error:{}", err_name(&er)), format!("write of the new transaction {} on row {} failed: {:?}", tn, row, er)),
            }
        }
    }
    // a transaction the reaper has removed cannot be used again
    for &ti in &victims {
        let id = txs[ti];
        if e.is_transaction_active(id) {
            r.count("reap_timed_out_transaction_still_active_after_reap", 1);
            let _ = e.rollback(id);
            continue;
        }
        let op = rng.below(5);
        let name = ["tx_insert", "tx_update", "tx_delete", "commit", "rollback"][op];
        let res: Result<(), RelationalError> = match op {
            0 => e.tx_insert(id, T, to_map(&[Value::Int(99), Value::Int(9), Value::Null, Value::Float(0.0)])).map(|_| ()),
            1 => e.tx_update(id, T, Condition::True, set_v(9)).map(|_| ()),
            2 => e.tx_delete(id, T, Condition::True).map(|_| ()),
            3 => e.commit(id),
            _ => e.rollback(id),
        };
        match res {
            Ok(()) => fail!(format!("finished-tx:accepted-after-timeout-reap:{}", name), format!("{} with transaction id {} succeeded after that transaction had timed out and been removed by the reaper", name, id)),
            Err(_) => r.count("reap_reaped_id_refused", 1),
        }
    }
    let end = if rng.bool() { e.commit(tn) } else { e.rollback(tn) };
    if let Err(er) = end {
        fail!(format!("commit:error:{}", err_name(&er)), format!("ending the new transaction {} failed: {:?}", tn, er));
    }
    let locks = e.tx_manager().active_lock_count();
    if locks != 0 {
        fail!("quiescent:locks-or-transactions-left", format!("reap: every transaction has ended or timed out and been reaped, active_lock_count = {}", locks));
    }
    r.count("reap_lock_conflicts_before_reap", conflicts);
    r.eval(hash_str(&trace.join(";")), locks_before >= 1 && !victims.is_empty());
    r.count("programs:reap", 1);
    if r.want_sample() && locks_before >= 2 {
        r.sample(json!({"part": "reap", "case_seed": case_seed, "program": trace}));
    }
}

fn sleep_until(t0: Instant, ms: u64) {
    std::thread::sleep(Duration::from_millis(ms).saturating_sub(t0.elapsed()));
}

fn run_reap_timed(case_seed: u64, r: &mut Report) {
    let replay = json!({"part": "reap-timed", "case_seed": case_seed});
    const TX_MS: u64 = 2_000;
    let lock_secs: u64 = if case_seed & 3 == 3 { 10_000_000 } else { 2 };
    let lock_ms = lock_secs.saturating_mul(1_000);
    let e = RelationalEngine::with_config(cfg_timeouts(TX_MS / 1_000, lock_secs));
    if e.create_table(T, schema()).is_err() {
        r.inconclusive("reap-timed: setup failed");
        return;
    }
    if case_seed & 1 == 0 {
        let _ = e.create_index(T, "k");
        let _ = e.create_btree_index(T, "v");
    }
    for k in 1..=4i64 {
        if e.insert(T, to_map(&[Value::Int(k), Value::Int(k * 10), Value::Null, Value::Float(0.0)])).ok() != Some(k as u64) {
            r.inconclusive("reap-timed: setup failed");
            return;
        }
    }
    let early_write = case_seed & 2 != 0;
    let late_is_delete = case_seed & 4 != 0;
    let late_at = 900 + (case_seed >> 4) % 500;
    let told = e.begin_transaction();
    let old_begun = Instant::now(); // the engine's clock for `told` started before this instant
    if early_write && !matches!(e.tx_update(told, T, id_eq(1), set_v(11)), Ok(1)) {
        r.count("reap_timed_setup_write_refused", 1);
        return;
    }
    sleep_until(old_begun, late_at);
    let late_locked = Instant::now(); // the late lock is younger than this instant
    let w = if late_is_delete { e.tx_delete(told, T, id_eq(2)) } else { e.tx_update(told, T, id_eq(2), set_v(22)) };
    if !matches!(w, Ok(1)) {
        r.count("reap_timed_setup_write_refused", 1);
        return;
    }
    sleep_until(old_begun, 1_450);
    let young_begun = Instant::now(); // the young transaction and its lock are younger than this instant
    let young = e.begin_transaction();
    if !matches!(e.tx_update(young, T, id_eq(3), set_v(33)), Ok(1)) {
        r.count("reap_timed_setup_write_refused", 1);
        return;
    }
    // the old transaction is 250 ms past its timeout
    sleep_until(old_begun, TX_MS + 250);
    let reaped = e.tx_manager().cleanup_expired();
    let ctx = format!(
        "transaction timeout 2 s, lock timeout {} s; old transaction {} began, {}wrote row 2 ({}) {} ms later; young transaction {} began {} ms after the old one and wrote row 3; TransactionManager::cleanup_expired() = {} ran {} ms after the old one began",
        lock_secs, told, if early_write { "wrote row 1 at once, " } else { "" }, if late_is_delete { "delete" } else { "update" }, late_at, young,
        young_begun.duration_since(old_begun).as_millis(), reaped, old_begun.elapsed().as_millis()
    );
    r.count("reap_timed_transactions_removed_by_reaper", reaped as u64);
    // 1. every lock of the timed-out transaction is gone, also the one that is far from its own expiry
    for row in [1u64, 2] {
        let h = e.tx_manager().row_lock_holder(T, row);
        if h == Some(told) {
            r.violation(
                "locks:lock-of-timed-out-transaction-still-held-after-reap",
                format!("{}; afterwards row_lock_holder({}) = {:?} (old transaction still active: {}), active_lock_count = {}", ctx, row, h, e.is_transaction_active(told), e.tx_manager().active_lock_count()),
                replay,
            );
            return;
        }
    }
    let t3 = e.begin_transaction();
    let res2 = e.tx_update(t3, T, id_eq(2), set_v(5));
    if let Err(RelationalError::LockConflict { blocking_tx, .. }) = &res2 {
        if *blocking_tx == told {
            r.violation("locks:lock-of-timed-out-transaction-still-held-after-reap", format!("{}; afterwards a new transaction's write on row 2 is refused with LockConflict(blocking_tx = {})", ctx, blocking_tx), replay);
            return;
        }
    }
    if (late_locked.elapsed().as_millis() as u64) + 400 < lock_ms {
        // the lock could not have expired by itself yet: its absence is the reaper's doing
        r.count("reap_timed_young_lock_of_timed_out_tx_gone", 1);
    } else {
        r.count("reap_timed_window_missed", 1);
    }
    // 2. the young transaction is not touched
    let active = e.is_transaction_active(young);
    let res3 = e.tx_update(t3, T, id_eq(3), set_v(6));
    let end_young = e.commit(young);
    let young_age = young_begun.elapsed().as_millis() as u64;
    if young_age + 500 < TX_MS && young_age + 500 < lock_ms {
        if !active {
            r.violation("reap:live-transaction-removed-before-its-timeout", format!("{}; the young transaction ({} ms old) is no longer active", ctx, young_age), replay);
            return;
        }
        if !matches!(res3, Err(RelationalError::LockConflict { .. })) {
            r.violation(
                "exclusion:lock-of-live-transaction-lost-when-another-transaction-is-reaped",
                format!("{}; a third transaction's write on row 3 got {:?} although the young transaction (<= {} ms old, active) had modified it", ctx, res3, young_age),
                replay,
            );
            return;
        }
        if let Err(er) = &end_young {
            r.violation(format!("commit:error:{}", err_name(er)), format!("{}; committing the young transaction (<= {} ms old) failed: {:?}", ctx, young_age, er), replay);
            return;
        }
        r.count("reap_timed_live_transaction_and_lock_survive_reap", 1);
    } else {
        r.count("reap_timed_window_missed", 1);
    }
    let _ = e.rollback(t3);
    r.eval(hash_combine(case_seed & 7, hash_combine(late_at, 0x76)), true);
    r.count("programs:reap-timed", 1);
}

// ------------------------------------------------------------------------------------------------
// scanrace: a wide multi-row statement of one transaction races small committed writes of others
// ------------------------------------------------------------------------------------------------
//
// tx_update / tx_delete find their rows with a scan that holds no lock and only then take the row
// locks. Whatever another transaction commits on one of those rows between the scan and the lock is
// part of the state the statement runs on: the pre-image (row and index values) that a later rollback
// restores must be the row as it is once the lock is held. The seq/interleave parts drive every call
// to completion from one thread, so nothing can happen inside a call; the threads part uses 4-16 row
// tables where that window is a few hundred nanoseconds. Here the table has hundreds to thousands of
// rows and the statement of transaction B matches a large share of them, so the window is wide, and
// 1-3 other threads run small single-row transactions (explicit + commit, explicit + rollback, or the
// implicit transaction of update()/delete_rows()) on rows B's statement matches, starting at the
// same barrier.

#[derive(Clone, Debug)]
enum AEnd {
    Commit,
    Rollback,
    Implicit,
}

#[derive(Clone, Debug)]
struct AOp {
    /// None = delete the row
    set: Option<Vec<(usize, Value)>>,
    end: AEnd,
}

#[derive(Clone, Debug)]
enum BEnd {
    Commit,
    Rollback,
    /// non-transactional update()/delete_rows(): the engine commits its internal transaction
    Implicit,
}

struct AOut {
    /// per op carried to a definite answer: did it find its row (Ok(1)) or not (Ok(0))
    done: Vec<bool>,
    /// (tick before begin, tick after commit/rollback returned) of attempts that found the row
    spans: Vec<(u64, u64, bool)>,
    conflicts: u64,
    invisible: u64,
    viol: Vec<(String, String)>,
}

struct BOut {
    /// (tick before the call, tick after it returned, Ok(n) / None = LockConflict)
    attempts: Vec<(u64, u64, Option<usize>)>,
    ended_ok: bool,
    viol: Vec<(String, String)>,
}

fn sr_apply(row: &mut [Value], cols: &[(usize, Value)]) {
    for (ci, v) in cols {
        row[*ci] = v.clone();
    }
}

fn sr_same(a: &Option<Vec<Value>>, b: &Option<Vec<Value>>) -> bool {
    match (a, b) {
        (None, None) => true,
        (Some(x), Some(y)) => x.len() == y.len() && x.iter().zip(y.iter()).all(|(p, q)| val_same(p, q)),
        _ => false,
    }
}

fn sr_updates(cols: &[(usize, Value)]) -> HashMap<String, Value> {
    cols.iter().map(|(ci, v)| (COLS[*ci].to_string(), v.clone())).collect()
}

fn sr_spin(d: Duration) {
    // workload shaping only: shifts the start of one side of the race
    let t = Instant::now();
    while t.elapsed() < d {
        std::hint::spin_loop();
    }
}

/// Every final state of one row (and whether A's ops found the row, and whether B's statement
/// touched it) that some order "B's single statement somewhere among A's ops" explains.
/// `b`: None = B left no effect (rolled back / statement never succeeded), Some(None) = committed
/// delete, Some(Some(cols)) = committed update. With `lenient`, B's statement is also allowed to
/// act on a row that matched its condition in an *earlier* state of this order (the statement says
/// nothing about when a WHERE clause is evaluated).
#[allow(clippy::type_complexity)]
fn sr_explanations(id: u64, orig: &[Value], ops: &[(AOp, bool)], cond: &Condition, b: &Option<Option<Vec<(usize, Value)>>>) -> Vec<(Option<Vec<Value>>, Vec<bool>, bool)> {
    let mut out = Vec::new();
    let m = ops.len();
    let positions: Vec<usize> = if b.is_some() { (0..=m).collect() } else { vec![0] };
    for p in positions {
        for lenient in [false, true] {
            if lenient && b.is_none() {
                continue;
            }
            let mut st: Option<Vec<Value>> = Some(orig.to_vec());
            let mut flags = Vec::new();
            let mut matched_earlier = false;
            let mut touched = false;
            for i in 0..=m {
                if i == p {
                    if let (Some(bk), Some(row)) = (b, st.clone()) {
                        let now = cond.evaluate(&mk_row(id, &row));
                        if now || (lenient && matched_earlier) {
                            touched = true;
                            match bk {
                                None => st = None,
                                Some(cols) => {
                                    let mut r2 = row;
                                    sr_apply(&mut r2, cols);
                                    st = Some(r2);
                                }
                            }
                        }
                    }
                }
                if i == m {
                    break;
                }
                if let Some(row) = &st {
                    if cond.evaluate(&mk_row(id, row)) {
                        matched_earlier = true;
                    }
                }
                let (op, _) = &ops[i];
                match &mut st {
                    None => flags.push(false),
                    Some(row) => {
                        flags.push(true);
                        if !matches!(op.end, AEnd::Rollback) {
                            match &op.set {
                                None => st = None,
                                Some(cols) => sr_apply(row, cols),
                            }
                        }
                    }
                }
            }
            out.push((st, flags, touched));
        }
    }
    out
}

fn run_scanrace(case_seed: u64, big: bool, stop_at: Option<Instant>, r: &mut Report) {
    use std::sync::Barrier;
    let replay = json!({"part": if big { "scanrace-big" } else { "scanrace" }, "case_seed": case_seed});
    let mut rng = Rng::new(case_seed);
    let e = RelationalEngine::with_config(cfg(10_000_000));
    if e.create_table(T, schema()).is_err() {
        r.inconclusive("scanrace: create_table failed");
        return;
    }
    let n_rows = if big { 1_500 + rng.below(4_500) } else { 500 + rng.below(2_000) };
    let groups = ["g0", "g1", "g2", "out"];
    let mut hash_idx: Vec<&str> = Vec::new();
    let mut btree_idx: Vec<&str> = Vec::new();
    let pre = rng.bool();
    let mut plan_h = Vec::new();
    let mut plan_b = Vec::new();
    for c in ["v", "s", "f", "k"] {
        if rng.chance(1, 2) {
            plan_h.push(c);
        }
        if c != "s" && rng.chance(2, 5) {
            plan_b.push(c);
        }
    }
    let ddl = |hash_idx: &mut Vec<&'static str>, btree_idx: &mut Vec<&'static str>| {
        for c in &plan_h {
            if e.create_index(T, c).is_ok() {
                hash_idx.push(*c);
            }
        }
        for c in &plan_b {
            if e.create_btree_index(T, c).is_ok() {
                btree_idx.push(*c);
            }
        }
    };
    if pre {
        ddl(&mut hash_idx, &mut btree_idx);
    }
    let mut rows: BTreeMap<u64, Vec<Value>> = BTreeMap::new();
    let mut next_k = 0i64;
    let fresh_row = |next_k: &mut i64, rng: &mut Rng| -> Vec<Value> {
        let k = *next_k;
        *next_k += 1;
        let g = if rng.chance(1, 8) { "out" } else { groups[(k % 3) as usize] };
        vec![Value::Int(k), Value::Int(k % 11), Value::String(g.to_string()), Value::Float(0.5 + (k % 7) as f64)]
    };
    for _ in 0..n_rows {
        let vals = fresh_row(&mut next_k, &mut rng);
        match e.insert(T, to_map(&vals)) {
            Ok(id) => {
                rows.insert(id, vals);
            }
            Err(_) => {
                r.inconclusive("scanrace: initial insert failed");
                return;
            }
        }
    }
    if !pre {
        ddl(&mut hash_idx, &mut btree_idx);
    }
    // how long one pass over the table takes here (only used to place the start of one side)
    let t_scan = {
        let t = Instant::now();
        let _ = e.select(T, Condition::True);
        t.elapsed()
    };
    let n_rounds = 8 + rng.below(12);
    let mut token = 1_000i64;
    let mut next_token = || {
        token += 1;
        token
    };
    let snapshot_of = |e: &RelationalEngine| -> Result<BTreeMap<u64, Vec<Value>>, String> {
        let got = e.select(T, Condition::True).map_err(|er| format!("{:?}", er))?;
        let mut m = BTreeMap::new();
        for row in got {
            let mut vals = Vec::with_capacity(4);
            for c in COLS {
                match row.values.iter().find(|(n, _)| n == c) {
                    Some((_, v)) => vals.push(v.clone()),
                    None => return Err(format!("row {} has no column {}", row.id, c)),
                }
            }
            if m.insert(row.id, vals).is_some() {
                return Err(format!("select(True) returns row {} twice", row.id));
            }
        }
        Ok(m)
    };

    for round in 0..n_rounds {
        // ---- plan the round
        let live: Vec<u64> = rows.keys().copied().collect();
        // the budget only ends the workload (every finished round has been judged completely)
        if live.len() < 50 || stop_at.is_some_and(|t| Instant::now() > t) {
            break;
        }
        let kmax = next_k;
        let cond = match rng.below(6) {
            0 | 1 => Condition::Eq("s".into(), Value::String(groups[rng.below(3)].to_string())),
            2 => Condition::Ne("s".into(), Value::String("out".to_string())),
            3 => {
                let lo = rng.range(0, kmax / 2);
                let hi = lo + kmax / 4 + rng.range(0, kmax / 2);
                Condition::Ge("k".into(), Value::Int(lo)).and(Condition::Lt("k".into(), Value::Int(hi)))
            }
            4 => Condition::Eq("s".into(), Value::String(groups[rng.below(3)].to_string())).or(Condition::Eq("s".into(), Value::String(groups[rng.below(3)].to_string()))),
            _ => Condition::True,
        };
        let b_tok = next_token();
        let b_kind: Option<Vec<(usize, Value)>> = if rng.chance(3, 10) {
            None
        } else {
            Some(match rng.below(3) {
                0 => vec![(3, Value::Float(b_tok as f64))],
                1 => vec![(1, Value::Int(b_tok))],
                _ => vec![(1, Value::Int(b_tok)), (3, Value::Float(b_tok as f64))],
            })
        };
        let b_end = match rng.below(10) {
            0..=5 => BEnd::Rollback,
            6..=8 => BEnd::Commit,
            _ => BEnd::Implicit,
        };
        // a committed wide delete shrinks the table a lot: keep those rare
        let b_end = if b_kind.is_none() && !matches!(b_end, BEnd::Rollback) && rng.chance(2, 3) { BEnd::Rollback } else { b_end };
        let matching: Vec<u64> = live.iter().copied().filter(|id| cond.evaluate(&mk_row(*id, &rows[id]))).collect();
        let n_a = 1 + rng.below(3);
        let mut targets: Vec<u64> = Vec::new();
        for _ in 0..n_a {
            for _try in 0..8 {
                let id = if !matching.is_empty() && rng.chance(5, 6) { matching[rng.below(matching.len())] } else { live[rng.below(live.len())] };
                if !targets.contains(&id) {
                    targets.push(id);
                    break;
                }
            }
        }
        let mut a_plans: Vec<(u64, i64, Vec<AOp>)> = Vec::new();
        for id in &targets {
            let k = match rows[id][0] {
                Value::Int(k) => k,
                _ => 0,
            };
            let n_ops = 1 + rng.below(3);
            let mut ops = Vec::new();
            for _ in 0..n_ops {
                let tok = next_token();
                let end = match rng.below(10) {
                    0..=4 => AEnd::Commit,
                    5..=7 => AEnd::Implicit,
                    _ => AEnd::Rollback,
                };
                let op = if !matches!(end, AEnd::Rollback) && rng.chance(1, 5) {
                    AOp { set: None, end }
                } else {
                    let mut cols = vec![(1usize, Value::Int(tok))];
                    if rng.chance(1, 3) {
                        cols.push((3, Value::Float(tok as f64)));
                    }
                    // a rolled-back write never touches what B's condition reads (no isolation level is demanded)
                    if !matches!(end, AEnd::Rollback) && rng.chance(1, 3) {
                        cols.push((2, Value::String(groups[rng.below(4)].to_string())));
                    }
                    if rng.chance(1, 6) {
                        cols.remove(0);
                        if cols.is_empty() {
                            cols.push((3, Value::Float(tok as f64)));
                        }
                    }
                    AOp { set: Some(cols), end }
                };
                let is_del = op.set.is_none();
                ops.push(op);
                if is_del {
                    break;
                }
            }
            a_plans.push((*id, k, ops));
        }
        // who starts late, and by how much of one table pass
        let late = rng.below(4);
        let frac = rng.below(100) as u32;
        let delay = t_scan * frac / 100;
        let (delay_a, delay_b) = match late {
            0 => (delay, Duration::ZERO),
            1 => (Duration::ZERO, delay),
            _ => (Duration::ZERO, Duration::ZERO),
        };

        // ---- run it
        let tick = AtomicU64::new(1);
        let b_done = AtomicBool::new(false);
        let barrier = Barrier::new(a_plans.len() + 1);
        let (b_out, a_outs): (BOut, Vec<AOut>) = std::thread::scope(|s| {
            let hb = {
                let (e, tick, b_done, barrier, cond, b_kind, b_end) = (&e, &tick, &b_done, &barrier, &cond, &b_kind, &b_end);
                s.spawn(move || {
                    let mut out = BOut { attempts: Vec::new(), ended_ok: true, viol: Vec::new() };
                    barrier.wait();
                    sr_spin(delay_b);
                    let tx = if matches!(b_end, BEnd::Implicit) { None } else { Some(e.begin_transaction()) };
                    for _attempt in 0..4 {
                        let t0 = tick.fetch_add(1, Ordering::SeqCst);
                        let res = match (tx, b_kind) {
                            (Some(tx), Some(cols)) => e.tx_update(tx, T, cond.clone(), sr_updates(cols)),
                            (Some(tx), None) => e.tx_delete(tx, T, cond.clone()),
                            (None, Some(cols)) => e.update(T, cond.clone(), sr_updates(cols)),
                            (None, None) => e.delete_rows(T, cond.clone()),
                        };
                        let t1 = tick.fetch_add(1, Ordering::SeqCst);
                        match res {
                            Ok(n) => {
                                out.attempts.push((t0, t1, Some(n)));
                                break;
                            }
                            Err(RelationalError::LockConflict { .. }) => {
                                out.attempts.push((t0, t1, None));
                                std::thread::yield_now();
                            }
                            Err(er) => {
                                out.viol.push((format!("scanrace:unexpected-error:{}", err_name(&er)), format!("the wide statement ({}) failed: {:?}", if b_kind.is_some() { "update" } else { "delete" }, er)));
                                break;
                            }
                        }
                    }
                    if let Some(tx) = tx {
                        let res = if matches!(b_end, BEnd::Commit) { e.commit(tx) } else { e.rollback(tx) };
                        if let Err(er) = res {
                            out.ended_ok = false;
                            out.viol.push((format!("scanrace:{}-failed:{}", if matches!(b_end, BEnd::Commit) { "commit" } else { "rollback" }, err_name(&er)), format!("{:?}", er)));
                        }
                    }
                    b_done.store(true, Ordering::SeqCst);
                    out
                })
            };
            let has: Vec<_> = a_plans
                .iter()
                .map(|(id, k, ops)| {
                    let (e, tick, b_done, barrier) = (&e, &tick, &b_done, &barrier);
                    let (id, k) = (*id, *k);
                    s.spawn(move || {
                        let mut out = AOut { done: Vec::new(), spans: Vec::new(), conflicts: 0, invisible: 0, viol: Vec::new() };
                        let c = Condition::Eq("k".into(), Value::Int(k));
                        barrier.wait();
                        sr_spin(delay_a);
                        'ops: for op in ops {
                            loop {
                                // read before the attempt: if B had ended by then, this attempt is final
                                let b_was_done = b_done.load(Ordering::SeqCst);
                                let t0 = tick.fetch_add(1, Ordering::SeqCst);
                                let res: Result<usize, RelationalError> = match op.end {
                                    AEnd::Implicit => match &op.set {
                                        Some(cols) => e.update(T, c.clone(), sr_updates(cols)),
                                        None => e.delete_rows(T, c.clone()),
                                    },
                                    AEnd::Commit | AEnd::Rollback => {
                                        let tx = e.begin_transaction();
                                        let res = match &op.set {
                                            Some(cols) => e.tx_update(tx, T, c.clone(), sr_updates(cols)),
                                            None => e.tx_delete(tx, T, c.clone()),
                                        };
                                        let end = if res.is_ok() && matches!(op.end, AEnd::Commit) { e.commit(tx) } else { e.rollback(tx) };
                                        if let Err(er) = end {
                                            out.viol.push((format!("scanrace:end-of-small-transaction-failed:{}", err_name(&er)), format!("{:?}", er)));
                                            break 'ops;
                                        }
                                        res
                                    }
                                };
                                let t1 = tick.fetch_add(1, Ordering::SeqCst);
                                match res {
                                    Ok(1) => {
                                        out.done.push(true);
                                        out.spans.push((t0, t1, !matches!(op.end, AEnd::Rollback)));
                                        if op.set.is_none() {
                                            break 'ops;
                                        }
                                        break;
                                    }
                                    Ok(0) => {
                                        // the row is not there, or another active transaction has deleted it for now
                                        if b_was_done {
                                            out.done.push(false);
                                            break;
                                        }
                                        out.invisible += 1;
                                        std::thread::yield_now();
                                    }
                                    Ok(n) => {
                                        out.viol.push(("scanrace:wrong-affected-count".into(), format!("a write on Eq(k,{}) (k is unique, row {}) affected {} rows", k, id, n)));
                                        break 'ops;
                                    }
                                    Err(RelationalError::LockConflict { blocking_tx, row_id, .. }) => {
                                        if b_was_done {
                                            out.viol.push((
                                                "scanrace:lock-conflict-after-every-other-holder-ended".into(),
                                                format!("write on Eq(k,{}) (row {}) got LockConflict(blocking_tx={}, row={}) although the only other transaction that ever touched this row had already returned from commit/rollback before the attempt began", k, id, blocking_tx, row_id),
                                            ));
                                            break 'ops;
                                        }
                                        out.conflicts += 1;
                                        std::thread::yield_now();
                                    }
                                    Err(er) => {
                                        out.viol.push((format!("scanrace:unexpected-error:{}", err_name(&er)), format!("write on Eq(k,{}) failed: {:?}", k, er)));
                                        break 'ops;
                                    }
                                }
                            }
                        }
                        out
                    })
                })
                .collect();
            let b_out = hb.join().expect("scanrace B thread");
            let a_outs = has.into_iter().map(|h| h.join().expect("scanrace A thread")).collect();
            (b_out, a_outs)
        });

        // ---- judge it (everything has ended: quiescent)
        let describe = |extra: &str| -> String {
            let b_desc = format!(
                "B = {} {:?}{} then {:?}; statement attempts {:?}",
                if b_kind.is_some() { "update" } else { "delete" },
                cond,
                b_kind.as_ref().map_or(String::new(), |c| format!(" set {:?}", c.iter().map(|(ci, v)| (COLS[*ci], v.clone())).collect::<Vec<_>>())),
                b_end,
                b_out.attempts.iter().map(|(_, _, n)| n.map_or("LockConflict".to_string(), |n| format!("Ok({})", n))).collect::<Vec<_>>()
            );
            let a_desc: Vec<String> = a_plans
                .iter()
                .zip(a_outs.iter())
                .map(|((id, k, ops), o)| {
                    format!(
                        "A on row {} (k={}): {:?} found-row={:?} lock-conflicts-before={} ",
                        id,
                        k,
                        ops.iter().map(|op| format!("{}{:?}", op.set.as_ref().map_or("delete".to_string(), |c| format!("set {:?} ", c.iter().map(|(ci, v)| (COLS[*ci], v.clone())).collect::<Vec<_>>())), op.end)).collect::<Vec<_>>(),
                        o.done,
                        o.conflicts
                    )
                })
                .collect();
            format!("{} || round {} of a {}-row table, hash indexes {:?}, ordered indexes {:?}; {}; {}", extra, round, n_rows, hash_idx, btree_idx, b_desc, a_desc.join("; "))
        };
        let mut viols: Vec<(String, String)> = b_out.viol.clone();
        for o in &a_outs {
            viols.extend(o.viol.iter().cloned());
        }
        if !viols.is_empty() {
            for (sig, d) in viols {
                r.violation(sig, describe(&d), replay.clone());
            }
            return;
        }
        let locks = e.tx_manager().active_lock_count();
        let act = e.active_transaction_count();
        if locks != 0 || act != 0 {
            r.violation("quiescent:locks-or-transactions-left", describe(&format!("scanrace: active_lock_count={} active_transaction_count={}", locks, act)), replay);
            return;
        }
        let snap = match snapshot_of(&e) {
            Ok(s) => s,
            Err(d) => {
                r.violation("scanrace:select-failed", describe(&d), replay);
                return;
            }
        };
        let b_n: Option<usize> = b_out.attempts.iter().find_map(|(_, _, n)| *n);
        // the effect B's transaction leaves behind: Some(None) delete, Some(Some(cols)) update
        let b_eff: Option<Option<Vec<(usize, Value)>>> = if b_n.is_some() && !matches!(b_end, BEnd::Rollback) { Some(b_kind.clone()) } else { None };
        let mut expected: BTreeMap<u64, Vec<Value>> = BTreeMap::new();
        let mut b_rows_lo = 0usize;
        let mut b_rows_hi = 0usize;
        for (id, vals) in &rows {
            if targets.contains(id) {
                continue;
            }
            let m = cond.evaluate(&mk_row(*id, vals));
            if m {
                b_rows_lo += 1;
                b_rows_hi += 1;
            }
            let want: Option<Vec<Value>> = match (&b_eff, m) {
                (Some(None), true) => None,
                (Some(Some(cols)), true) => {
                    let mut v = vals.clone();
                    sr_apply(&mut v, cols);
                    Some(v)
                }
                _ => Some(vals.clone()),
            };
            let got = snap.get(id).cloned();
            if !sr_same(&want, &got) {
                let sig = if b_eff.is_none() { "scanrace:row-of-rolled-back-statement-not-as-before" } else { "scanrace:row-of-committed-statement-wrong" };
                r.violation(sig, describe(&format!("row {} (no other transaction wrote it this round) was {:?} before the round, is {:?}, should be {:?}", id, vals, got, want)), replay);
                return;
            }
            if let Some(v) = want {
                expected.insert(*id, v);
            }
        }
        for ((id, _k, ops), o) in a_plans.iter().zip(a_outs.iter()) {
            let orig = rows[id].clone();
            let done_ops: Vec<(AOp, bool)> = ops.iter().cloned().zip(o.done.iter().copied()).collect();
            let got = snap.get(id).cloned();
            let expl = sr_explanations(*id, &orig, &done_ops, &cond, &b_eff);
            let fits: Vec<&(Option<Vec<Value>>, Vec<bool>, bool)> = expl.iter().filter(|(st, flags, _)| sr_same(st, &got) && *flags == o.done).collect();
            if fits.is_empty() {
                let strict: Vec<String> = expl.iter().map(|(st, flags, _)| format!("{:?} with found-row={:?}", st, flags)).collect();
                let a_committed_something = done_ops.iter().any(|(op, found)| *found && !matches!(op.end, AEnd::Rollback));
                let a_deleted = done_ops.iter().any(|(op, found)| *found && op.set.is_none());
                let sig = if b_eff.is_none() && a_deleted && got.is_some() {
                    "scanrace:row-deleted-by-committed-transaction-is-back-after-rollback-of-another"
                } else if b_eff.is_none() && a_committed_something && sr_same(&got, &Some(orig.clone())) {
                    "scanrace:committed-write-undone-by-rollback-of-another-transaction"
                } else if b_eff.is_none() {
                    "scanrace:row-differs-after-rollback-of-another-transaction"
                } else if a_deleted && got.is_some() {
                    "scanrace:row-deleted-by-committed-transaction-is-back-after-commit-of-another"
                } else {
                    "scanrace:row-after-both-ended-explained-by-no-order"
                };
                r.violation(sig, describe(&format!("row {} was {:?} before the round and is {:?} now; every order of the statements gives one of: {}", id, orig, got, strict.join(" | "))), replay);
                return;
            }
            if fits.iter().any(|f| f.2) {
                b_rows_hi += 1;
            }
            if fits.iter().all(|f| f.2) {
                b_rows_lo += 1;
            }
            if let Some(v) = got {
                expected.insert(*id, v);
            }
            r.count("scanrace_target_rows_judged", 1);
        }
        if let Some(extra) = snap.keys().find(|id| !expected.contains_key(id)) {
            r.violation("scanrace:row-should-not-exist", describe(&format!("row {} {:?} exists", extra, snap[extra])), replay);
            return;
        }
        if let Some(n) = b_n {
            if b_eff.is_none() {
                // rolled back: which of the other transactions' rows it had locked cannot be seen any more
                b_rows_hi = b_rows_lo + targets.len();
            }
            if n < b_rows_lo || n > b_rows_hi {
                r.violation("scanrace:wrong-affected-count", describe(&format!("the wide statement reported {} rows; between {} and {} rows can have been affected", n, b_rows_lo, b_rows_hi)), replay);
                return;
            }
        }
        // queries answered through the indexes agree with the table
        let mut conds: Vec<Condition> = Vec::new();
        for (id, k, ops) in &a_plans {
            let orig = &rows[id];
            conds.push(Condition::Eq("k".into(), Value::Int(*k)));
            conds.push(Condition::Eq("v".into(), orig[1].clone()));
            conds.push(Condition::Eq("f".into(), orig[3].clone()));
            conds.push(Condition::Eq("s".into(), orig[2].clone()));
            for op in ops {
                for (ci, v) in op.set.iter().flatten() {
                    conds.push(Condition::Eq(COLS[*ci].into(), v.clone()));
                    if *ci != 2 {
                        conds.push(Condition::Ge(COLS[*ci].into(), v.clone()).and(Condition::Le(COLS[*ci].into(), v.clone())));
                        conds.push(Condition::Ge(COLS[*ci].into(), v.clone()));
                    }
                }
            }
        }
        for (ci, v) in b_kind.iter().flatten() {
            conds.push(Condition::Eq(COLS[*ci].into(), v.clone()));
            conds.push(Condition::Ge(COLS[*ci].into(), v.clone()));
        }
        let mut seen: BTreeSet<String> = BTreeSet::new();
        conds.retain(|c| seen.insert(format!("{:?}", c)));
        for c in conds.into_iter().take(24) {
            let want: BTreeSet<u64> = snap.iter().filter(|(id, v)| c.evaluate(&mk_row(**id, v))).map(|(id, _)| *id).collect();
            match e.select(T, c.clone()) {
                Ok(got_rows) => {
                    let ids: Vec<u64> = got_rows.iter().map(|x| x.id).collect();
                    let got: BTreeSet<u64> = ids.iter().copied().collect();
                    if got != want || got.len() != ids.len() {
                        let path = match &c {
                            Condition::Eq(col, _) if hash_idx.contains(&col.as_str()) => "hash-index",
                            Condition::Eq(col, _) | Condition::Ge(col, _) if btree_idx.contains(&col.as_str()) => "ordered-index",
                            Condition::And(..) => "range",
                            _ => "scan",
                        };
                        let missing: Vec<&u64> = want.difference(&got).take(5).collect();
                        let surplus: Vec<&u64> = got.difference(&want).take(5).collect();
                        r.violation(
                            format!("scanrace:query-differs-from-table[{}]", path),
                            describe(&format!("after everything ended, select {:?} returns {} rows; {} rows of the table satisfy it (missing {:?}, surplus {:?}, duplicates {})", c, ids.len(), want.len(), missing, surplus, ids.len() - got.len())),
                            replay,
                        );
                        return;
                    }
                    r.count("scanrace_index_queries", 1);
                }
                Err(er) => {
                    r.violation("scanrace:select-failed", describe(&format!("{:?}: {:?}", c, er)), replay);
                    return;
                }
            }
        }
        // ---- evidence
        let b_ok_spans: Vec<(u64, u64)> = b_out.attempts.iter().filter(|a| a.2.is_some()).map(|a| (a.0, a.1)).collect();
        let mut nested = 0u64;
        for ((id, _, _), o) in a_plans.iter().zip(a_outs.iter()) {
            let row_matched = cond.evaluate(&mk_row(*id, &rows[id]));
            for (t0, t1, committed) in &o.spans {
                if *committed && row_matched && b_ok_spans.iter().any(|(b0, b1)| b0 < t0 && t1 < b1) {
                    nested += 1;
                }
            }
            r.count("scanrace_small_writes_applied", o.done.iter().filter(|d| **d).count() as u64);
            r.count("scanrace_small_write_lock_conflicts", o.conflicts);
            r.count("scanrace_small_write_row_invisible", o.invisible);
        }
        // a small transaction that began after B's successful statement was called and had committed
        // before that call returned, on a row the statement's condition matched: since B keeps its
        // locks until it ends, that commit came before B took the row's lock
        r.count("scanrace_commit_inside_successful_wide_statement", nested);
        if b_eff.is_none() && b_n.is_some() {
            r.count("scanrace_commit_inside_wide_statement_then_rollback", nested);
        }
        r.count("scanrace_wide_statement_lock_conflicts", b_out.attempts.iter().filter(|a| a.2.is_none()).count() as u64);
        r.count(
            match (b_n.is_some(), &b_end) {
                (false, _) => "scanrace_rounds:wide_statement_refused",
                (true, BEnd::Rollback) => "scanrace_rounds:rollback",
                (true, BEnd::Commit) => "scanrace_rounds:commit",
                (true, BEnd::Implicit) => "scanrace_rounds:non_transactional",
            },
            1,
        );
        r.count("scanrace_rows_locked_by_wide_statements", b_n.unwrap_or(0) as u64);
        r.count("scanrace_rounds", 1);
        let h = hash_combine(hash_combine(case_seed, round as u64), hash_str(&format!("{:?}{:?}", b_out.attempts.iter().map(|a| a.2).collect::<Vec<_>>(), a_outs.iter().map(|o| (o.done.clone(), o.conflicts > 0)).collect::<Vec<_>>())));
        r.eval(h, b_n.is_some_and(|n| n > 0) && a_outs.iter().any(|o| o.done.iter().any(|d| *d)));
        if nested > 0 && r.want_sample() {
            r.sample(json!({"part": "scanrace", "case_seed": case_seed, "round": round, "what": describe("a small transaction committed inside the wide statement's call")}));
        }
        // ---- next round starts from what is there (validated above); top the table up
        rows = expected;
        while rows.len() < n_rows * 3 / 4 {
            let vals = fresh_row(&mut next_k, &mut rng);
            match e.insert(T, to_map(&vals)) {
                Ok(id) => {
                    if rows.insert(id, vals).is_some() {
                        r.violation("insert:reuses-live-row-id", describe(&format!("insert returned id {} which belongs to an existing row", id)), replay);
                        return;
                    }
                }
                Err(er) => {
                    r.violation(format!("scanrace:unexpected-error:{}", err_name(&er)), describe(&format!("insert while nothing else runs failed: {:?}", er)), replay);
                    return;
                }
            }
        }
    }
    r.count("programs:scanrace", 1);
}

/// minimal witness of the known defect (`--probe 1`)
fn probe() {
    let e = RelationalEngine::with_config(cfg(10_000_000));
    e.create_table(T, schema()).unwrap();
    e.create_index(T, "k").unwrap();
    e.create_btree_index(T, "v").unwrap();
    let t1 = e.begin_transaction();
    let t2 = e.begin_transaction();
    let id = e.tx_insert(t1, T, to_map(&[Value::Int(1), Value::Int(5), Value::Null, Value::Float(0.0)])).unwrap();
    let del = e.tx_delete(t2, T, Condition::Eq("_id".into(), Value::Int(id as i64)));
    println!("t1 inserts row {}; t2 tx_delete(_id = {}) -> {:?} (row locked: {})", id, id, del, e.tx_manager().is_row_locked(T, id));
    println!("t1 rollback -> {:?}", e.rollback(t1));
    println!("t2 rollback -> {:?}", e.rollback(t2));
    let ids = |c: Condition| e.select(T, c).map(|r| r.iter().map(|x| x.id).collect::<Vec<_>>());
    println!("after both rolled back: select(True) {:?}, via hash index Eq(k,1) {:?}, via ordered index Ge(v,0) {:?}", ids(Condition::True), ids(Condition::Eq("k".into(), Value::Int(1))), ids(Condition::Ge("v".into(), Value::Int(0))));

    // statements that fail half-way because the ordered index is full (max_btree_entries)
    let row = |v: i64| to_map(&[Value::Int(0), Value::Int(v), Value::Null, Value::Float(0.0)]);
    let e = RelationalEngine::with_config(cfg_cap(10_000_000, Some(1)));
    e.create_table(T, schema()).unwrap();
    e.create_btree_index(T, "v").unwrap();
    let ids = |e: &RelationalEngine, c: Condition| e.select(T, c).map(|r| r.iter().map(|x| x.id).collect::<Vec<_>>());
    println!("A max_btree_entries=1, ordered index on v: insert v=1 -> {:?}; insert v=2 -> {:?}; select(True) {:?}", e.insert(T, row(1)), e.insert(T, row(2)).map_err(|x| err_name(&x)), ids(&e, Condition::True));
    let e = RelationalEngine::with_config(cfg_cap(10_000_000, Some(2)));
    e.create_table(T, schema()).unwrap();
    e.create_btree_index(T, "v").unwrap();
    e.insert(T, row(1)).unwrap();
    e.insert(T, row(2)).unwrap();
    let t = e.begin_transaction();
    let del = e.tx_delete(t, T, Condition::Eq("_id".into(), Value::Int(1)));
    let ins = e.insert(T, row(3));
    println!("B max_btree_entries=2, rows v=1,v=2: t.delete(_id=1) -> {:?}; insert v=3 -> {:?}; t.rollback -> {:?}", del, ins, e.rollback(t).map_err(|x| err_name(&x)));
    println!("  select(True) {:?}, via ordered index Ge(v,0) {:?}", ids(&e, Condition::True), ids(&e, Condition::Ge("v".into(), Value::Int(0))));
}

fn main() {
    let args = Args::parse();
    if args.extra.contains_key("probe") {
        probe();
        return;
    }
    let started = Instant::now();
    quiet_panics();
    let mut total = Report::new();
    total.max_samples = 6;
    let verbose = args.extra_u64("verbose", 0) > 0;
    let only = args.extra.get("only").cloned();
    let want = |p: &str| only.as_deref().is_none_or(|o| o == p);

    let one = |part: &str, seed: u64, r: &mut Report| match part {
        "seq" => run_program("seq", seed, r, verbose),
        "interleave" => run_program("interleave", seed, r, verbose),
        "threads" => run_threads(seed, r),
        "timeout" => run_timeout(seed, r),
        "timeout-partial" => run_timeout_partial(seed, r),
        "rollback-after-expiry" => run_rollback_after_expiry(seed, r),
        "rollback-failing-undo" => run_rollback_with_failing_undo(seed, r),
        "reap" => run_reap(seed, r),
        "reap-timed" => run_reap_timed(seed, r),
        "scanrace" => run_scanrace(seed, false, None, r),
        "scanrace-big" => run_scanrace(seed, true, None, r),
        other => r.inconclusive(&format!("unknown part {}", other)),
    };

    let mut single = false;
    if let Some(p) = &args.replay {
        single = true;
        let v: J = serde_json::from_str(&std::fs::read_to_string(p).expect("replay file")).expect("json");
        let rp = if v.get("replay").is_some() { v["replay"].clone() } else { v.clone() };
        let part = rp["part"].as_str().unwrap_or("seq").to_string();
        let seed = rp["case_seed"].as_u64().expect("case_seed");
        // a threaded case depends on the scheduler: give it a few attempts
        let tries = if part == "threads" {
            200
        } else if part.starts_with("scanrace") {
            12
        } else {
            1
        };
        for _ in 0..tries {
            let res = std::panic::catch_unwind(std::panic::AssertUnwindSafe(|| one(&part, seed, &mut total)));
            if let Err(e) = res {
                let msg = panic_msg(&e);
                total.violation(format!("panic:{}", first_line(&msg)), msg, rp.clone());
            }
            if total.violations_total > 0 {
                break;
            }
        }
    } else if let Some(s) = args.extra.get("case-seed") {
        single = true;
        let part = only.clone().unwrap_or_else(|| "interleave".into());
        one(&part, s.parse().expect("case-seed"), &mut total);
    } else {
        std::thread::scope(|sc| {
            // the timeout part sleeps; run it beside the others
            let th = if want("timeout") {
                let n = args.by_tier(2usize, 6usize);
                let seed = args.seed;
                Some(sc.spawn(move || {
                    let mut r = Report::new();
                    std::thread::scope(|s2| {
                        let hs: Vec<_> = (0..n).map(|i| s2.spawn(move || {
                            let mut rr = Report::new();
                            run_timeout(case_seed(seed ^ 0x77, i as u64), &mut rr);
                            for j in 0..4u64 {
                                run_timeout_partial(case_seed(seed ^ 0x78, i as u64 * 4 + j) & !3 | j, &mut rr);
                                run_rollback_after_expiry(case_seed(seed ^ 0x79, i as u64 * 4 + j) & !7 | (j + 4 * (i as u64 & 1)), &mut rr);
                                run_rollback_with_failing_undo(case_seed(seed ^ 0x7B, i as u64 * 4 + j) & !3 | j, &mut rr);
                            }
                            rr
                        })).collect();
                        for h in hs {
                            if let Ok(x) = h.join() {
                                r.merge(x);
                            }
                        }
                    });
                    r
                }))
            } else {
                None
            };
            // the timed reaper scenarios sleep (2.3 s each): all of them side by side, beside everything else
            let th_reap = if want("reap") {
                let rounds = args.by_tier(1usize, 6usize);
                let seed = args.seed;
                Some(sc.spawn(move || {
                    let mut r = Report::new();
                    for round in 0..rounds {
                        std::thread::scope(|s2| {
                            let hs: Vec<_> = (0..8u64).map(|j| s2.spawn(move || {
                                let mut rr = Report::new();
                                run_reap_timed(case_seed(seed ^ 0x7C, round as u64 * 8 + j) & !7 | j, &mut rr);
                                rr
                            })).collect();
                            for h in hs {
                                if let Ok(x) = h.join() {
                                    r.merge(x);
                                }
                            }
                        });
                    }
                    r
                }))
            } else {
                None
            };
            if want("reap") {
                let n = args.by_tier(3_000u64, 200_000u64);
                let rep = par_cases(args.threads, args.seed ^ 0x4EA9, n, args.budget(5, 120), |_i, s, r| run_reap(s, r));
                total.merge(rep);
            }
            if want("seq") {
                let n = args.by_tier(6_000u64, 400_000u64);
                let rep = par_cases(args.threads, args.seed ^ 0x51, n, args.budget(15, 240), |_i, s, r| run_program("seq", s, r, false));
                total.merge(rep);
            }
            if want("interleave") {
                let n = args.by_tier(8_000u64, 600_000u64);
                let rep = par_cases(args.threads, args.seed ^ 0x1E, n, args.budget(20, 360), |_i, s, r| run_program("interleave", s, r, false));
                total.merge(rep);
            }
            if want("threads") {
                // each case spawns its own threads: few cases at a time
                let n = args.by_tier(300u64, 20_000u64);
                let rep = par_cases((args.threads / 4).max(1), args.seed ^ 0x7A, n, args.budget(15, 240), |_i, s, r| run_threads(s, r));
                total.merge(rep);
            }
            if want("scanrace") {
                // each case runs 2-4 threads of its own; thorough also uses larger tables
                let n = args.by_tier(400u64, 30_000u64);
                let big = !args.quick();
                let budget = args.budget(8, 240);
                let stop_at = Instant::now() + budget;
                let rep = par_cases((args.threads / 3).max(1), args.seed ^ 0x5C, n, budget, |i, s, r| run_scanrace(s, big && i % 2 == 1, Some(stop_at), r));
                total.merge(rep);
            }
            if let Some(h) = th {
                if let Ok(r) = h.join() {
                    total.merge(r);
                }
            }
            if let Some(h) = th_reap {
                if let Ok(r) = h.join() {
                    total.merge(r);
                }
            }
        });
    }

    let mut floors: Vec<(&'static str, u64)> = Vec::new();
    if !single {
        if want("seq") {
            floors.extend([("programs:seq", 300u64)]);
        }
        if want("interleave") {
            floors.extend([("programs:interleave", 300u64), ("lock_conflicts_expected", 200)]);
        }
        if want("seq") || want("interleave") {
            floors.extend([("op:rollback", 500u64), ("op:commit", 500), ("rolled_back_writes", 1_000), ("quiescent_checks", 1_000), ("battery_queries", 20_000), ("finished_tx_rejections", 100), ("lock_holder_checks", 500), ("capacity_failures", 400), ("capacity_failures:tx_update", 50), ("rollbacks_after_capacity_failure", 200)]);
        }
        if want("threads") {
            floors.extend([("programs:threads", 20u64), ("threads_lock_conflicts", 50), ("threads_writes", 2_000)]);
        }
        if want("scanrace") {
            floors.extend([
                ("scanrace_rounds", 25u64),
                ("scanrace_rounds:rollback", 10),
                ("scanrace_target_rows_judged", 40),
                ("scanrace_index_queries", 300),
                ("scanrace_small_write_lock_conflicts", 20),
                ("scanrace_commit_inside_successful_wide_statement", 3),
                ("scanrace_commit_inside_wide_statement_then_rollback", 1),
            ]);
        }
        if want("seq") || want("interleave") {
            floors.extend([("reap_noop_calls", 300u64), ("reap_noop_live_locks_checked", 300)]);
        }
        if want("reap") {
            floors.extend([
                ("programs:reap", 200u64),
                ("reap_locks_held_by_timed_out_tx_before_reap", 300),
                ("reap_locks_gone_after_reap", 300),
                ("reap_rows_given_to_new_writer_after_reap", 300),
                ("reap_reaped_id_refused", 100),
                ("reap_timed_young_lock_of_timed_out_tx_gone", 3),
                ("reap_timed_live_transaction_and_lock_survive_reap", 3),
            ]);
        }
        if want("timeout") {
            floors.extend([("timeout_release_seen", 1u64), ("timeout_partial_other_lock_survives_takeover", 2), ("timeout_partial_locks_gone_after_sweep_and_end", 2), ("rollback_after_expiry_restored", 4), ("timeout_takeover_lock_released_when_new_holder_ends", 1)]);
        }
    }
    let meta = Meta {
        property: "C09",
        rule: "one evaluation = one executed program (seq: one transaction at a time; interleave: 2-4 transactions in a random single-threaded interleaving; threads: 2-8 real threads; timeout: lock expiry, take-over of an expired lock while the old holder ends, take-over of ONE expired lock of a transaction whose other lock is still fresh, the expired-lock sweep followed by the end of the transaction, rollback after the transaction's own locks expired, and rollback with an undo step that cannot be carried out; reap: 1-4 transactions write rows, some end, the rest time out and TransactionManager::cleanup_expired() removes them - judged on the lock table and on a new writer right after the reaper returned; reap-timed: the same with 2 s timeouts, a row written late in the old transaction's life and a young transaction that must survive; scanrace: one round = one wide multi-row statement of a transaction that then commits or rolls back, raced by 1-3 threads of small single-row transactions on rows it matches, judged when all have ended) that passed every per-step check; distinct by hash of the executed statement trace; non-trivial when it contains >=3 transactional statements and at least one finished transaction (threads: at least one lock conflict occurred; scanrace: the wide statement succeeded on >=1 row and at least one small write was applied)",
        assumptions: vec![
            "per-step state checks only judge rows no active transaction has touched, so they hold under any isolation level; whole-table, index-battery and lock-table checks run whenever no transaction is active".into(),
            "a write whose condition matches a row *updated* by another active transaction must fail with LockConflict; for rows *inserted* or *deleted* by another active transaction either LockConflict or 'row not visible' is accepted, but actually modifying such a row is a violation".into(),
            "one program in four runs with max_btree_entries = (ordered-index keys after the initial load) + 0..2, so inserts/updates legitimately fail half-way with ResultTooLarge; a transaction that saw such a failure is only ever rolled back (the statement says nothing about committing after a failed statement) and its rows count as touched until then; a failed non-transactional insert/update (internal transaction rolled back by the engine) must leave the table unchanged immediately; index answers are compared at the next point where no transaction is active".into(),
            "value pools avoid -0.0 and omitted nullable columns (known C04 index defects) so that index answers can be compared with Condition::evaluate".into(),
            "lock/transaction timeouts are ~115 days except in the timeout part (1 s; conflict demanded only within 0.3 s - 0.85 s for the partial-expiry scenario -, release demanded only after 10 s)".into(),
            "scanrace: all writers take row locks and the small writers retry until they are applied or the wide transaction has ended, so per row the final state must be one that some order of the statements explains; after a rollback (or a refused statement) of the wide transaction that is exactly what the small transactions committed. No isolation level is demanded: the wide statement may also act on a row that matched its condition in an earlier state of that order, rolled-back small writes never touch the columns the wide condition reads, and 'row not visible' (Ok(0)) while the wide transaction has a delete pending is retried, not judged. The counter scanrace_commit_inside_successful_wide_statement counts small transactions on a matching row that began after the wide statement's call started and had committed before it returned (ticks of one atomic counter) - since the wide transaction keeps its locks until it ends, those commits came before it locked the row. Start offsets derived from a measured table pass only shape the workload".into(),
            "reap: 'times out' is taken to mean what the code offers - the transaction is older than transaction_timeout_secs and TransactionManager::cleanup_expired() has run; after that none of its rows may be locked by it and a new writer must not get LockConflict from it, whatever the age of the individual lock. The clock-free family uses transaction_timeout_secs = 0 (timed out once the millisecond system clock, which the harness watches, is >= 2 ms past the last begin) and a ~115-day lock timeout; before the reap nothing is demanded of those already-timed-out transactions (conflicts are only counted). What becomes of the reaped transaction's row changes is not judged (the statement is silent). reap-timed uses 2 s / 2 s (one variant in four: ~115-day locks): the reaper runs >= 250 ms after the old transaction's timeout; 'lock still held by the reaped transaction' needs no window (a lock that expired by itself is not reported as held); the young transaction (begun 1.45 s after the old one) is judged only while it is < 1.5 s old, otherwise the case counts as reap_timed_window_missed. A transaction the reaper has removed counts as finished: using its id must be refused".into(),
            "seq/interleave/threads: nothing times out (~115 days), so cleanup_expired() / cleanup_expired_locks() - called between steps where a hash of (case seed, step) says so, and continuously from an extra thread in half of the threads cases - must leave live transactions active and the locks seen right after their successful writes in place".into(),
            "threads: ticks taken right after a successful tx_update lie inside that writer's lock interval; the final value of a row must be the token of the committed write with the largest tick".into(),
        ],
        floors,
        exhaustive: false,
    };
    write_result(&args, &meta, &total, started);
}
