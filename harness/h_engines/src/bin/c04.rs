//! C04 — relational queries return exactly the rows that satisfy the condition.
//!
//! Runtime monitor over the real `RelationalEngine` (and `QueryRouter::execute_parsed` for the text
//! path). Each case builds a random schema, runs a random program of inserts / updates / deletes /
//! transactional variants with rollback / index DDL against
//!   A : the engine under a random, changing physical configuration (hash + ordered indexes, `_id`
//!       indexes, materialize_columns), also reachable through a QueryRouter built over it, and
//!   B : a twin engine that receives the same data operations but never any index (scan path),
//! and keeps its own row model (ids from the insert results). After every step a batch of random
//! condition trees is evaluated on the model with the public `Condition::evaluate` (the definition
//! of "satisfies") and through every physical path of A and B; id sets, row contents, counts and
//! aggregates must agree with the model, limit/offset/cursor answers must be a correctly sized
//! subset of the satisfying rows and identical with and without indexes.
//!
//! Failure signatures are root-cause oriented: a mismatch is narrowed to the single comparison leaf
//! that already disagrees on its own, and the signature names the physical path, the operator, the
//! class of the compared value and the class of the offending row value.

use common::*;
use graph_engine::GraphEngine;
use query_router::{QueryResult, QueryRouter};
use relational_engine::{
    Column, ColumnType, ColumnarScanOptions, Condition, CursorOptions, RelationalConfig, RelationalEngine, Row, Schema,
    Value,
};
use serde_json::{json, Value as J};
use std::collections::{BTreeMap, BTreeSet, HashMap};
use std::sync::Arc;
use std::time::Instant;
use tensor_store::TensorStore;
use vector_engine::VectorEngine;

const T: &str = "tt";
/// development aid: `--sig-filter <substring>` keeps only violations whose signature contains it
static SIG_FILTER: std::sync::OnceLock<String> = std::sync::OnceLock::new();

// ------------------------------------------------------------------------------------------------
// model
// ------------------------------------------------------------------------------------------------

#[derive(Clone, Copy, PartialEq, Eq, Debug)]
enum Ty {
    Int,
    Float,
    Str,
    Bool,
    Bytes,
    Json,
}

impl Ty {
    fn name(self) -> &'static str {
        match self {
            Ty::Int => "int",
            Ty::Float => "float",
            Ty::Str => "str",
            Ty::Bool => "bool",
            Ty::Bytes => "bytes",
            Ty::Json => "json",
        }
    }
    fn column_type(self) -> ColumnType {
        match self {
            Ty::Int => ColumnType::Int,
            Ty::Float => ColumnType::Float,
            Ty::Str => ColumnType::String,
            Ty::Bool => ColumnType::Bool,
            Ty::Bytes => ColumnType::Bytes,
            Ty::Json => ColumnType::Json,
        }
    }
}

#[derive(Clone, Debug)]
struct Col {
    name: String,
    ty: Ty,
    nullable: bool,
}

#[derive(Clone, Debug)]
struct MRow {
    vals: Vec<Value>,
    /// per column: the Null was produced by omitting the column at insert time
    omitted: Vec<bool>,
    /// last kind of statement that wrote this row: insert | update | undo
    last: &'static str,
}

#[derive(Clone, Debug)]
struct Model {
    cols: Vec<Col>,
    rows: BTreeMap<u64, MRow>,
    max_id: u64,
}

impl Model {
    fn row(&self, id: u64, m: &MRow) -> Row {
        Row { id, values: self.cols.iter().zip(m.vals.iter()).map(|(c, v)| (c.name.clone(), v.clone())).collect() }
    }
    fn matching(&self, c: &Condition) -> BTreeSet<u64> {
        self.rows.iter().filter(|(id, m)| c.evaluate(&self.row(**id, m))).map(|(id, _)| *id).collect()
    }
    fn col(&self, name: &str) -> Option<(usize, &Col)> {
        self.cols.iter().enumerate().find(|(_, c)| c.name == name)
    }
}

fn val_same(a: &Value, b: &Value) -> bool {
    match (a, b) {
        (Value::Float(x), Value::Float(y)) => f64_same(*x, *y),
        _ => a == b,
    }
}

fn val_type_is(v: &Value, ty: Ty) -> bool {
    matches!(
        (v, ty),
        (Value::Int(_), Ty::Int)
            | (Value::Float(_), Ty::Float)
            | (Value::String(_), Ty::Str)
            | (Value::Bool(_), Ty::Bool)
            | (Value::Bytes(_), Ty::Bytes)
            | (Value::Json(_), Ty::Json)
    )
}

/// class of a value (used in signatures); `special` classes are the edge values of the quantifier
fn class_of(v: &Value) -> &'static str {
    match v {
        Value::Null => "null",
        Value::Int(i) => {
            if *i == i64::MIN || *i == i64::MAX || *i == i64::MIN + 1 || *i == i64::MAX - 1 {
                "int-extreme"
            } else {
                "int"
            }
        }
        Value::Float(f) => {
            if f.is_nan() {
                "float-nan"
            } else if *f == 0.0 {
                "float-signed-zero"
            } else if f.is_infinite() {
                "float-inf"
            } else if f.abs() < f64::EPSILON {
                "float-tiny"
            } else {
                "float"
            }
        }
        Value::String(s) => {
            if s.is_empty() {
                "str-empty"
            } else if !s.is_ascii() {
                "str-nonascii"
            } else {
                "str"
            }
        }
        Value::Bool(_) => "bool",
        Value::Bytes(b) => {
            if b.is_empty() {
                "bytes-empty"
            } else {
                "bytes"
            }
        }
        Value::Json(_) => "json",
        _ => "other",
    }
}
fn is_plain_class(c: &str) -> bool {
    matches!(c, "int" | "float" | "str" | "bool" | "bytes" | "json")
}

// ------------------------------------------------------------------------------------------------
// generators
// ------------------------------------------------------------------------------------------------

fn pool_value(rng: &mut Rng, ty: Ty) -> Value {
    match ty {
        Ty::Int => {
            const P: [i64; 12] = [i64::MIN, i64::MIN + 1, -2, -1, 0, 1, 2, 3, 7, 100, i64::MAX - 1, i64::MAX];
            if rng.chance(2, 3) {
                Value::Int(*rng.pick(&P))
            } else {
                Value::Int(rng.range(-6, 6))
            }
        }
        Ty::Float => {
            const P: [f64; 21] = [
                0.0,
                -0.0,
                f64::NAN,
                f64::INFINITY,
                f64::NEG_INFINITY,
                1.0,
                -1.0,
                1.5,
                2.5,
                -2.5,
                5e-324,
                1e-300,
                -1e-300,
                1e-17,
                -1e-17,
                1.0000000000000002,
                0.9999999999999999,
                1e150,
                -1e150,
                100.25,
                3.0,
            ];
            Value::Float(*rng.pick(&P))
        }
        Ty::Str => {
            const P: [&str; 14] = ["", "a", "b", "ab", "A", "a b", "Zürich", "日本語", "é", "a:b", "null", "0", "%", "zz"];
            if rng.chance(1, 20) {
                Value::String("x".repeat(90 + rng.below(40)))
            } else {
                Value::String(rng.pick(&P).to_string())
            }
        }
        Ty::Bool => Value::Bool(rng.bool()),
        Ty::Bytes => {
            let p: [&[u8]; 7] = [&[], &[0], &[255], &[0, 1], &[1], &[97, 98], &[255, 255, 255]];
            Value::Bytes(rng.pick(&p).to_vec())
        }
        Ty::Json => {
            let p = [json!(null), json!(1), json!(1.5), json!("s"), json!([1, 2]), json!({"a": 1}), json!({"b": [true, null]}), json!(true)];
            Value::Json(rng.pick(&p).clone())
        }
    }
}

fn any_ty(rng: &mut Rng) -> Ty {
    [Ty::Int, Ty::Float, Ty::Str, Ty::Bool, Ty::Bytes, Ty::Json][rng.weighted(&[30, 26, 20, 10, 8, 6])]
}

fn gen_schema(rng: &mut Rng) -> Vec<Col> {
    let n = 1 + rng.below(4);
    (0..n).map(|i| Col { name: format!("c{}", i), ty: any_ty(rng), nullable: rng.bool() }).collect()
}

/// a value for a comparison against column `ci` (None = `_id`)
fn gen_cmp_value(rng: &mut Rng, m: &Model, ci: Option<usize>) -> Value {
    match ci {
        None => match rng.below(20) {
            0 => Value::Null,
            1 => Value::Float(rng.range(0, 5) as f64),
            2 => pool_value(rng, Ty::Int),
            _ => Value::Int(rng.range(-1, m.max_id as i64 + 2)),
        },
        Some(ci) => {
            let ty = m.cols[ci].ty;
            let k = rng.below(100);
            if k < 45 && !m.rows.is_empty() {
                let idx = rng.below(m.rows.len());
                m.rows.values().nth(idx).map(|r| r.vals[ci].clone()).unwrap_or(Value::Null)
            } else if k < 82 {
                pool_value(rng, ty)
            } else if k < 91 {
                Value::Null
            } else {
                let t2 = any_ty(rng);
                pool_value(rng, t2)
            }
        }
    }
}

fn gen_leaf(rng: &mut Rng, m: &Model) -> Condition {
    if rng.chance(1, 40) {
        return Condition::True;
    }
    let (name, ci) = if rng.chance(1, 7) {
        ("_id".to_string(), None)
    } else if rng.chance(1, 60) {
        // a column that does not exist: evaluate() has a definite answer for it as well
        ("nocol".to_string(), None)
    } else {
        let ci = rng.below(m.cols.len());
        (m.cols[ci].name.clone(), Some(ci))
    };
    let v = if name == "nocol" { pool_value(rng, Ty::Int) } else { gen_cmp_value(rng, m, ci) };
    match rng.weighted(&[30, 12, 14, 14, 14, 14]) {
        0 => Condition::Eq(name, v),
        1 => Condition::Ne(name, v),
        2 => Condition::Lt(name, v),
        3 => Condition::Le(name, v),
        4 => Condition::Gt(name, v),
        _ => Condition::Ge(name, v),
    }
}

fn gen_tree(rng: &mut Rng, m: &Model, depth: usize) -> Condition {
    if depth == 0 || rng.chance(1, 5) {
        return gen_leaf(rng, m);
    }
    let a = gen_tree(rng, m, depth - 1);
    let b = gen_tree(rng, m, depth - 1);
    if rng.bool() {
        a.and(b)
    } else {
        a.or(b)
    }
}

fn gen_cond(rng: &mut Rng, m: &Model) -> Condition {
    let depth = rng.weighted(&[38, 30, 18, 9, 5]);
    gen_tree(rng, m, depth)
}

fn leaves<'a>(c: &'a Condition, out: &mut Vec<&'a Condition>) {
    match c {
        Condition::And(a, b) | Condition::Or(a, b) => {
            leaves(a, out);
            leaves(b, out);
        }
        _ => out.push(c),
    }
}

fn leaf_parts(c: &Condition) -> Option<(&'static str, &str, &Value)> {
    match c {
        Condition::Eq(c, v) => Some(("Eq", c, v)),
        Condition::Ne(c, v) => Some(("Ne", c, v)),
        Condition::Lt(c, v) => Some(("Lt", c, v)),
        Condition::Le(c, v) => Some(("Le", c, v)),
        Condition::Gt(c, v) => Some(("Gt", c, v)),
        Condition::Ge(c, v) => Some(("Ge", c, v)),
        _ => None,
    }
}

// ------------------------------------------------------------------------------------------------
// SQL rendering (only what the grammar can express; negative numbers are C15's business)
// ------------------------------------------------------------------------------------------------

fn sql_value(v: &Value) -> Option<String> {
    match v {
        Value::Null => Some("NULL".into()),
        Value::Int(i) if *i >= 0 => Some(i.to_string()),
        Value::Float(f) if f.is_finite() && f.is_sign_positive() => {
            let s = format!("{:?}", f);
            // the lexer wants digits[.digits][e[+-]digits]
            if s.parse::<f64>().ok().map(|x| x.to_bits()) == Some(f.to_bits()) && s.chars().next().is_some_and(|c| c.is_ascii_digit()) {
                if s.contains('.') || s.contains('e') {
                    Some(s)
                } else {
                    Some(format!("{}.0", s))
                }
            } else {
                None
            }
        }
        Value::String(s) if !s.contains(['\'', '\\', '\n', '\r', '\0']) => Some(format!("'{}'", s)),
        Value::Bool(b) => Some(if *b { "TRUE".into() } else { "FALSE".into() }),
        _ => None,
    }
}

/// WHERE text of a condition tree. Half of the trees (chosen by a hash of the tree) are printed
/// fully parenthesised, the other half with only the parentheses SQL's precedence requires (AND
/// binds tighter than OR), so that the text path also depends on the parser's grouping.
fn sql_cond(c: &Condition, m: &Model) -> Option<String> {
    if hash_str(&format!("{:?}", c)) & 1 == 0 {
        sql_cond_full(c, m)
    } else {
        sql_cond_min(c, m, 0)
    }
}

fn sql_cond_min(c: &Condition, m: &Model, parent: u8) -> Option<String> {
    match c {
        Condition::And(a, b) => {
            let s = format!("{} AND {}", sql_cond_min(a, m, 2)?, sql_cond_min(b, m, 2)?);
            Some(if parent > 2 { format!("({})", s) } else { s })
        }
        Condition::Or(a, b) => {
            let s = format!("{} OR {}", sql_cond_min(a, m, 1)?, sql_cond_min(b, m, 1)?);
            Some(if parent > 1 { format!("({})", s) } else { s })
        }
        _ => sql_cond_full(c, m),
    }
}

fn sql_cond_full(c: &Condition, m: &Model) -> Option<String> {
    match c {
        Condition::And(a, b) => Some(format!("({} AND {})", sql_cond_full(a, m)?, sql_cond_full(b, m)?)),
        Condition::Or(a, b) => Some(format!("({} OR {})", sql_cond_full(a, m)?, sql_cond_full(b, m)?)),
        Condition::True => None,
        _ => {
            let (op, col, v) = leaf_parts(c)?;
            if col != "_id" && m.col(col).is_none() {
                return None;
            }
            let o = match op {
                "Eq" => "=",
                "Ne" => "!=",
                "Lt" => "<",
                "Le" => "<=",
                "Gt" => ">",
                _ => ">=",
            };
            Some(format!("{} {} {}", col, o, sql_value(v)?))
        }
    }
}

// ------------------------------------------------------------------------------------------------
// one case
// ------------------------------------------------------------------------------------------------

struct Case<'a> {
    rng: Rng,
    seed: u64,
    r: &'a mut Report,
    m: Model,
    a: Arc<RelationalEngine>,
    b: RelationalEngine,
    router: QueryRouter,
    hash_idx: BTreeSet<String>,
    btree_idx: BTreeSet<String>,
    trace: Vec<String>,
    dead: bool,
    verbose: bool,
}

fn cfg() -> RelationalConfig {
    RelationalConfig {
        default_query_timeout_ms: None,
        max_query_timeout_ms: None,
        // lock / transaction timeouts far beyond any run so that wall time never enters a verdict
        transaction_timeout_secs: 10_000_000,
        lock_timeout_secs: 10_000_000,
        ..RelationalConfig::default()
    }
}

fn err_name<E: std::fmt::Debug>(e: &E) -> String {
    let s = format!("{:?}", e);
    s.split(|c: char| !c.is_alphanumeric() && c != '_').next().unwrap_or("").to_string()
}

fn ids_of(rows: &[Row]) -> Vec<u64> {
    rows.iter().map(|r| r.id).collect()
}

fn brief_ids(s: &BTreeSet<u64>) -> String {
    let v: Vec<String> = s.iter().take(12).map(|x| x.to_string()).collect();
    format!("[{}{}]", v.join(","), if s.len() > 12 { ",…" } else { "" })
}

impl<'a> Case<'a> {
    fn replay(&self) -> J {
        json!({"part": "case", "case_seed": self.seed})
    }

    fn context(&self) -> String {
        let cols: Vec<String> = self.m.cols.iter().map(|c| format!("{}:{}{}", c.name, c.ty.name(), if c.nullable { "?" } else { "" })).collect();
        format!(
            "schema({}) hash_idx={:?} btree_idx={:?} rows={} | program: {}",
            cols.join(","),
            self.hash_idx,
            self.btree_idx,
            self.m.rows.len(),
            self.trace.join("; ")
        )
    }

    fn violation(&mut self, sig: String, detail: String) {
        if let Some(f) = SIG_FILTER.get() {
            if !sig.contains(f.as_str()) {
                return;
            }
        }
        if self.verbose {
            eprintln!("VIOLATION {} :: {}", sig, detail);
        }
        let ctx = self.context();
        let rp = self.replay();
        self.r.violation(sig, format!("{} || {}", detail, ctx), rp);
    }

    // ---- physical path labels (mirror of the engine's dispatch, used for signatures/counters only)

    fn index_path(&self, c: &Condition) -> &'static str {
        match c {
            Condition::Eq(col, _) if self.hash_idx.contains(col) => "hash",
            Condition::Lt(col, _) | Condition::Le(col, _) | Condition::Gt(col, _) | Condition::Ge(col, _) if self.btree_idx.contains(col) => "btree",
            Condition::And(a, b) => {
                let pa = self.index_path(a);
                if pa != "scan" {
                    pa
                } else {
                    self.index_path(b)
                }
            }
            _ => "scan",
        }
    }

    fn vectorizable(&self, c: &Condition) -> bool {
        match c {
            Condition::True => true,
            Condition::And(a, b) | Condition::Or(a, b) => self.vectorizable(a) && self.vectorizable(b),
            _ => {
                let Some((op, col, v)) = leaf_parts(c) else { return false };
                match (self.m.col(col), v) {
                    (Some((_, cd)), Value::Int(_)) => cd.ty == Ty::Int,
                    (Some((_, cd)), Value::Float(_)) => cd.ty == Ty::Float && matches!(op, "Eq" | "Lt" | "Gt"),
                    _ => false,
                }
            }
        }
    }

    fn columnar_path(&self, c: &Condition, prefer: bool) -> &'static str {
        let mut ls = Vec::new();
        leaves(c, &mut ls);
        let cols_ok = ls.iter().filter_map(|l| leaf_parts(l)).all(|(_, col, _)| self.m.col(col).is_some());
        let any_col = ls.iter().any(|l| leaf_parts(l).is_some());
        if prefer && any_col && cols_ok && self.vectorizable(c) {
            "vectorized"
        } else {
            self.index_path(c)
        }
    }

    // ---- classification of an id-set mismatch

    /// `run(leaf)` re-executes the same API for a single leaf; `kind` names the mechanism
    /// ("index-lookup" for the select family, "columnar" for select_columnar)
    fn classify(
        &self,
        api: &str,
        kind: &str,
        cond: &Condition,
        got: &BTreeSet<u64>,
        exp: &BTreeSet<u64>,
        path_of: &dyn Fn(&Condition) -> &'static str,
        run: &dyn Fn(&Condition) -> Option<BTreeSet<u64>>,
    ) -> Vec<(String, String)> {
        let mut out: Vec<(String, String)> = Vec::new();
        let mut ls = Vec::new();
        leaves(cond, &mut ls);
        if ls.len() > 1 || kind != api {
            for l in ls {
                let Some((op, col, v)) = leaf_parts(l) else { continue };
                let exp_l = self.m.matching(l);
                let Some(got_l) = run(l) else { continue };
                if got_l == exp_l {
                    continue;
                }
                for (dir, id) in exp_l.difference(&got_l).map(|i| ("missing", *i)).chain(got_l.difference(&exp_l).map(|i| ("extra", *i))) {
                    let (sig, d) = self.leaf_sig(kind, path_of(l), op, col, v, dir, id);
                    if !out.iter().any(|(s, _)| *s == sig) {
                        out.push((sig, format!("{} leaf {:?} alone: expected {} got {}; {}", api, l, brief_ids(&exp_l), brief_ids(&got_l), d)));
                    }
                }
            }
        } else if let Some((op, col, v)) = leaf_parts(cond) {
            for (dir, id) in exp.difference(got).map(|i| ("missing", *i)).chain(got.difference(exp).map(|i| ("extra", *i))) {
                let (sig, d) = self.leaf_sig(kind, path_of(cond), op, col, v, dir, id);
                if !out.iter().any(|(s, _)| *s == sig) {
                    out.push((sig, d));
                }
            }
        }
        if out.is_empty() {
            let dir = match (exp.difference(got).next().is_some(), got.difference(exp).next().is_some()) {
                (true, false) => "missing",
                (false, true) => "extra",
                _ => "missing+extra",
            };
            let mut all = Vec::new();
            leaves(cond, &mut all);
            let nested_true = all.len() > 1 && all.iter().any(|l| matches!(l, Condition::True));
            if kind == "columnar" && path_of(cond) == "vectorized" && nested_true {
                out.push((format!("columnar[vectorized]:nested-True:{}", dir), "Condition::True inside AND/OR is vectorised over the live-row count instead of the slot count".into()));
            } else {
                out.push((format!("{}[{}]:no-single-leaf-reproduces:{}", api, path_of(cond), dir), String::new()));
            }
        }
        out
    }

    fn leaf_sig(&self, kind: &str, path: &str, op: &str, col: &str, v: &Value, dir: &str, id: u64) -> (String, String) {
        let (vclass, rclass, last, rowval): (String, String, &str, String) = if col == "_id" {
            let vc = if matches!(v, Value::Int(_)) { class_of(v).to_string() } else { format!("{}-vs-id", class_of(v)) };
            (vc, "id".into(), "", format!("_id={}", id))
        } else if let Some((ci, cd)) = self.m.col(col) {
            let vc = if matches!(v, Value::Null) || val_type_is(v, cd.ty) { class_of(v).to_string() } else { format!("{}-vs-{}col", class_of(v), cd.ty.name()) };
            match self.m.rows.get(&id) {
                Some(r) => {
                    let rv = &r.vals[ci];
                    let rc = if matches!(rv, Value::Null) {
                        if r.omitted[ci] {
                            "null-omitted".to_string()
                        } else {
                            "null-explicit".to_string()
                        }
                    } else {
                        class_of(rv).to_string()
                    };
                    (vc, rc, r.last, format!("row {} has {}={:?}", id, col, rv))
                }
                None => (vc, "not-in-table".into(), "", format!("row {} is not in the table", id)),
            }
        } else {
            (class_of(v).to_string(), "no-such-column".into(), "", String::new())
        };
        let slots = self.m.max_id as usize;
        let in_simd_tail = id as usize > (slots / 4) * 4;
        let sig = if kind == "columnar" && path == "vectorized" && rclass.starts_with("null") {
            format!("columnar[vectorized]:null-row:{}", dir)
        } else if kind == "columnar" && path == "vectorized" && op == "Eq" && matches!(v, Value::Float(_)) && in_simd_tail {
            // the last len%4 slots of a float column are compared with |a-b| < EPSILON instead of ==
            format!("columnar[vectorized]:Eq-float-tail-epsilon:{}", dir)
        } else {
            let mut s = format!("{}[{}]:{}:{}:{}:row={}", kind, path, op, vclass, dir, rclass);
            if is_plain_class(&vclass) && is_plain_class(&rclass) && !last.is_empty() {
                s.push_str(&format!(":after={}", last));
            }
            s
        };
        (sig, format!("{} {} for {}({}, {:?}); {}", dir, id, op, col, v, rowval))
    }

    // ---- row content check

    fn check_values(&mut self, api: &str, rows: &[Row], projection: Option<&[String]>) {
        for row in rows {
            let Some(mr) = self.m.rows.get(&row.id) else { continue };
            let want: Vec<(String, Value)> = self
                .m
                .cols
                .iter()
                .zip(mr.vals.iter())
                .filter(|(c, _)| projection.is_none_or(|p| p.contains(&c.name)))
                .map(|(c, v)| (c.name.clone(), v.clone()))
                .collect();
            let same = want.len() == row.values.len() && want.iter().all(|(n, v)| row.values.iter().any(|(n2, v2)| n == n2 && val_same(v, v2)));
            if !same {
                let d = format!("{} returned row {} as {:?}, the table holds {:?}", api, row.id, row.values, want);
                self.violation(format!("{}:row-content-differs", api), d);
                return;
            }
        }
    }

    /// compares an id-set answer with the model; returns true when equal
    #[allow(clippy::too_many_arguments)]
    fn check_set(
        &mut self,
        api: &str,
        kind: &str,
        cond: &Condition,
        rows: &[Row],
        exp: &BTreeSet<u64>,
        path_of: &dyn Fn(&Case, &Condition) -> &'static str,
        run: &dyn Fn(&Case, &Condition) -> Option<BTreeSet<u64>>,
    ) -> bool {
        let ids = ids_of(rows);
        let got: BTreeSet<u64> = ids.iter().copied().collect();
        if got.len() != ids.len() {
            let d = format!("{} {:?} returned duplicate rows: {:?}", api, cond, ids);
            self.violation(format!("{}[{}]:duplicate-rows", kind, path_of(self, cond)), d);
            return false;
        }
        if &got == exp {
            return true;
        }
        let found = {
            let me: &Case = self;
            me.classify(api, kind, cond, &got, exp, &|c| path_of(me, c), &|c| run(me, c))
        };
        for (sig, d) in found {
            let detail = format!("{} {:?}: expected ids {} got {}; {}", api, cond, brief_ids(exp), brief_ids(&got), d);
            self.violation(sig, detail);
        }
        false
    }

    // ---- the query battery for one condition

    fn eval(&mut self, tag: &str, cond: &Condition, nontrivial: bool) {
        let h = hash_combine(hash_combine(self.seed, hash_str(tag)), hash_str(&format!("{:?}#{}", cond, self.trace.len())));
        self.r.eval(h, nontrivial);
        self.r.count(&format!("checked:{}", tag), 1);
    }

    fn queries(&mut self, cond: &Condition) {
        let exp = self.m.matching(cond);
        let n = self.m.rows.len();
        let nontrivial = n >= 2 && !exp.is_empty() && exp.len() < n;
        let ipath = self.index_path(cond);
        self.r.count(&format!("path:select:{}", ipath), 1);
        if self.verbose {
            eprintln!("  query {:?} -> expect {}", cond, brief_ids(&exp));
        }

        let sel_path = |me: &Case, c: &Condition| me.index_path(c);
        let sel_run_a = |me: &Case, c: &Condition| me.a.select(T, c.clone()).ok().map(|r| ids_of(&r).into_iter().collect());
        let sel_run_b = |me: &Case, c: &Condition| me.b.select(T, c.clone()).ok().map(|r| ids_of(&r).into_iter().collect());
        let scan_path = |_: &Case, _: &Condition| "scan";

        // 1. select on A (indexed configuration) and B (never indexed)
        let mut select_ok = false;
        let mut select_raw: Option<Vec<u64>> = None;
        match self.a.select(T, cond.clone()) {
            Ok(rows) => {
                self.r.count("rows_returned", rows.len() as u64);
                select_raw = Some(ids_of(&rows));
                select_ok = self.check_set("select", "index-lookup", cond, &rows, &exp, &sel_path, &sel_run_a);
                self.check_values("select", &rows, None);
                self.eval("select", cond, nontrivial);
            }
            Err(e) => self.violation(format!("select:error:{}", err_name(&e)), format!("select {:?} failed: {:?}", cond, e)),
        }
        match self.b.select(T, cond.clone()) {
            Ok(rows) => {
                self.check_set("select", "index-lookup", cond, &rows, &exp, &scan_path, &sel_run_b);
                self.check_values("select", &rows, None);
                self.eval("select-scan-twin", cond, nontrivial);
            }
            Err(e) => self.violation(format!("select:error:{}", err_name(&e)), format!("select (no indexes) {:?} failed: {:?}", cond, e)),
        }

        // 2. count / count_column
        match self.a.count(T, cond.clone()) {
            Ok(c) => {
                if c != exp.len() as u64 && select_ok {
                    self.violation(format!("count[{}]:wrong-count", ipath), format!("count {:?} = {} but {} rows satisfy it", cond, c, exp.len()));
                }
                self.eval("count", cond, nontrivial);
            }
            Err(e) => self.violation(format!("count:error:{}", err_name(&e)), format!("count {:?} failed: {:?}", cond, e)),
        }
        let agg_ci = self.rng.below(self.m.cols.len());
        let agg_col = self.m.cols[agg_ci].clone();
        let agg_vals: Vec<Value> = exp.iter().map(|id| self.m.rows[id].vals[agg_ci].clone()).collect();
        match self.a.count_column(T, &agg_col.name, cond.clone()) {
            Ok(c) => {
                let want = agg_vals.iter().filter(|v| !matches!(v, Value::Null)).count() as u64;
                if c != want && select_ok {
                    self.violation(format!("count_column[{}]:wrong-count", ipath), format!("count_column({}) {:?} = {} but {} satisfying rows are non-null there", agg_col.name, cond, c, want));
                }
                self.eval("count_column", cond, nontrivial);
            }
            Err(e) => self.violation(format!("count_column:error:{}", err_name(&e)), format!("count_column {:?} failed: {:?}", cond, e)),
        }

        // 3. aggregates over a random column
        self.aggregates(cond, &agg_col, &agg_vals, select_ok, ipath, nontrivial);

        // 4. limit / offset, iterator, streaming cursor: subset of the right size, and the same
        //    answer with and without indexes
        let limit = *self.rng.pick(&[0usize, 1, 2, 3, 5, 10, 64, 1000]);
        let offset = *self.rng.pick(&[0usize, 0, 1, 2, 5, 50]);
        let ra = self.a.select_with_limit(T, cond.clone(), limit, offset);
        let rb = self.b.select_with_limit(T, cond.clone(), limit, offset);
        self.window("limit", cond, &exp, ra, rb, Some(limit), offset, select_ok, nontrivial);

        let batch = *self.rng.pick(&[1usize, 2, 3, 7, 1000]);
        let it_limit = if self.rng.bool() { Some(*self.rng.pick(&[1usize, 2, 4, 9, 200])) } else { None };
        let it_off = *self.rng.pick(&[0usize, 0, 1, 3, 70]);
        let mut opts = CursorOptions::new().with_batch_size(batch).with_offset(it_off);
        if let Some(l) = it_limit {
            opts = opts.with_limit(l);
        }
        let ra = self.a.select_iter(T, cond.clone(), opts).and_then(|c| c.collect::<Result<Vec<Row>, _>>());
        let rb = self.b.select_iter(T, cond.clone(), opts).and_then(|c| c.collect::<Result<Vec<Row>, _>>());
        self.window("iter", cond, &exp, ra, rb, it_limit, it_off, select_ok, nontrivial);

        let max_rows = if self.rng.chance(1, 3) { Some(*self.rng.pick(&[1usize, 3, 8, 100])) } else { None };
        let mk = |e: &RelationalEngine| {
            let mut c = e.select_streaming(T, cond.clone()).with_batch_size(batch);
            if let Some(mx) = max_rows {
                c = c.with_max_rows(mx);
            }
            c.collect::<Result<Vec<Row>, _>>()
        };
        let ra = mk(&self.a);
        let rb = mk(&self.b);
        self.window("stream", cond, &exp, ra, rb, max_rows, 0, select_ok, nontrivial);

        // 5. columnar / vectorised
        let prefer = !self.rng.chance(1, 5);
        let projection: Option<Vec<String>> = if self.rng.chance(1, 4) {
            let k = 1 + self.rng.below(self.m.cols.len());
            Some(self.m.cols.iter().take(k).map(|c| c.name.clone()).collect())
        } else {
            None
        };
        let cpath = self.columnar_path(cond, prefer);
        self.r.count(&format!("path:columnar:{}", cpath), 1);
        let col_path = move |me: &Case, c: &Condition| me.columnar_path(c, prefer);
        let col_run = move |me: &Case, c: &Condition| {
            me.a.select_columnar(T, c.clone(), ColumnarScanOptions { projection: None, prefer_columnar: prefer }).ok().map(|r| ids_of(&r).into_iter().collect())
        };
        let mut columnar_ids: Option<BTreeSet<u64>> = None;
        match self.a.select_columnar(T, cond.clone(), ColumnarScanOptions { projection: projection.clone(), prefer_columnar: prefer }) {
            Ok(rows) => {
                columnar_ids = Some(ids_of(&rows).into_iter().collect());
                if !select_ok && select_raw.as_ref() == Some(&ids_of(&rows)) {
                    // the same wrong answer as select gave for this condition (select_columnar
                    // delegates to select unless the whole tree is vectorisable): reported above
                    self.r.count("columnar_mismatch_same_as_select", 1);
                } else {
                    self.check_set("columnar", "columnar", cond, &rows, &exp, &col_path, &col_run);
                }
                self.check_values("columnar", &rows, projection.as_deref());
                self.eval("columnar", cond, nontrivial);
            }
            Err(e) => self.violation(format!("columnar:error:{}", err_name(&e)), format!("select_columnar {:?} failed: {:?}", cond, e)),
        }

        // 6. text path
        if let Some(w) = sql_cond(cond, &self.m) {
            self.text_select(cond, &w, &exp, prefer && projection.is_none(), columnar_ids, select_ok, nontrivial);
        } else if matches!(cond, Condition::True) {
            self.text_select(cond, "", &exp, false, None, select_ok, nontrivial);
        }
    }

    #[allow(clippy::too_many_arguments)]
    fn window(
        &mut self,
        api: &str,
        cond: &Condition,
        exp: &BTreeSet<u64>,
        ra: Result<Vec<Row>, relational_engine::RelationalError>,
        rb: Result<Vec<Row>, relational_engine::RelationalError>,
        limit: Option<usize>,
        offset: usize,
        select_ok: bool,
        nontrivial: bool,
    ) {
        let ipath = self.index_path(cond);
        let want_len = {
            let avail = exp.len().saturating_sub(offset);
            limit.map_or(avail, |l| l.min(avail))
        };
        let mut sets: Vec<Option<Vec<u64>>> = Vec::new();
        for (which, res, path) in [("A", ra, ipath), ("B", rb, "scan")] {
            match res {
                Ok(rows) => {
                    let ids = ids_of(&rows);
                    let set: BTreeSet<u64> = ids.iter().copied().collect();
                    let bad = if set.len() != ids.len() {
                        Some("duplicate-rows")
                    } else if !set.is_subset(exp) {
                        Some("returns-non-matching-rows")
                    } else if ids.len() != want_len {
                        Some("wrong-number-of-rows")
                    } else {
                        None
                    };
                    if let Some(b) = bad {
                        // when plain select is already wrong for this condition the root cause has
                        // been reported there
                        if select_ok || path == "scan" {
                            let d = format!(
                                "{} ({}) {:?} limit {:?} offset {}: {} rows satisfy the condition, expected {} rows out of them, got ids {:?}",
                                api, which, cond, limit, offset, exp.len(), want_len, ids
                            );
                            let p = if path == "scan" { "scan" } else { "index" };
                            self.violation(format!("window[{}]:{}", p, b), d);
                        } else {
                            self.r.count("window_mismatch_attributed_to_select", 1);
                        }
                        sets.push(None);
                    } else {
                        self.check_values(api, &rows, None);
                        let mut s = ids;
                        s.sort_unstable();
                        sets.push(Some(s));
                    }
                }
                Err(e) => {
                    self.violation(format!("{}:error:{}", api, err_name(&e)), format!("{} ({}) {:?} failed: {:?}", api, which, cond, e));
                    sets.push(None);
                }
            }
        }
        if let (Some(Some(sa)), Some(Some(sb))) = (sets.first(), sets.get(1)) {
            if sa != sb {
                let d = format!(
                    "{} {:?} limit {:?} offset {}: with indexes {:?}, without indexes {:?} (both are subsets of the {} satisfying rows)",
                    api, cond, limit, offset, sa, sb, exp.len()
                );
                let _ = ipath;
                self.violation("window[index]:rows-depend-on-index".into(), d);
            }
        }
        self.eval(api, cond, nontrivial && want_len > 0);
    }

    fn aggregates(&mut self, cond: &Condition, col: &Col, vals: &[Value], select_ok: bool, ipath: &str, nontrivial: bool) {
        // sum / avg: numeric values in id order (what a correct engine over exactly these rows adds up)
        let nums: Vec<f64> = vals
            .iter()
            .filter_map(|v| match v {
                Value::Int(i) => Some(*i as f64),
                Value::Float(f) => Some(*f),
                _ => None,
            })
            .collect();
        let want_sum: f64 = nums.iter().sum();
        let close = |a: f64, b: f64| -> bool {
            if a.is_nan() || b.is_nan() {
                return a.is_nan() && b.is_nan();
            }
            if a.is_infinite() || b.is_infinite() {
                return a == b;
            }
            let scale: f64 = nums.iter().map(|x| x.abs()).filter(|x| x.is_finite()).fold(0.0, f64::max).max(1e-300);
            (a - b).abs() <= scale * 1e-12 * (nums.len().max(1) as f64)
        };
        // an order-sensitive overflow (inf - inf) is possible only with infinities in the input; then NaN vs inf is not judged
        let has_both_inf = nums.iter().any(|x| *x == f64::INFINITY) && nums.iter().any(|x| *x == f64::NEG_INFINITY);
        match self.a.sum(T, &col.name, cond.clone()) {
            Ok(s) => {
                if !close(s, want_sum) && select_ok && !has_both_inf {
                    self.violation(format!("sum[{}]:wrong-value", ipath), format!("sum({}) {:?} = {} but the satisfying rows add up to {} ({:?})", col.name, cond, s, want_sum, nums));
                }
                self.eval("sum", cond, nontrivial && !nums.is_empty());
            }
            Err(e) => self.violation(format!("sum:error:{}", err_name(&e)), format!("sum {:?} failed: {:?}", cond, e)),
        }
        match self.a.avg(T, &col.name, cond.clone()) {
            Ok(s) => {
                let ok = match (s, nums.is_empty()) {
                    (None, true) => true,
                    (Some(x), false) => close(x * nums.len() as f64, want_sum) || close(x, want_sum / nums.len() as f64),
                    _ => false,
                };
                if !ok && select_ok && !has_both_inf {
                    self.violation(format!("avg[{}]:wrong-value", ipath), format!("avg({}) {:?} = {:?} but the satisfying rows hold {:?}", col.name, cond, s, nums));
                }
                self.eval("avg", cond, nontrivial && !nums.is_empty());
            }
            Err(e) => self.violation(format!("avg:error:{}", err_name(&e)), format!("avg {:?} failed: {:?}", cond, e)),
        }
        // min / max: the answer must be a value of a satisfying row; where the column's values are
        // totally ordered among themselves (no NaN, not Bool/Json) it must be the true extreme
        let non_null: Vec<&Value> = vals.iter().filter(|v| !matches!(v, Value::Null)).collect();
        let total = !matches!(col.ty, Ty::Bool | Ty::Json) && !non_null.iter().any(|v| matches!(v, Value::Float(f) if f.is_nan()));
        for (name, is_min) in [("min", true), ("max", false)] {
            let res = if is_min { self.a.min(T, &col.name, cond.clone()) } else { self.a.max(T, &col.name, cond.clone()) };
            match res {
                Ok(got) => {
                    let mut bad: Option<String> = None;
                    match &got {
                        None => {
                            if !non_null.is_empty() {
                                bad = Some("none-although-values-exist".into());
                            }
                        }
                        Some(g) => {
                            if !non_null.iter().any(|v| val_same(v, g) || (*v == g)) {
                                bad = Some("value-not-among-satisfying-rows".into());
                            } else if total {
                                let better = non_null.iter().any(|v| {
                                    let o = match (v, g) {
                                        (Value::Int(a), Value::Int(b)) => a.cmp(b),
                                        (Value::Float(a), Value::Float(b)) => a.partial_cmp(b).unwrap_or(std::cmp::Ordering::Equal),
                                        (Value::String(a), Value::String(b)) => a.cmp(b),
                                        (Value::Bytes(a), Value::Bytes(b)) => a.cmp(b),
                                        _ => std::cmp::Ordering::Equal,
                                    };
                                    if is_min {
                                        o == std::cmp::Ordering::Less
                                    } else {
                                        o == std::cmp::Ordering::Greater
                                    }
                                });
                                if better {
                                    bad = Some("not-the-extreme".into());
                                }
                            }
                        }
                    }
                    if let Some(b) = bad {
                        if select_ok {
                            self.violation(
                                format!("{}[{}]:{}", name, ipath, b),
                                format!("{}({}) {:?} = {:?}; satisfying rows hold {:?}", name, col.name, cond, got, non_null),
                            );
                        }
                    }
                    self.eval(name, cond, nontrivial && !non_null.is_empty());
                }
                Err(e) => self.violation(format!("{}:error:{}", name, err_name(&e)), format!("{} {:?} failed: {:?}", name, cond, e)),
            }
        }
    }

    #[allow(clippy::too_many_arguments)]
    fn text_select(&mut self, cond: &Condition, where_sql: &str, exp: &BTreeSet<u64>, same_as_columnar_call: bool, columnar_ids: Option<BTreeSet<u64>>, select_ok: bool, nontrivial: bool) {
        let w = if where_sql.is_empty() { String::new() } else { format!(" WHERE {}", where_sql) };
        let q = format!("SELECT * FROM {}{}", T, w);
        match self.router.execute_parsed(&q) {
            Ok(QueryResult::Rows(rows)) => {
                let ids = ids_of(&rows);
                let got: BTreeSet<u64> = ids.iter().copied().collect();
                if got.len() != ids.len() {
                    let direct = self.a.select_columnar(T, cond.clone(), ColumnarScanOptions { projection: None, prefer_columnar: true }).ok().map(|r| ids_of(&r));
                    if direct.as_ref() == Some(&ids) {
                        self.r.count("text_mismatch_same_as_direct_columnar_call", 1);
                    } else {
                        self.violation("text-select:duplicate-rows".into(), format!("{} returned {:?}, the direct call {:?}", q, ids, direct));
                    }
                } else if &got != exp {
                    // the router runs select_columnar(prefer_columnar=true); if the direct call gives
                    // the same wrong answer the root cause is reported by the columnar check
                    let direct: Option<BTreeSet<u64>> = if same_as_columnar_call && columnar_ids.is_some() {
                        columnar_ids
                    } else {
                        self.a
                            .select_columnar(T, cond.clone(), ColumnarScanOptions { projection: None, prefer_columnar: true })
                            .ok()
                            .map(|r| ids_of(&r).into_iter().collect())
                    };
                    if direct.as_ref() == Some(&got) && !select_ok && self.a.select(T, cond.clone()).ok().map(|r| ids_of(&r).into_iter().collect::<BTreeSet<u64>>()).as_ref() == Some(&got) {
                        // not vectorised: the router's select_columnar call delegates to select, whose
                        // wrong answer for this condition has been reported by the select check
                        self.r.count("text_mismatch_same_as_direct_columnar_call", 1);
                    } else if direct.as_ref() == Some(&got) {
                        self.r.count("text_mismatch_same_as_direct_columnar_call", 1);
                        // make sure the root cause is on record even if this round's columnar call used other options
                        let me: &Case = self;
                        let found = me.classify("columnar", "columnar", cond, &got, exp, &|c| me.columnar_path(c, true), &|c| {
                            me.a.select_columnar(T, c.clone(), ColumnarScanOptions { projection: None, prefer_columnar: true }).ok().map(|r| ids_of(&r).into_iter().collect())
                        });
                        for (sig, d) in found {
                            self.violation(sig, format!("via text `{}`: expected ids {} got {}; {}", q, brief_ids(exp), brief_ids(&got), d));
                        }
                    } else {
                        self.violation(
                            "text-select:differs-from-direct-call".into(),
                            format!("`{}` returned {} but the direct call returns {:?}; {} rows satisfy the condition {:?}", q, brief_ids(&got), direct.as_ref().map(brief_ids), exp.len(), cond),
                        );
                    }
                } else {
                    self.check_values("text-select", &rows, None);
                }
                self.eval("text-select", cond, nontrivial);
            }
            Ok(other) => self.violation("text-select:unexpected-result-kind".into(), format!("`{}` returned {:?}", q, other)),
            Err(e) => {
                // a router error on a well-formed statement is C15's business
                self.r.count("text_router_errors", 1);
                if self.verbose {
                    eprintln!("  router error for `{}`: {:?}", q, e);
                }
            }
        }
        let q = format!("SELECT COUNT(*) FROM {}{}", T, w);
        match self.router.execute_parsed(&q) {
            Ok(QueryResult::Rows(rows)) => {
                let got = rows.first().and_then(|r| r.values.first()).map(|(_, v)| v.clone());
                if got != Some(Value::Int(exp.len() as i64)) {
                    let direct = self.a.count(T, cond.clone()).ok();
                    if direct == Some(exp.len() as u64) {
                        self.violation("text-count:differs-from-direct-call".into(), format!("`{}` returned {:?}, direct count = {:?}, {} rows satisfy it", q, got, direct, exp.len()));
                    } else {
                        self.r.count("text_count_mismatch_same_as_direct_call", 1);
                    }
                }
                self.eval("text-count", cond, nontrivial);
            }
            Ok(other) => self.violation("text-count:unexpected-result-kind".into(), format!("`{}` returned {:?}", q, other)),
            Err(_) => self.r.count("text_router_errors", 1),
        }
    }

    // ---- full state comparison (after every mutation)

    fn state_check(&mut self, after: &str) {
        for which in ["A", "B"] {
            let e: &RelationalEngine = if which == "A" { &self.a } else { &self.b };
            let rows = match e.select(T, Condition::True) {
                Ok(r) => r,
                Err(er) => {
                    self.violation(format!("state:error:{}", err_name(&er)), format!("select(True) failed after {}: {:?}", after, er));
                    self.dead = true;
                    return;
                }
            };
            let cnt = e.count(T, Condition::True).ok();
            let got: BTreeMap<u64, &Row> = rows.iter().map(|r| (r.id, r)).collect();
            let mut what: Option<(String, String)> = None;
            if got.len() != rows.len() {
                what = Some(("duplicate-rows".into(), format!("{:?}", ids_of(&rows))));
            }
            for (id, mr) in &self.m.rows {
                match got.get(id) {
                    None => {
                        what = Some(("row-missing".into(), format!("row {} {:?} should exist", id, mr.vals)));
                        break;
                    }
                    Some(r) => {
                        let want = self.m.row(*id, mr);
                        let same = want.values.len() == r.values.len() && want.values.iter().zip(r.values.iter()).all(|((n1, v1), (n2, v2))| n1 == n2 && val_same(v1, v2));
                        if !same {
                            what = Some(("row-content".into(), format!("row {} is {:?}, should be {:?}", id, r.values, want.values)));
                            break;
                        }
                    }
                }
            }
            if what.is_none() {
                if let Some(extra) = got.keys().find(|id| !self.m.rows.contains_key(id)) {
                    what = Some(("row-should-not-exist".into(), format!("row {} {:?}", extra, got[extra].values)));
                }
            }
            if what.is_none() && cnt != Some(self.m.rows.len() as u64) {
                what = Some(("count-true".into(), format!("count(True) = {:?}, table has {} rows", cnt, self.m.rows.len())));
            }
            if let Some((w, d)) = what {
                let engine = if which == "A" { "indexed" } else { "plain" };
                self.violation(format!("state-after-{}:{}", after, w), format!("{} engine after {}: {}", engine, after, d));
                self.dead = true;
                return;
            }
        }
        self.r.count("state_checks", 1);
    }

    // ---- mutations

    fn gen_insert_values(&mut self) -> (HashMap<String, Value>, Vec<Value>, Vec<bool>) {
        let mut hm = HashMap::new();
        let mut vals = Vec::new();
        let mut om = Vec::new();
        for ci in 0..self.m.cols.len() {
            let c = self.m.cols[ci].clone();
            let k = self.rng.below(100);
            if c.nullable && k < 18 {
                vals.push(Value::Null);
                om.push(true);
            } else if c.nullable && k < 32 {
                hm.insert(c.name.clone(), Value::Null);
                vals.push(Value::Null);
                om.push(false);
            } else {
                let v = if k < 50 && !self.m.rows.is_empty() {
                    let idx = self.rng.below(self.m.rows.len());
                    let v = self.m.rows.values().nth(idx).map(|r| r.vals[ci].clone()).unwrap_or(Value::Null);
                    if matches!(v, Value::Null) {
                        pool_value(&mut self.rng, c.ty)
                    } else {
                        v
                    }
                } else {
                    pool_value(&mut self.rng, c.ty)
                };
                hm.insert(c.name.clone(), v.clone());
                vals.push(v);
                om.push(false);
            }
        }
        (hm, vals, om)
    }

    fn note_insert(&mut self, id: u64, vals: Vec<Value>, om: Vec<bool>, keep: bool) {
        self.m.max_id = self.m.max_id.max(id);
        if keep {
            self.m.rows.insert(id, MRow { vals, omitted: om, last: "insert" });
        }
    }

    fn twin_diverged(&mut self, what: &str) {
        self.r.inconclusive(&format!("twin engines diverged on {} (case abandoned)", what));
        self.dead = true;
    }

    fn do_insert(&mut self) {
        let mode = self.rng.weighted(&[40, 20, 15, 15, 10]);
        match mode {
            1 => {
                // batch
                let k = 1 + self.rng.below(12);
                let mut hms = Vec::new();
                let mut metas = Vec::new();
                for _ in 0..k {
                    let (hm, vals, om) = self.gen_insert_values();
                    hms.push(hm);
                    metas.push((vals, om));
                }
                self.trace.push(format!("batch_insert x{}", k));
                let ra = self.a.batch_insert(T, hms.clone());
                let rb = self.b.batch_insert(T, hms);
                match (ra, rb) {
                    (Ok(ia), Ok(ib)) if ia == ib && ia.len() == k => {
                        for (id, (vals, om)) in ia.into_iter().zip(metas) {
                            self.note_insert(id, vals, om, true);
                        }
                        self.r.count("op:batch_insert", 1);
                    }
                    (x, y) => {
                        self.violation("insert:unexpected-result".into(), format!("batch_insert of valid rows: indexed {:?}, plain {:?}", x, y));
                        self.dead = true;
                    }
                }
            }
            2 | 3 => {
                // transactional insert, committed or rolled back
                let commit = mode == 2;
                let (hm, vals, om) = self.gen_insert_values();
                self.trace.push(format!("tx_insert {:?} {}", vals, if commit { "commit" } else { "rollback" }));
                let mut ids = Vec::new();
                let mut failed: Option<String> = None;
                for e in [&*self.a, &self.b] {
                    let tx = e.begin_transaction();
                    let res = e.tx_insert(tx, T, hm.clone());
                    let fin = if commit { e.commit(tx) } else { e.rollback(tx) };
                    match (res, fin) {
                        (Ok(id), Ok(())) => ids.push(id),
                        (x, y) => {
                            failed = Some(format!("tx_insert of a valid row: {:?}, then {:?}", x, y));
                            break;
                        }
                    }
                }
                if let Some(d) = failed {
                    self.violation("insert:unexpected-result".into(), d);
                    self.dead = true;
                    return;
                }
                if ids[0] != ids[1] {
                    return self.twin_diverged("row ids");
                }
                self.note_insert(ids[0], vals, om, commit);
                self.r.count(if commit { "op:tx_insert_commit" } else { "op:tx_insert_rollback" }, 1);
            }
            4 => {
                // text INSERT when every value is expressible
                let (hm, vals, om) = self.gen_insert_values();
                let mut names = Vec::new();
                let mut lits = Vec::new();
                let mut ok = !hm.is_empty();
                for c in &self.m.cols {
                    if let Some(v) = hm.get(&c.name) {
                        match sql_value(v) {
                            Some(l) => {
                                names.push(c.name.clone());
                                lits.push(l);
                            }
                            None => ok = false,
                        }
                    }
                }
                if !ok {
                    return self.do_insert_plain(hm, vals, om);
                }
                let q = format!("INSERT INTO {} ({}) VALUES ({})", T, names.join(", "), lits.join(", "));
                self.trace.push(q.clone());
                match self.router.execute_parsed(&q) {
                    Ok(QueryResult::Ids(ids)) if ids.len() == 1 => match self.b.insert(T, hm) {
                        Ok(idb) if idb == ids[0] => {
                            self.note_insert(idb, vals, om, true);
                            self.r.count("op:text_insert", 1);
                        }
                        _ => self.twin_diverged("row ids (text insert)"),
                    },
                    Ok(other) => {
                        self.violation("text-insert:unexpected-result-kind".into(), format!("`{}` returned {:?}", q, other));
                        self.dead = true;
                    }
                    Err(_) => {
                        // C15's business; the statement had no effect we rely on — verify by state check
                        self.r.count("text_router_errors", 1);
                        self.trace.pop();
                    }
                }
            }
            _ => {
                let (hm, vals, om) = self.gen_insert_values();
                self.do_insert_plain(hm, vals, om);
            }
        }
    }

    fn do_insert_plain(&mut self, hm: HashMap<String, Value>, vals: Vec<Value>, om: Vec<bool>) {
        self.trace.push(format!("insert {:?}{}", vals, if om.iter().any(|x| *x) { format!(" omitted={:?}", om) } else { String::new() }));
        match (self.a.insert(T, hm.clone()), self.b.insert(T, hm)) {
            (Ok(ia), Ok(ib)) if ia == ib => {
                self.note_insert(ia, vals, om, true);
                self.r.count("op:insert", 1);
            }
            (Ok(_), Ok(_)) => self.twin_diverged("row ids"),
            (x, y) => {
                self.violation("insert:unexpected-result".into(), format!("insert of a valid row: indexed {:?}, plain {:?}", x, y));
                self.dead = true;
            }
        }
    }

    fn gen_updates(&mut self) -> HashMap<String, Value> {
        let mut hm = HashMap::new();
        let k = 1 + self.rng.below(2.min(self.m.cols.len()));
        for _ in 0..k {
            let ci = self.rng.below(self.m.cols.len());
            let c = self.m.cols[ci].clone();
            let v = if c.nullable && self.rng.chance(1, 5) { Value::Null } else { pool_value(&mut self.rng, c.ty) };
            hm.insert(c.name, v);
        }
        hm
    }

    fn do_update(&mut self) {
        let cond = gen_cond(&mut self.rng, &self.m);
        let ups = self.gen_updates();
        let exp = self.m.matching(&cond);
        let mode = self.rng.weighted(&[45, 20, 20, 15]);
        let mut ups_sorted: Vec<(&String, &Value)> = ups.iter().collect();
        ups_sorted.sort_by(|a, b| a.0.cmp(b.0));
        let label = ["update", "tx_update+commit", "tx_update+rollback", "text UPDATE"][mode];
        self.trace.push(format!("{} {:?} set {:?}", label, cond, ups_sorted));
        let run = |e: &RelationalEngine| -> Result<usize, String> {
            match mode {
                1 | 2 => {
                    let tx = e.begin_transaction();
                    let r = e.tx_update(tx, T, cond.clone(), ups.clone());
                    let f = if mode == 1 { e.commit(tx) } else { e.rollback(tx) };
                    match (r, f) {
                        (Ok(n), Ok(())) => Ok(n),
                        (x, y) => Err(format!("{:?} then {:?}", x, y)),
                    }
                }
                _ => e.update(T, cond.clone(), ups.clone()).map_err(|e| format!("{:?}", e)),
            }
        };
        let ra = if mode == 3 {
            let sets: Option<Vec<String>> = ups_sorted.iter().map(|(c, v)| sql_value(v).map(|l| format!("{} = {}", c, l))).collect();
            let wh = if matches!(cond, Condition::True) { Some(String::new()) } else { sql_cond(&cond, &self.m).map(|w| format!(" WHERE {}", w)) };
            match (sets, wh) {
                (Some(s), Some(w)) => {
                    let q = format!("UPDATE {} SET {}{}", T, s.join(", "), w);
                    match self.router.execute_parsed(&q) {
                        Ok(QueryResult::Count(n)) => {
                            self.r.count("op:text_update", 1);
                            Ok(n)
                        }
                        Ok(other) => Err(format!("unexpected result kind {:?}", other)),
                        Err(_) => {
                            // router refused the statement (C15); run it directly so the twin stays in step
                            self.r.count("text_router_errors", 1);
                            run(&self.a)
                        }
                    }
                }
                _ => run(&self.a),
            }
        } else {
            run(&self.a)
        };
        let rb = run(&self.b);
        let keep = mode != 2;
        for (which, res) in [("indexed", &ra), ("plain", &rb)] {
            match res {
                Ok(n) if *n == exp.len() => {}
                Ok(n) => {
                    let d = format!("{} engine: {} {:?} reported {} rows, {} rows satisfy the condition", which, label, cond, n, exp.len());
                    self.violation("update:wrong-affected-count".into(), d);
                    self.dead = true;
                }
                Err(e) => {
                    let d = format!("{} engine: {} {:?} set {:?} failed: {}", which, label, cond, ups_sorted_dbg(&ups), e);
                    self.violation("update:error".into(), d);
                    self.dead = true;
                }
            }
        }
        if keep {
            for id in &exp {
                let cols = self.m.cols.clone();
                let row = self.m.rows.get_mut(id).unwrap();
                for (ci, c) in cols.iter().enumerate() {
                    if let Some(v) = ups.get(&c.name) {
                        row.vals[ci] = v.clone();
                        row.omitted[ci] = false;
                    }
                }
                row.last = "update";
            }
        } else {
            for id in &exp {
                self.m.rows.get_mut(id).unwrap().last = "undo";
            }
        }
        self.r.count(&format!("op:{}", label.replace(' ', "_")), 1);
        self.r.count("rows_updated", exp.len() as u64);
        self.eval("update", &cond, !exp.is_empty() && exp.len() < self.m.rows.len());
    }

    fn do_delete(&mut self) {
        let mut cond = gen_cond(&mut self.rng, &self.m);
        // keep the table from emptying too quickly: most deletes are narrowed
        if self.rng.chance(2, 3) {
            let lo = self.rng.range(0, self.m.max_id as i64 + 1);
            cond = cond.and(Condition::Ge("_id".into(), Value::Int(lo)).and(Condition::Le("_id".into(), Value::Int(lo + 1 + self.rng.below(6) as i64))));
        }
        let exp = self.m.matching(&cond);
        let mode = self.rng.weighted(&[45, 20, 20, 15]);
        let label = ["delete_rows", "tx_delete+commit", "tx_delete+rollback", "text DELETE"][mode];
        self.trace.push(format!("{} {:?}", label, cond));
        let run = |e: &RelationalEngine| -> Result<usize, String> {
            match mode {
                1 | 2 => {
                    let tx = e.begin_transaction();
                    let r = e.tx_delete(tx, T, cond.clone());
                    let f = if mode == 1 { e.commit(tx) } else { e.rollback(tx) };
                    match (r, f) {
                        (Ok(n), Ok(())) => Ok(n),
                        (x, y) => Err(format!("{:?} then {:?}", x, y)),
                    }
                }
                _ => e.delete_rows(T, cond.clone()).map_err(|e| format!("{:?}", e)),
            }
        };
        let ra = if mode == 3 {
            let wh = if matches!(cond, Condition::True) { Some(String::new()) } else { sql_cond(&cond, &self.m).map(|w| format!(" WHERE {}", w)) };
            match wh {
                Some(w) => match self.router.execute_parsed(&format!("DELETE FROM {}{}", T, w)) {
                    Ok(QueryResult::Count(n)) => {
                        self.r.count("op:text_delete", 1);
                        Ok(n)
                    }
                    Ok(other) => Err(format!("unexpected result kind {:?}", other)),
                    Err(_) => {
                        self.r.count("text_router_errors", 1);
                        run(&self.a)
                    }
                },
                None => run(&self.a),
            }
        } else {
            run(&self.a)
        };
        let rb = run(&self.b);
        for (which, res) in [("indexed", &ra), ("plain", &rb)] {
            match res {
                Ok(n) if *n == exp.len() => {}
                Ok(n) => {
                    let d = format!("{} engine: {} {:?} reported {} rows, {} rows satisfy the condition", which, label, cond, n, exp.len());
                    self.violation("delete:wrong-affected-count".into(), d);
                    self.dead = true;
                }
                Err(e) => {
                    let d = format!("{} engine: {} {:?} failed: {}", which, label, cond, e);
                    self.violation("delete:error".into(), d);
                    self.dead = true;
                }
            }
        }
        if mode != 2 {
            for id in &exp {
                self.m.rows.remove(id);
            }
        } else {
            for id in &exp {
                self.m.rows.get_mut(id).unwrap().last = "undo";
            }
        }
        self.r.count(&format!("op:{}", label.replace(' ', "_")), 1);
        self.r.count("rows_deleted", exp.len() as u64);
        self.eval("delete", &cond, !exp.is_empty());
    }

    fn do_ddl(&mut self) {
        let col = if self.rng.chance(1, 6) { "_id".to_string() } else { self.m.cols[self.rng.below(self.m.cols.len())].name.clone() };
        match self.rng.weighted(&[30, 12, 30, 12, 6]) {
            0 => {
                if self.a.create_index(T, &col).is_ok() {
                    self.hash_idx.insert(col.clone());
                    self.trace.push(format!("create_index {}", col));
                    self.r.count("ddl:create_index", 1);
                }
            }
            1 => {
                if let Some(c) = self.hash_idx.iter().next().cloned() {
                    if self.a.drop_index(T, &c).is_ok() {
                        self.hash_idx.remove(&c);
                        self.trace.push(format!("drop_index {}", c));
                        self.r.count("ddl:drop_index", 1);
                    }
                }
            }
            2 => {
                if self.a.create_btree_index(T, &col).is_ok() {
                    self.btree_idx.insert(col.clone());
                    self.trace.push(format!("create_btree_index {}", col));
                    self.r.count("ddl:create_btree_index", 1);
                }
            }
            3 => {
                if let Some(c) = self.btree_idx.iter().next_back().cloned() {
                    if self.a.drop_btree_index(T, &c).is_ok() {
                        self.btree_idx.remove(&c);
                        self.trace.push(format!("drop_btree_index {}", c));
                        self.r.count("ddl:drop_btree_index", 1);
                    }
                }
            }
            _ => {
                let names: Vec<String> = self.m.cols.iter().map(|c| c.name.clone()).collect();
                let refs: Vec<&str> = names.iter().map(|s| s.as_str()).collect();
                if self.a.materialize_columns(T, &refs).is_ok() {
                    self.trace.push("materialize_columns".into());
                    self.r.count("ddl:materialize_columns", 1);
                }
            }
        }
        // the engine's own view of its indexes must agree with the harness's bookkeeping (label sanity)
        let eh: BTreeSet<String> = self.a.get_indexed_columns(T).into_iter().collect();
        let eb: BTreeSet<String> = self.a.get_btree_indexed_columns(T).into_iter().collect();
        if eh != self.hash_idx || eb != self.btree_idx {
            self.r.count("index_bookkeeping_differs", 1);
            self.hash_idx = eh;
            self.btree_idx = eb;
        }
    }

    fn run(&mut self) {
        let schema = Schema::new(
            self.m
                .cols
                .iter()
                .map(|c| {
                    let col = Column::new(c.name.clone(), c.ty.column_type());
                    if c.nullable {
                        col.nullable()
                    } else {
                        col
                    }
                })
                .collect(),
        );
        if self.a.create_table(T, schema.clone()).is_err() || self.b.create_table(T, schema).is_err() {
            self.r.inconclusive("create_table failed");
            return;
        }
        // indexes that exist before any row (insert-time maintenance) in about half of the cases
        if self.rng.bool() {
            for _ in 0..1 + self.rng.below(3) {
                self.do_ddl();
            }
        }
        // initial rows: sizes around the 4-lane / 64-bit-word boundaries of the vectorised filter
        let n0 = *self.rng.pick(&[0usize, 1, 3, 4, 5, 8, 9, 17, 31, 33, 63, 64, 65, 66, 70, 129, 190]);
        for _ in 0..n0 {
            if self.dead {
                return;
            }
            let (hm, vals, om) = self.gen_insert_values();
            // quiet bulk load (not traced row by row)
            match (self.a.insert(T, hm.clone()), self.b.insert(T, hm)) {
                (Ok(ia), Ok(ib)) if ia == ib => self.note_insert(ia, vals, om, true),
                _ => return self.twin_diverged("initial load"),
            }
        }
        self.trace.push(format!("load {} rows", n0));
        self.state_check("load");
        let steps = 6 + self.rng.below(16);
        for _ in 0..steps {
            if self.dead {
                return;
            }
            let k = self.rng.weighted(&[26, 24, 14, 22, 14]);
            match k {
                0 => {
                    self.do_insert();
                    if !self.dead {
                        self.state_check("insert");
                    }
                }
                1 => {
                    self.do_update();
                    if !self.dead {
                        self.state_check("update");
                    }
                }
                2 => {
                    self.do_delete();
                    if !self.dead {
                        self.state_check("delete");
                    }
                }
                3 => self.do_ddl(),
                _ => {}
            }
            if self.dead {
                return;
            }
            let nq = 2 + self.rng.below(4);
            for _ in 0..nq {
                let cond = gen_cond(&mut self.rng, &self.m);
                self.queries(&cond);
                self.r.count("query_rounds", 1);
            }
        }
        if self.r.want_sample() {
            let s = self.context();
            self.r.sample(json!({"case_seed": self.seed, "what": s.chars().take(900).collect::<String>()}));
        }
    }
}

fn ups_sorted_dbg(ups: &HashMap<String, Value>) -> String {
    let mut v: Vec<(&String, &Value)> = ups.iter().collect();
    v.sort_by(|a, b| a.0.cmp(b.0));
    format!("{:?}", v)
}


// ------------------------------------------------------------------------------------------------
// minimal witnesses of the defects this monitor found on the pinned tree (`--probe 1`)
// ------------------------------------------------------------------------------------------------

fn probes() {
    let hm = |kv: Vec<(&str, Value)>| -> HashMap<String, Value> { kv.into_iter().map(|(k, v)| (k.to_string(), v)).collect() };
    let ids = |r: Result<Vec<Row>, relational_engine::RelationalError>| -> String { format!("{:?}", r.map(|rows| ids_of(&rows))) };
    let col = |prefer: bool| ColumnarScanOptions { projection: None, prefer_columnar: prefer };

    // 1. hash index, Eq on a float column: -0.0 and 0.0 are equal for evaluate() but hashed by bits
    let e = RelationalEngine::with_config(cfg());
    e.create_table(T, Schema::new(vec![Column::new("x", ColumnType::Float)])).unwrap();
    e.insert(T, hm(vec![("x", Value::Float(0.0))])).unwrap();
    e.insert(T, hm(vec![("x", Value::Float(-0.0))])).unwrap();
    let c = Condition::Eq("x".into(), Value::Float(0.0));
    let scan = ids(e.select(T, c.clone()));
    e.create_index(T, "x").unwrap();
    println!("1 hash-index signed zero : Eq(x,0.0) scan {} / with hash index {}", scan, ids(e.select(T, c)));

    // 2. hash index, Eq(col, Null) misses rows inserted with the nullable column omitted
    let e = RelationalEngine::with_config(cfg());
    e.create_table(T, Schema::new(vec![Column::new("a", ColumnType::Int), Column::new("b", ColumnType::Int).nullable()])).unwrap();
    e.create_index(T, "b").unwrap();
    e.insert(T, hm(vec![("a", Value::Int(1))])).unwrap();
    e.insert(T, hm(vec![("a", Value::Int(2)), ("b", Value::Null)])).unwrap();
    let c = Condition::Eq("b".into(), Value::Null);
    let with = ids(e.select(T, c.clone()));
    e.drop_index(T, "b").unwrap();
    println!("2 hash-index omitted null: Eq(b,Null) with hash index {} / scan {}", with, ids(e.select(T, c)));

    // 3. vectorised filter ignores the null bitmap
    let e = RelationalEngine::with_config(cfg());
    e.create_table(T, Schema::new(vec![Column::new("a", ColumnType::Int), Column::new("b", ColumnType::Int).nullable()])).unwrap();
    e.insert(T, hm(vec![("a", Value::Int(1)), ("b", Value::Int(7))])).unwrap();
    e.insert(T, hm(vec![("a", Value::Int(2))])).unwrap();
    let c = Condition::Lt("b".into(), Value::Int(5));
    println!("3 columnar null mask     : Lt(b,5) select {} / select_columnar(prefer) {}  (row 2 has b=NULL)", ids(e.select(T, c.clone())), ids(e.select_columnar(T, c, col(true))));
    let r = QueryRouter::with_engines(Arc::new(e), Arc::new(GraphEngine::new()), Arc::new(VectorEngine::new()));
    println!("                           SQL `SELECT * FROM tt WHERE b < 5` -> {:?}", r.execute_parsed("SELECT * FROM tt WHERE b < 5").map(|q| if let QueryResult::Rows(rows) = q { ids_of(&rows) } else { vec![] }));

    // 4. vectorised Eq on floats: the last len%4 slots are compared with |a-b| < EPSILON
    let e = RelationalEngine::with_config(cfg());
    e.create_table(T, Schema::new(vec![Column::new("x", ColumnType::Float)])).unwrap();
    for v in [f64::INFINITY, 1e-300] {
        e.insert(T, hm(vec![("x", Value::Float(v))])).unwrap();
    }
    for (name, c) in [("Eq(x,0.0)", Condition::Eq("x".into(), Value::Float(0.0))), ("Eq(x,inf)", Condition::Eq("x".into(), Value::Float(f64::INFINITY)))] {
        println!("4 columnar float Eq tail : {} select {} / select_columnar(prefer) {}  (rows: 1=inf, 2=1e-300)", name, ids(e.select(T, c.clone())), ids(e.select_columnar(T, c, col(true))));
    }

    // 5. Condition::True inside AND/OR is vectorised over the live-row count, not the slot count
    let e = RelationalEngine::with_config(cfg());
    e.create_table(T, Schema::new(vec![Column::new("a", ColumnType::Int)])).unwrap();
    for i in 0..3 {
        e.insert(T, hm(vec![("a", Value::Int(i))])).unwrap();
    }
    e.delete_rows(T, Condition::Eq("a".into(), Value::Int(0))).unwrap();
    let c = Condition::Ge("a".into(), Value::Int(0)).and(Condition::True);
    println!("5 columnar nested True   : And(Ge(a,0),True) select {} / select_columnar(prefer) {}", ids(e.select(T, c.clone())), ids(e.select_columnar(T, c, col(true))));

    // 6. select_with_limit through an index truncates the candidate ids before re-check and sort
    let e = RelationalEngine::with_config(cfg());
    e.create_table(T, Schema::new(vec![Column::new("a", ColumnType::Int), Column::new("b", ColumnType::Int)])).unwrap();
    for (a, b) in [(5, 0), (4, 0), (3, 1), (2, 1), (1, 1)] {
        e.insert(T, hm(vec![("a", Value::Int(a)), ("b", Value::Int(b))])).unwrap();
    }
    let c1 = Condition::Gt("a".into(), Value::Int(0));
    let c2 = Condition::Gt("a".into(), Value::Int(0)).and(Condition::Eq("b".into(), Value::Int(0)));
    let s1 = ids(e.select_with_limit(T, c1.clone(), 2, 0));
    let s2 = ids(e.select_with_limit(T, c2.clone(), 2, 0));
    let st = format!("{:?}", e.select_streaming(T, c1.clone()).with_batch_size(2).collect::<Result<Vec<Row>, _>>().map(|r| ids_of(&r)));
    e.create_btree_index(T, "a").unwrap();
    println!("6 limit through an index : Gt(a,0) limit 2: scan {} / btree {}", s1, ids(e.select_with_limit(T, c1.clone(), 2, 0)));
    println!("                           And(Gt(a,0),Eq(b,0)) limit 2: scan {} / btree {}", s2, ids(e.select_with_limit(T, c2, 2, 0)));
    println!("                           streaming Gt(a,0) batch 2: scan {} / btree {:?}", st, e.select_streaming(T, c1).with_batch_size(2).collect::<Result<Vec<Row>, _>>().map(|r| ids_of(&r)));

    // 7. rollback maintains an ordered index that does not exist; create_btree_index later adopts the leftovers
    let e = RelationalEngine::with_config(cfg());
    e.create_table(T, Schema::new(vec![Column::new("x", ColumnType::Int)])).unwrap();
    e.create_index(T, "x").unwrap();
    e.insert(T, hm(vec![("x", Value::Int(1))])).unwrap();
    let tx = e.begin_transaction();
    e.tx_update(tx, T, Condition::True, hm(vec![("x", Value::Int(2))])).unwrap();
    e.rollback(tx).unwrap();
    e.update(T, Condition::True, hm(vec![("x", Value::Int(3))])).unwrap();
    e.create_btree_index(T, "x").unwrap();
    println!("7 phantom ordered index  : one row, Ge(x,0) after rollback + create_btree_index -> {}", ids(e.select(T, Condition::Ge("x".into(), Value::Int(0)))));
}

fn run_case(case_seed: u64, r: &mut Report, verbose: bool) {
    let mut rng = Rng::new(case_seed);
    let cols = gen_schema(&mut rng);
    let store = TensorStore::new();
    let a = Arc::new(RelationalEngine::with_store_and_config(store.clone(), cfg()));
    let graph = Arc::new(GraphEngine::with_store(store.clone()));
    let vector = Arc::new(VectorEngine::with_store(store));
    let router = QueryRouter::with_engines(a.clone(), graph, vector);
    let b = RelationalEngine::with_config(cfg());
    let mut c = Case {
        rng,
        seed: case_seed,
        r,
        m: Model { cols, rows: BTreeMap::new(), max_id: 0 },
        a,
        b,
        router,
        hash_idx: BTreeSet::new(),
        btree_idx: BTreeSet::new(),
        trace: Vec::new(),
        dead: false,
        verbose,
    };
    c.run();
}

/// Router with the query cache switched on, statements arriving through both text entry points
/// (`execute_parsed` and `execute_parsed_async`): every SELECT must still return exactly the rows
/// of the harness's model that satisfy its WHERE clause, also when the same SELECT text was
/// answered (and cached) before a write.
fn cached_router_case(case_seed: u64, r: &mut Report) {
    let mut rng = Rng::new(case_seed);
    let store = TensorStore::new();
    let rel = Arc::new(RelationalEngine::with_store_and_config(store.clone(), cfg()));
    let mut router = QueryRouter::with_engines(rel, Arc::new(GraphEngine::with_store(store.clone())), Arc::new(VectorEngine::with_store(store)));
    router.init_cache();
    let rt = match tokio::runtime::Builder::new_current_thread().build() {
        Ok(rt) => rt,
        Err(_) => {
            r.inconclusive("tokio runtime");
            return;
        }
    };
    let replay = json!({"part": "cached-router", "case_seed": case_seed});
    let mut trace: Vec<String> = Vec::new();
    let mut run = |q: &str, rng: &mut Rng, trace: &mut Vec<String>| -> std::result::Result<QueryResult, String> {
        let via_async = rng.bool();
        trace.push(format!("{}{}", if via_async { "[async] " } else { "" }, q));
        if via_async {
            rt.block_on(router.execute_parsed_async(q)).map_err(|e| format!("{:?}", e))
        } else {
            router.execute_parsed(q).map_err(|e| format!("{:?}", e))
        }
    };
    if run("CREATE TABLE ct (k INT, v INT, s TEXT)", &mut rng, &mut trace).is_err() {
        r.inconclusive("create table through the router failed");
        return;
    }
    // model: id -> (k, v, s)
    let mut model: BTreeMap<u64, (i64, i64, String)> = BTreeMap::new();
    let names = ["bob", "Bob", "BOB", "amy", "Amy", "a b", "a  b", " a b", "a\tb"];
    // a small pool of SELECT texts so that the same text is asked again after writes
    let selects: Vec<(String, Box<dyn Fn(&(i64, i64, String)) -> bool>)> = vec![
        ("SELECT * FROM ct".to_string(), Box::new(|_| true)),
        ("SELECT * FROM ct WHERE v >= 3".to_string(), Box::new(|t| t.1 >= 3)),
        ("SELECT * FROM ct WHERE v < 3".to_string(), Box::new(|t| t.1 < 3)),
        ("SELECT * FROM ct WHERE k = 1".to_string(), Box::new(|t| t.0 == 1)),
        ("SELECT * FROM ct WHERE s = 'bob'".to_string(), Box::new(|t| t.2 == "bob")),
        ("SELECT * FROM ct WHERE s = 'Bob'".to_string(), Box::new(|t| t.2 == "Bob")),
        ("SELECT * FROM ct WHERE s = 'BOB'".to_string(), Box::new(|t| t.2 == "BOB")),
        ("select * from ct where s = 'amy'".to_string(), Box::new(|t| t.2 == "amy")),
        ("SELECT * FROM ct WHERE s = 'Amy'".to_string(), Box::new(|t| t.2 == "Amy")),
        // texts that differ only in white space INSIDE a string literal are different questions
        ("SELECT * FROM ct WHERE s = 'a b'".to_string(), Box::new(|t| t.2 == "a b")),
        ("SELECT * FROM ct WHERE s = 'a  b'".to_string(), Box::new(|t| t.2 == "a  b")),
        ("SELECT * FROM ct WHERE s = ' a b'".to_string(), Box::new(|t| t.2 == " a b")),
        ("SELECT * FROM ct WHERE s = 'a\tb'".to_string(), Box::new(|t| t.2 == "a\tb")),
        // ... and texts that differ only in white space OUTSIDE literals are the same question
        ("SELECT  *  FROM ct   WHERE s = 'a b'".to_string(), Box::new(|t| t.2 == "a b")),
    ];
    let steps = 12 + rng.below(30);
    for _ in 0..steps {
        match rng.weighted(&[30, 15, 10, 45]) {
            0 => {
                let (k, v, sname) = (rng.below(4) as i64, rng.below(6) as i64, *rng.pick(&names));
                match run(&format!("INSERT INTO ct (k, v, s) VALUES ({}, {}, '{}')", k, v, sname), &mut rng, &mut trace) {
                    Ok(QueryResult::Ids(ids)) if ids.len() == 1 => {
                        model.insert(ids[0], (k, v, sname.to_string()));
                    }
                    Ok(other) => {
                        // learn the id from a scan instead
                        let _ = other;
                        r.inconclusive("insert result kind not understood");
                        return;
                    }
                    Err(_) => {
                        r.count("text_router_errors", 1);
                        return;
                    }
                }
            }
            1 => {
                let (k, v) = (rng.below(4) as i64, rng.below(6) as i64);
                if run(&format!("UPDATE ct SET v = {} WHERE k = {}", v, k), &mut rng, &mut trace).is_ok() {
                    for t in model.values_mut().filter(|t| t.0 == k) {
                        t.1 = v;
                    }
                } else {
                    r.count("text_router_errors", 1);
                    return;
                }
            }
            2 => {
                let k = rng.below(4) as i64;
                if run(&format!("DELETE FROM ct WHERE k = {}", k), &mut rng, &mut trace).is_ok() {
                    model.retain(|_, t| t.0 != k);
                } else {
                    r.count("text_router_errors", 1);
                    return;
                }
            }
            _ => {
                let (q, pred) = &selects[rng.below(selects.len())];
                let exp: BTreeSet<u64> = model.iter().filter(|(_, t)| pred(t)).map(|(id, _)| *id).collect();
                match run(q, &mut rng, &mut trace) {
                    Ok(QueryResult::Rows(rows)) => {
                        let got: BTreeSet<u64> = ids_of(&rows).into_iter().collect();
                        r.count("cached_router_selects_checked", 1);
                        if got != exp {
                            let stale_kind = if trace.iter().rev().skip(1).any(|t| t.ends_with(q.as_str())) { "same-text-asked-before" } else { "first-time-text" };
                            r.violation(
                                format!("cached-router:select-differs-from-model:{}", stale_kind),
                                format!("with the query cache on, `{}` returned ids {:?} but rows {:?} satisfy it; statements so far: {:?}", q, got, exp, trace),
                                replay.clone(),
                            );
                            return;
                        }
                    }
                    Ok(_) => {}
                    Err(_) => r.count("text_router_errors", 1),
                }
            }
        }
    }
    r.eval(hash_str(&trace.join(";")), trace.len() > 8);
}

fn main() {
    let args = Args::parse();
    let started = Instant::now();
    quiet_panics();
    let mut total = Report::new();
    total.max_samples = 4;
    let verbose = args.extra_u64("verbose", 0) > 0;
    if let Some(f) = args.extra.get("sig-filter") {
        let _ = SIG_FILTER.set(f.clone());
    }

    if args.extra.contains_key("probe") {
        probes();
        return;
    }
    if let Some(p) = &args.replay {
        let v: J = serde_json::from_str(&std::fs::read_to_string(p).expect("replay file")).expect("json");
        let rp = if v.get("replay").is_some() { &v["replay"] } else { &v };
        let seed = rp["case_seed"].as_u64().expect("case_seed");
        let cached = rp["part"].as_str() == Some("cached-router");
        let res = std::panic::catch_unwind(std::panic::AssertUnwindSafe(|| if cached { cached_router_case(seed, &mut total) } else { run_case(seed, &mut total, verbose) }));
        if let Err(e) = res {
            let msg = panic_msg(&e);
            total.violation(format!("panic:{}", first_line(&msg)), msg, json!({"part": "case", "case_seed": seed}));
        }
    } else if let Some(s) = args.extra.get("case-seed") {
        let seed: u64 = s.parse().expect("case-seed");
        run_case(seed, &mut total, verbose);
    } else {
        let n = args.by_tier(4_000u64, 400_000u64);
        let rep = par_cases(args.threads, args.seed, n, args.budget(45, 700), |_i, s, r| run_case(s, r, false));
        total.merge(rep);
        let n2 = args.by_tier(1_500u64, 60_000u64);
        let rep = par_cases(args.threads, args.seed ^ 0xCAC4E, n2, args.budget(15, 180), |_i, s, r| cached_router_case(s, r));
        total.merge(rep);
    }

    let single = args.replay.is_some() || args.extra.contains_key("case-seed");
    let meta = Meta {
        property: "C04",
        rule: "one evaluation = one (table state, condition tree, API/path) comparison between the real engine's answer and {rows of the harness's model for which Condition::evaluate is true}; distinct by hash(case, step, condition, API); non-trivial when the table has >=2 rows and the condition selects some but not all of them (for windows: a non-empty expected window; for update/delete: at least one affected row)",
        assumptions: vec![
            "Condition::evaluate on the model's rows (all schema columns present, omitted nullable columns = Null) is the definition of 'satisfies'".into(),
            "limit/offset, iterator and streaming answers are required to be a duplicate-free subset of the satisfying rows of the exact size, and identical with and without indexes; a particular order is not demanded".into(),
            "min/max must be a value of a satisfying row and the true extreme only where the column's values are totally ordered (no NaN, not Bool/Json); float sums are compared with 1e-12 relative slack and not judged when both infinities are present".into(),
            "router errors on well-formed statements (negative literals etc.) are counted (text_router_errors), not judged here (C15)".into(),
            "lock/transaction/query timeouts are disabled or set to ~115 days so wall time never influences an answer".into(),
        ],
        floors: if single {
            vec![]
        } else {
            vec![
                ("cases", 200),
                ("cached_router_selects_checked", 2_000),
                ("query_rounds", 5_000),
                ("path:select:hash", 300),
                ("path:select:btree", 300),
                ("path:columnar:vectorized", 300),
                ("checked:text-select", 300),
                ("checked:limit", 2_000),
                ("checked:stream", 2_000),
                ("checked:update", 200),
                ("checked:delete", 200),
                ("op:tx_update+rollback", 30),
                ("op:tx_delete+rollback", 30),
                ("state_checks", 1_000),
                ("distinct_nontrivial", 10_000),
            ]
        },
        exhaustive: false,
    };
    write_result(&args, &meta, &total, started);
}
