//! shared helpers
